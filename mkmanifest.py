#!/usr/bin/env python3
"""Generates MANIFEST.json from the table below (single source of truth for the check registry)."""
import json, os
ROOT = os.path.dirname(os.path.abspath(__file__))
BASE = "cd /repo && go test -json -vet=off -count=1 -timeout 25m ./..."
LEVEL = {"C04": "fault_enumeration", "C05": "fault_enumeration", "C11": "fault_enumeration"}
T = {
 "C01": ("trace monitor at the callback boundary + exhaustive product of node kinds/scripts", "4 C01", "Every node kind x budget x outcome script of the standalone product is executed (finite space, enumerated completely) and thousands of generated flows; each callback checks the identity of what it receives and a trace predicate decides the lifecycle. Held = no run among those produced deviated; nothing is proved about payload types or scripts outside the generators."),
 "C02": ("trace monitor: attempt counters and argument identities; gated/free batch runs per item", "4 C02", "Complete for single nodes over budgets 1..8 and all failure sequences; sampled for batch items. Distinct error per attempt makes 'last error' observable."),
 "C03": ("reference interpreter vs. observed visit log; exhaustive small-table enumeration + random graphs", "4 C03", "Thorough enumerates the 3x2 table space completely (3.4 M runs); quick a slice of it. Routing is compared with an independent ~150-line interpreter."),
 "C04": ("fault enumeration over every on-path position; observation-based error-identity and fail-stop predicates", "4 C04", "One failure per position of every generated path, at every nesting depth, three error shapes. The oracle needs no model: it compares the returned error with the error the last callback returned."),
 "C05": ("synchronous cancellation injected at every callback ordinal; prefix/cut-short predicates against the un-cancelled reference run", "4 C05", "Cancellation is injected inside the callback, so 'cancelled before the next framework check' is a fact and not a race. Covers cancel and deadline contexts and done-before-run."),
 "C06": ("schedule enumeration with a quiescence-gated controller (stop-the-world goroutine dumps) + race detector", "3.3, 4 C06", "All completion orders of small batches are enumerated (not sampled) by parking every exec call and releasing one at a time at global quiescence; larger batches are randomised; a free-running variant runs under the race detector."),
 "C07": ("per-item trace predicates under gated adversarial interleavings + race detector", "4 C07", "Per-item scripts are random; release orders interleave retries of different items. Sampled, not exhaustive."),
 "C08": ("quiescent-point invariant parked == min(c, unfinished) + in-flight high-water counter + race detector", "4 C08", "Upper and lower bound of the limit are decided exactly at every quiescent point, for batches and pools, for all c in 0..16."),
 "C09": ("gated schedules holding the non-failing items parked; exec log vs. failure event; slot provenance tags", "4 C09", "Every position of the first failing item for the grid; 'failure handled' is the next quiescent point, not a timeout."),
 "C10": ("differential execution nested vs. flattened (both through flyt) + reference interpreter", "4 C10", "The flattening is constructed by the harness; any observable difference is a violation."),
 "C11": ("fault enumeration: cancellation inside every item/attempt under gated schedules; deadlock diagnosis by quiescence", "4 C11", "Termination is decided by the detector (everything blocked, nothing parked) instead of a wall-clock timeout, including with a 1-hour retry wait."),
 "C12": ("gated pool runs with quiescent-point invariants, execution counters, goroutine census, race detector", "4 C12", "Submit-blocks-not-drops and Wait-is-a-barrier are observed at quiescent points; visibility of effects by the race detector over plain writes."),
 "C13": ("history recording at the client boundary + porcupine linearizability checking; race detector stress", "4 C13", "Each of tens of thousands of short concurrent histories is decided by porcupine against a sequential array model with unique values; an overlap floor guards against vacuous runs."),
 "C14": ("lock-step reference map + snapshot re-verification after every step", "4 C14", "Sampled sequences up to 200 steps; every live snapshot is re-compared after every later step."),
 "C15": ("independent reflect-based oracle over a value zoo + grammar-generated values, every call under recover", "4 C15", "Totality (no panic) and agreement of four accessor variants and the store, over ~140 hostile fixed values and 20k-500k generated ones."),
 "C16": ("differential against encoding/json on identically pre-populated destinations", "4 C16", "All pairs of the fixed value/destination lists plus generated pairs; destination contents compared even after failed decodes."),
 "C17": ("assertions inside the user functions over the complete style x construction x context grid", "4 C17", "The grid is finite and enumerated completely for every zoo payload."),
 "C18": ("complete grid of node kinds x post action x batch shapes, direct and routed with decoy connections", "4 C18", "Finite grid, enumerated completely."),
 "C19": ("last-wins fold oracle over enumerated setting sequences x option/builder splits; behaviour probes (gated batch runs); gated pool-size probe; Go race detector over concurrent batches built through each construction form", "4 C19", "All sequences up to length 3/4 for both builders; longer ones sampled — the length-6 space is not enumerated and the evidence says so."),
 "C20": ("monotonic-clock timestamps in callbacks: exact lower bound; re-run-protected upper bounds; watchdog-bounded interruptibility", "4 C20", "The only property whose oracle reads a clock. The lower bound needs no tolerance; the upper bounds are reported only when they fail 4 times with doubling waits."),
}
checks = []
for p in sorted(T):
    tech, ref, text = T[p]
    checks.append(dict(property_id=p, quick_cmd=f"./vcheck {p} quick", thorough_cmd=f"./vcheck {p} thorough", evidence_file=f"/verif/evidence/{p}.json",
                       replay_cmd_template="./vcheck replay {path}", engine=p,
                       level_claimed=dict(category=LEVEL.get(p, "exploration"), text=text, design_ref="DESIGN.md section " + ref),
                       level_note="Trusted base: Go runtime + race detector, runtime.Stack wait states (gated engines), porcupine (C13), encoding/json and reflect (C15/C16), the harness's reference model (internal/scen/model.go). Verdict covers only the executions produced; see evidence coverage.rule.",
                       technique=tech))
m = dict(version=1,
         setup_cmd="./vcheck setup",
         hooks=dict(guard="verif", enable="go build -tags verif (the harness module replaces github.com/mark3labs/flyt with /repo); no source hooks are needed: every monitor observes at user callbacks and public methods",
                    baseline_off_cmd=BASE, source_commits=[], add_only=True),
         engines=[dict(name=p, path="harness/internal/engines", serves_properties=[p], kind_free_text=T[p][0]) for p in sorted(T)],
         checks=checks,
         notes="Runtime monitoring only. ./vcheck <ID> <tier> rebuilds the monitor binaries (normal and -race) from /repo's working tree on every invocation. Exit 0 held / 1 VIOLATION / 2 INCONCLUSIVE / 3 broken. Fixed defects are listed in known_findings.json (fixed: entries suppress nothing).",
         not_applicable=[])
json.dump(m, open(os.path.join(ROOT, "MANIFEST.json"), "w"), indent=1)
print("MANIFEST.json written with", len(checks), "checks")
