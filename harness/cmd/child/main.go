// child runs one monitor engine (or replays one case) and writes a JSON report.
package main

import (
	"encoding/json"
	"flag"
	"fmt"
	"os"
	"time"

	"verif/harness/internal/engines"
	"verif/harness/internal/rep"
)

func main() {
	engine := flag.String("engine", "", "property id / engine name")
	tier := flag.String("tier", "quick", "quick | thorough")
	seed := flag.Int64("seed", 1, "VERIF_SEED")
	shard := flag.Int("shard", 0, "shard index")
	nshards := flag.Int("nshards", 1, "number of shards")
	workers := flag.Int("workers", 0, "goroutines for in-process engines (0 = GOMAXPROCS)")
	out := flag.String("out", "", "report file")
	replay := flag.String("replay", "", "replay file (violation record or bare case spec)")
	list := flag.Bool("list", false, "list engines")
	flag.Parse()
	if *list {
		for _, n := range engines.Names() {
			e := engines.Registry[n]
			fmt.Printf("%s gated=%v %s\n", n, e.Gated, e.Doc)
		}
		return
	}
	e := engines.Registry[*engine]
	if e == nil {
		fmt.Fprintln(os.Stderr, "unknown engine", *engine)
		os.Exit(3)
	}
	r := rep.New(e.Prop, *engine, *tier, *seed, fmt.Sprintf("%d/%d", *shard, *nshards))
	cfg := &engines.Cfg{Tier: *tier, Seed: *seed, Shard: *shard, NShards: *nshards, Workers: *workers, Rep: r}
	if *out != "" {
		cfg.CurFile = *out + ".cur"
	}
	if *replay != "" {
		b, err := os.ReadFile(*replay)
		if err != nil {
			fmt.Fprintln(os.Stderr, err)
			os.Exit(3)
		}
		var v rep.Violation
		spec := json.RawMessage(b)
		if json.Unmarshal(b, &v) == nil && len(v.Case) > 0 {
			spec = v.Case
		}
		cfg.Verbose = true
		e.Replay(cfg, spec)
		fmt.Printf("replay: %d violation(s) reproduced\n", r.NViol())
		if *out != "" {
			_ = r.Write(*out)
		}
		if r.NViol() > 0 {
			os.Exit(1)
		}
		return
	}
	t0 := time.Now()
	e.Run(cfg)
	r.Seen["wall_ms"] = time.Since(t0).Milliseconds()
	if *out != "" {
		if err := r.Write(*out); err != nil {
			fmt.Fprintln(os.Stderr, err)
			os.Exit(3)
		}
		_ = os.Remove(cfg.CurFile)
	} else {
		b, _ := json.MarshalIndent(map[string]any{"evaluations": r.Evaluations, "seen": r.Seen, "max": r.Max, "violations": r.Violations, "violation_count": r.ViolCount, "inconclusive": r.Inconclusive, "incon_notes": r.InconNotes, "notes": r.Notes}, "", " ")
		fmt.Println(string(b))
	}
}
