// Package quiesce decides, from a stop-the-world goroutine dump, whether the
// process has reached a point where nothing can run until the controller acts:
// every goroutine other than the controller is parked in a blocking wait
// state. Only goroutine ids and wait states are inspected — no function
// names — so the detector does not depend on how flyt is written.
package quiesce

import (
	"bytes"
	"runtime"
	"runtime/debug"
	"strconv"
	"time"
)

var blockedStates = map[string]bool{
	"chan receive": true, "chan send": true, "select": true, "semacquire": true,
	"sync.Mutex.Lock": true, "sync.RWMutex.RLock": true, "sync.RWMutex.Lock": true,
	"sync.Cond.Wait": true, "sync.WaitGroup.Wait": true,
	"chan receive (nil chan)": true, "chan send (nil chan)": true, "select (no cases)": true,
}

// Blocked reports whether a wait state is one of the blocking states.
func Blocked(state string) bool { return blockedStates[state] }

// Snapshot is one stop-the-world observation.
type Snapshot struct {
	Goroutines int            // goroutines other than the controller
	Active     int            // of those, not in a blocking wait state
	States     map[int]string // goroutine id -> wait state
	Sleepers   int            // > 0: the point was accepted although this many goroutines are in a long timer sleep
}

var bufPool = make(chan []byte, 4)

// Self returns the calling goroutine's id.
func Self() int {
	var b [64]byte
	n := runtime.Stack(b[:], false)
	// "goroutine 123 ["
	s := b[:n]
	s = s[len("goroutine "):]
	i := bytes.IndexByte(s, ' ')
	id, _ := strconv.Atoi(string(s[:i]))
	return id
}

// Snap takes a snapshot; self is the controller's goroutine id.
func Snap(self int) Snapshot {
	var buf []byte
	select {
	case buf = <-bufPool:
	default:
		buf = make([]byte, 1<<18)
	}
	for {
		n := runtime.Stack(buf, true)
		if n < len(buf) {
			buf = buf[:n]
			break
		}
		buf = make([]byte, 2*len(buf))
	}
	sn := Snapshot{States: map[int]string{}}
	rest := buf
	for len(rest) > 0 {
		nl := bytes.IndexByte(rest, '\n')
		var line []byte
		if nl < 0 {
			line, rest = rest, nil
		} else {
			line, rest = rest[:nl], rest[nl+1:]
		}
		if !bytes.HasPrefix(line, []byte("goroutine ")) || !bytes.HasSuffix(line, []byte("]:")) {
			continue
		}
		l := line[len("goroutine "):]
		sp := bytes.IndexByte(l, ' ')
		if sp < 0 {
			continue
		}
		id, err := strconv.Atoi(string(l[:sp]))
		if err != nil {
			continue
		}
		st := l[sp+2 : len(l)-2] // strip " [" and "]:"
		if c := bytes.IndexByte(st, ','); c >= 0 {
			st = st[:c]
		}
		if id == self {
			continue
		}
		state := string(st)
		sn.States[id] = state
		sn.Goroutines++
		if !blockedStates[state] {
			sn.Active++
		}
	}
	buf = buf[:cap(buf)]
	select {
	case bufPool <- buf:
	default:
	}
	return sn
}

// Stats counts what the detector did (for evidence).
type Stats struct {
	Snapshots     int64
	Points        int64 // quiescent points reached
	Timeouts      int64
	SleeperPoints int64
}

// Wait blocks the controller until a quiescent snapshot is observed or the
// budget is exhausted. It returns the quiescent snapshot and true, or the last
// snapshot and false.
func Wait(self int, budget time.Duration, st *Stats) (Snapshot, bool) {
	// No GC cycle may START while we look: a goroutine that wants to start one parks on a runtime semaphore that
	// the dump itself holds and would look blocked — possibly in two consecutive snapshots. Callers switch the
	// collector off for whole batches of cases; this is the safety net for callers that did not.
	if old := debug.SetGCPercent(-1); old != -1 {
		defer debug.SetGCPercent(old)
	}
	deadline := time.Now().Add(budget)
	spins := 0
	var prev *Snapshot
	var sleepSince time.Time
	var sleepIDs map[int]bool
	for {
		runtime.Gosched()
		sn := Snap(self)
		if st != nil {
			st.Snapshots++
		}
		if sn.Active == 0 {
			// Confirm with a second snapshot taken after a pause: a goroutine can be
			// parked for an instant on a runtime-internal semaphore that the snapshot
			// itself holds (e.g. it wants to start a GC cycle while the world is being
			// stopped for this very dump). Such a goroutine runs as soon as the dump is
			// over, so two identical all-blocked snapshots in a row are required.
			if prev != nil && sameStates(prev, &sn) {
				if st != nil {
					st.Points++
				}
				return sn, true
			}
			p := sn
			prev = &p
			pause(30 * time.Microsecond)
			continue
		}
		prev = nil
		// Long sleepers: if for 1.5 s without interruption the only goroutines that are not blocked are the same
		// ones asleep in a timer sleep, nothing will run "soon" either (gated scenarios use waits of 0 or 1 hour):
		// report the point as quiescent and let the caller see the sleepers.
		if onlySleep(&sn) {
			if sleepSince.IsZero() || !sameIDs(sleepIDs, &sn) {
				sleepSince, sleepIDs = time.Now(), idsOf(&sn)
			} else if time.Since(sleepSince) > 1500*time.Millisecond {
				if st != nil {
					st.Points++
					st.SleeperPoints++
				}
				sn.Sleepers = sn.Active
				return sn, true
			}
		} else {
			sleepSince = time.Time{}
		}
		spins++
		if spins > 400 {
			time.Sleep(50 * time.Microsecond)
		} else if spins > 10 {
			pause(10 * time.Microsecond)
		}
		if spins%64 == 0 && time.Now().After(deadline) {
			if st != nil {
				st.Timeouts++
			}
			return sn, false
		}
	}
}

func sameStates(a, b *Snapshot) bool {
	if len(a.States) != len(b.States) {
		return false
	}
	for id, s := range a.States {
		if b.States[id] != s {
			return false
		}
	}
	return true
}

// pause yields the processor for roughly d without arming a timer (timer
// sleeps are ≥ 1 ms on this kernel).
func pause(d time.Duration) {
	t := time.Now()
	for time.Since(t) < d {
		runtime.Gosched()
	}
}

func onlySleep(sn *Snapshot) bool {
	if sn.Active == 0 {
		return false
	}
	for _, s := range sn.States {
		if s != "sleep" && !blockedStates[s] {
			return false
		}
	}
	return true
}

func idsOf(sn *Snapshot) map[int]bool {
	m := map[int]bool{}
	for id, s := range sn.States {
		if s == "sleep" {
			m[id] = true
		}
	}
	return m
}

func sameIDs(ids map[int]bool, sn *Snapshot) bool {
	n := 0
	for id, s := range sn.States {
		if s == "sleep" {
			if !ids[id] {
				return false
			}
			n++
		}
	}
	return n == len(ids)
}
