// Package zoo provides the value zoo (fixed hostile values of every Go kind)
// and a PRNG-driven generator that walks a type grammar with reflect.
package zoo

import (
	"bufio"
	"bytes"
	"fmt"
	"math"
	"math/rand/v2"
	"net"
	"reflect"
	"strings"
	"time"
	"unsafe"

	flyt "github.com/mark3labs/flyt"
)

type Named struct {
	Name string
	V    any
}

type T struct {
	A int
	B string
}
type WithSlice struct{ X []int }
type WithMap struct{ M map[string]int }
type WithFunc struct{ F func() }
type WithNaN struct{ F float64 }
type WithIface struct{ I any }
type NamedSlice []int
type NamedAnySlice []any
type RecSlice []RecSlice
type NamedMap map[string]any
type NamedInt int
type NamedFloat float64
type NamedString string
type NamedBool bool
// StringerStruct has a String method (value receiver).
type StringerStruct struct{ N int }

func (s StringerStruct) String() string { return fmt.Sprintf("stringer-%d", s.N) }

// DerefStringer has a String method that dereferences its pointer receiver (calling it on a nil pointer panics).
type DerefStringer struct{ Name string }

func (d *DerefStringer) String() string { return d.Name }

type Tagged struct {
	ID   int    `json:"id"`
	Name string `json:"name"`
}

var (
	someInt = 7
	someT   = T{1, "x"}
	ch      = make(chan int)
	fn      = func() {}
)

// Fixed returns the fixed part of the zoo. Every call returns fresh
// containers (so that mutation by one case cannot leak into another) but the
// same pointer / chan / func identities.
func Fixed() []Named {
	var nilPtr *T
	var nilSlice []int
	var nilAnySlice []any
	var nilMap map[string]any
	var nilFunc func()
	var nilChan chan int
	var nilErr error
	var ifaceNil any = nilPtr
	maxU := uint(math.MaxUint)
	out := []Named{
		{"nil", nil},
		{"typed-nil-ptr", nilPtr},
		{"typed-nil-slice", nilSlice},
		{"typed-nil-anyslice", nilAnySlice},
		{"typed-nil-map", nilMap},
		{"typed-nil-func", nilFunc},
		{"typed-nil-chan", nilChan},
		{"nil-error-iface", nilErr},
		{"iface-holding-typed-nil", ifaceNil},
		{"string", "hello"}, {"string-empty", ""}, {"string-num", "42"}, {"string-unicode", "héllo, 世界"},
		{"bool-true", true}, {"bool-false", false},
		{"named-int", NamedInt(5)}, {"named-float", NamedFloat(2.5)}, {"named-string", NamedString("ns")}, {"named-bool", NamedBool(true)},
		{"ptr-int", &someInt}, {"ptr-struct", &someT}, {"struct", someT}, {"struct-empty", struct{}{}},
		{"struct-with-slice", WithSlice{[]int{1}}}, {"struct-with-nil-slice", WithSlice{}},
		{"struct-with-map", WithMap{map[string]int{"a": 1}}}, {"struct-with-func", WithFunc{fn}}, {"struct-with-nilfunc", WithFunc{}},
		{"struct-with-nan", WithNaN{math.NaN()}}, {"struct-with-iface-slice", WithIface{[]int{1}}}, {"struct-with-iface-int", WithIface{1}},
		{"map-string-any", map[string]any{"a": 1, "b": "x"}}, {"map-string-any-empty", map[string]any{}},
		{"map-string-int", map[string]int{"a": 1}}, {"map-int-string", map[int]string{1: "a"}}, {"named-map", NamedMap{"k": 1}},
		{"map-of-slices", map[string][]int{"a": {1}}},
		{"func", fn}, {"chan", ch}, {"recv-chan", (<-chan int)(ch)},
		{"array-int", [3]int{1, 2, 3}}, {"array-empty", [0]int{}}, {"array-of-iface-slices", [2]any{[]int{1}, []int{2}}},
		{"array-of-iface-ints", [2]any{1, 2}}, {"array-one-iface-func", [1]any{fn}},
		{"slice-any", []any{1, "a", nil}}, {"slice-any-empty", []any{}}, {"slice-any-one", []any{5}},
		{"slice-any-one-slice", []any{[]any{1}}},
		{"slice-int", []int{1, 2, 3}}, {"slice-int-one", []int{9}}, {"slice-int-empty", []int{}},
		{"slice-string", []string{"a", "b"}}, {"slice-string-one", []string{"z"}}, {"slice-float64", []float64{1.5, math.NaN()}},
		{"slice-float64-one-nan", []float64{math.NaN()}},
		{"slice-map", []map[string]any{{"a": 1}, nil}}, {"slice-map-one", []map[string]any{{"a": 1}}},
		{"slice-byte", []byte("xy")}, {"slice-byte-one", []byte{1}}, {"slice-bool", []bool{true}},
		{"named-slice", NamedSlice{4, 5}}, {"named-slice-one", NamedSlice{4}}, {"named-any-slice", NamedAnySlice{1, 2}},
		{"named-any-slice-one", NamedAnySlice{1}},
		{"rec-slice", RecSlice{RecSlice{}, nil}}, {"rec-slice-one", RecSlice{RecSlice{}}}, {"rec-slice-one-nil", RecSlice{nil}},
		{"slice-of-ptr", []*T{&someT, nil}}, {"slice-of-ptr-one", []*T{&someT}}, {"slice-of-slices", [][]int{{1}, {2, 3}}},
		{"slice-of-slices-one", [][]int{{1}}}, {"slice-of-func-one", []func(){fn}}, {"slice-of-struct", []T{{1, "a"}}},
		{"slice-of-iface-err", []error{nil}}, {"slice-of-chan-one", []chan int{ch}}, {"slice-struct-with-slice-one", []WithSlice{{[]int{1}}}},
		{"complex128", complex(1, 2)}, {"complex64", complex64(complex(1, 2))}, {"uintptr", uintptr(3)},
		{"unsafe-pointer", unsafe.Pointer(&someInt)},
		{"error-value", fmt.Errorf("an error")}, {"tagged-struct", Tagged{1, "n"}}, {"ptr-tagged", &Tagged{2, "m"}},
		{"ptr-ptr", func() any { p := &someInt; return &p }()},
		{"rune", 'x'}, {"json-number-string", "1e3"},
		// the library's own named string type as a payload: a value like any other
		{"flyt-action", flyt.Action("approve")}, {"flyt-action-empty", flyt.Action("")}, {"flyt-action-default", flyt.DefaultAction},
		{"slice-of-iface-err-two", []error{fmt.Errorf("e1"), nil}}, {"slice-of-stringer", []fmt.Stringer{nil}},
		// values whose types have a String() method: not strings
		{"stringer-duration", time.Duration(1500) * time.Millisecond}, {"stringer-struct", StringerStruct{7}}, {"stringer-ptr", &StringerStruct{8}},
		{"stringer-typed-nil-ptr", (*DerefStringer)(nil)}, {"stringer-ip", net.IPv4(10, 0, 0, 1)}, {"stringer-weekday", time.Wednesday},
		{"float32-neg0", float32(math.Copysign(0, -1))}, {"complex128-0", complex(0, 0)}, {"complex128-neg0", complex(math.Copysign(0, -1), 0)},
		{"ptr-to-slice", &[]int{1, 2}}, {"ptr-to-anyslice", &[]any{1}}, {"ptr-to-nil-slice", new([]string)},
		{"map-string-any-other-keys", map[string]any{"c": 3, "nested": map[string]any{"x": 1}}}, {"map-string-any-nested", map[string]any{"a": 9, "nested": map[string]any{"y": 2}}},
		{"string-json-object", `{"a":1,"id":7,"name":"n"}`}, {"string-json-array", `[1,2,3]`}, {"bytes-json-object", []byte(`{"id":1,"name":"x"}`)},
	}
	// numeric kinds at boundary values
	out = append(out,
		Named{"int-min", math.MinInt}, Named{"int-m1", -1}, Named{"int-0", 0}, Named{"int-1", 1}, Named{"int-max", math.MaxInt},
		Named{"int8-min", int8(math.MinInt8)}, Named{"int8-m1", int8(-1)}, Named{"int8-0", int8(0)}, Named{"int8-max", int8(math.MaxInt8)},
		Named{"int16-min", int16(math.MinInt16)}, Named{"int16-m1", int16(-1)}, Named{"int16-max", int16(math.MaxInt16)},
		Named{"int32-min", int32(math.MinInt32)}, Named{"int32-m1", int32(-1)}, Named{"int32-max", int32(math.MaxInt32)},
		Named{"int64-min", int64(math.MinInt64)}, Named{"int64-m1", int64(-1)}, Named{"int64-0", int64(0)}, Named{"int64-max", int64(math.MaxInt64)},
		Named{"uint-0", uint(0)}, Named{"uint-1", uint(1)}, Named{"uint-max", maxU}, Named{"uint-maxint+1", uint(math.MaxInt) + 1},
		Named{"uint8-0", uint8(0)}, Named{"uint8-max", uint8(math.MaxUint8)}, Named{"uint16-max", uint16(math.MaxUint16)},
		Named{"uint16-1", uint16(1)}, Named{"uint32-max", uint32(math.MaxUint32)}, Named{"uint32-1", uint32(1)},
		Named{"uint64-0", uint64(0)}, Named{"uint64-max", uint64(math.MaxUint64)}, Named{"uint64-maxint+1", uint64(math.MaxInt64) + 1},
		Named{"float32-0", float32(0)}, Named{"float32-1.5", float32(1.5)}, Named{"float32-m1.5", float32(-1.5)}, Named{"float32-max", float32(math.MaxFloat32)},
		Named{"float32-nan", float32(math.NaN())}, Named{"float32-inf", float32(math.Inf(1))}, Named{"float32-small", float32(math.SmallestNonzeroFloat32)},
		Named{"float64-0", 0.0}, Named{"float64-neg0", math.Copysign(0, -1)}, Named{"float64-1.5", 1.5}, Named{"float64-m2.9", -2.9},
		Named{"float64-1e18", 1e18}, Named{"float64-1e30", 1e30}, Named{"float64-m1e30", -1e30}, Named{"float64-max", math.MaxFloat64},
		Named{"float64-nan", math.NaN()}, Named{"float64-inf", math.Inf(1)}, Named{"float64-minf", math.Inf(-1)},
		Named{"float64-2^63", 9223372036854775808.0}, Named{"float64-2^53+", 9007199254740993.0},
	)
	out = append(out,
		// one-shot streams (io.Reader without io.Seeker), a seekable reader, maps keyed by any
		Named{"reader-bytes-buffer", bytes.NewBufferString("stream")}, Named{"reader-bufio", bufio.NewReader(strings.NewReader("buffered"))},
		Named{"reader-strings", strings.NewReader("seekable")},
		Named{"map-any-any", map[any]any{"a": 1}}, Named{"map-any-any-intkey", map[any]any{1: "x"}},
		Named{"map-string-any-holding-map-any-any", map[string]any{"m": map[any]any{"k": "v"}}}, Named{"anyslice-holding-map-any-any", []any{map[any]any{"k": 2}}},
		// lists of the library's own Result type (a value like any other outside a batch node) and fixed-size arrays (single values, not lists)
		Named{"result-slice", []flyt.Result{flyt.NewResult("a"), flyt.NewResult(2), flyt.NewResult(nil)}}, Named{"result-slice-empty", []flyt.Result{}},
		Named{"result-slice-with-error", []flyt.Result{flyt.NewResult(1), flyt.NewErrorResult(fmt.Errorf("an item that failed earlier"))}},
		Named{"shared-store-pointer", flyt.NewSharedStore()},
		Named{"func-returning-any", func() any { return 42 }}, Named{"func-returning-any-and-error", func() (any, error) { return 1, nil }},
		Named{"array-int-3", [3]int{1, 2, 3}}, Named{"array-byte-16", [16]byte{1, 2, 3}}, Named{"array-string-0", [0]string{}}, Named{"array-any-2", [2]any{"x", 1}},
	)
	return out
}

// Index returns the position of the named value in Fixed() (-1 if absent).
func Index(name string) int {
	for i, z := range Fixed() {
		if z.Name == name {
			return i
		}
	}
	return -1
}

// Same reports whether two dynamic values are "the same value" in the sense
// the properties use: identical dynamic type, and identity for reference
// kinds, bit-equality for floats, deep equality (NaN-aware) otherwise.
func Same(a, b any) bool {
	if a == nil || b == nil {
		return a == nil && b == nil
	}
	va, vb := reflect.ValueOf(a), reflect.ValueOf(b)
	if va.Type() != vb.Type() {
		return false
	}
	return sameV(va, vb, 0)
}

func sameV(a, b reflect.Value, depth int) bool {
	if depth > 12 {
		return true
	}
	if a.Type() != b.Type() {
		return false
	}
	switch a.Kind() {
	case reflect.Ptr, reflect.Map, reflect.Chan, reflect.Func, reflect.UnsafePointer:
		return a.Pointer() == b.Pointer()
	case reflect.Slice:
		if a.IsNil() != b.IsNil() {
			return false
		}
		return a.Len() == b.Len() && (a.Len() == 0 || a.Pointer() == b.Pointer())
	case reflect.Float32, reflect.Float64:
		return math.Float64bits(a.Float()) == math.Float64bits(b.Float())
	case reflect.Complex64, reflect.Complex128:
		x, y := a.Complex(), b.Complex()
		return math.Float64bits(real(x)) == math.Float64bits(real(y)) && math.Float64bits(imag(x)) == math.Float64bits(imag(y))
	case reflect.Interface:
		if a.IsNil() || b.IsNil() {
			return a.IsNil() && b.IsNil()
		}
		return sameV(a.Elem(), b.Elem(), depth+1)
	case reflect.Array:
		for i := 0; i < a.Len(); i++ {
			if !sameV(a.Index(i), b.Index(i), depth+1) {
				return false
			}
		}
		return true
	case reflect.Struct:
		for i := 0; i < a.NumField(); i++ {
			if !sameV(a.Field(i), b.Field(i), depth+1) {
				return false
			}
		}
		return true
	case reflect.Bool:
		return a.Bool() == b.Bool()
	case reflect.String:
		return a.String() == b.String()
	case reflect.Int, reflect.Int8, reflect.Int16, reflect.Int32, reflect.Int64:
		return a.Int() == b.Int()
	case reflect.Uint, reflect.Uint8, reflect.Uint16, reflect.Uint32, reflect.Uint64, reflect.Uintptr:
		return a.Uint() == b.Uint()
	}
	return false
}

// Describe renders a value for reports without panicking and without
// following pointers deeply.
func Describe(v any) string {
	if v == nil {
		return "nil"
	}
	defer func() { recover() }()
	s := fmt.Sprintf("%T:%v", v, v)
	if len(s) > 120 {
		s = s[:120] + "…"
	}
	return s
}

// ---------------------------------------------------------------------------
// Generated values: a PRNG walks a type grammar.

var leafTypes = []reflect.Type{
	reflect.TypeOf(int(0)), reflect.TypeOf(int8(0)), reflect.TypeOf(int16(0)), reflect.TypeOf(int32(0)), reflect.TypeOf(int64(0)),
	reflect.TypeOf(uint(0)), reflect.TypeOf(uint8(0)), reflect.TypeOf(uint16(0)), reflect.TypeOf(uint32(0)), reflect.TypeOf(uint64(0)),
	reflect.TypeOf(float32(0)), reflect.TypeOf(float64(0)), reflect.TypeOf(""), reflect.TypeOf(true),
	reflect.TypeOf(complex128(0)), reflect.TypeOf(uintptr(0)),
	reflect.TypeOf((*any)(nil)).Elem(), reflect.TypeOf((*error)(nil)).Elem(),
	reflect.TypeOf(NamedInt(0)), reflect.TypeOf(NamedFloat(0)), reflect.TypeOf(NamedString("")), reflect.TypeOf(T{}), reflect.TypeOf(NamedSlice(nil)),
}

var comparableKeyTypes = []reflect.Type{
	reflect.TypeOf(""), reflect.TypeOf(int(0)), reflect.TypeOf(true), reflect.TypeOf(NamedString("")), reflect.TypeOf(uint8(0)), reflect.TypeOf(float64(0)),
}

// GenType draws a type of bounded depth.
func GenType(r *rand.Rand, depth int) reflect.Type {
	if depth <= 0 || r.IntN(3) == 0 {
		return leafTypes[r.IntN(len(leafTypes))]
	}
	switch r.IntN(8) {
	case 0, 1:
		return reflect.SliceOf(GenType(r, depth-1))
	case 2:
		return reflect.MapOf(comparableKeyTypes[r.IntN(len(comparableKeyTypes))], GenType(r, depth-1))
	case 3:
		return reflect.ArrayOf(r.IntN(3), GenType(r, depth-1))
	case 4:
		n := 1 + r.IntN(3)
		fs := make([]reflect.StructField, n)
		for i := range fs {
			fs[i] = reflect.StructField{Name: fmt.Sprintf("F%d", i), Type: GenType(r, depth-1)}
			if r.IntN(3) == 0 {
				fs[i].Tag = reflect.StructTag(fmt.Sprintf(`json:"f%d"`, i))
			}
		}
		return reflect.StructOf(fs)
	case 5:
		return reflect.PointerTo(GenType(r, depth-1))
	case 6:
		return reflect.ChanOf(reflect.BothDir, GenType(r, depth-1))
	default:
		return reflect.FuncOf(nil, []reflect.Type{GenType(r, depth-1)}, false)
	}
}

var hostileFloats = []float64{0, 1, -1, 1.5, -2.9, math.NaN(), math.Inf(1), math.Inf(-1), 1e30, -1e30, 9223372036854775808.0, math.MaxFloat64, math.SmallestNonzeroFloat64}
var hostileInts = []int64{0, 1, -1, math.MaxInt64, math.MinInt64, math.MaxInt32, math.MinInt32, 127, -128, 255, 256}

// GenValue fills a value of type t.
func GenValue(r *rand.Rand, t reflect.Type, depth int) reflect.Value {
	v := reflect.New(t).Elem()
	switch t.Kind() {
	case reflect.Bool:
		v.SetBool(r.IntN(2) == 0)
	case reflect.Int, reflect.Int8, reflect.Int16, reflect.Int32, reflect.Int64:
		v.SetInt(hostileInts[r.IntN(len(hostileInts))])
	case reflect.Uint, reflect.Uint8, reflect.Uint16, reflect.Uint32, reflect.Uint64, reflect.Uintptr:
		v.SetUint(uint64(hostileInts[r.IntN(len(hostileInts))]))
	case reflect.Float32, reflect.Float64:
		v.SetFloat(hostileFloats[r.IntN(len(hostileFloats))])
	case reflect.Complex64, reflect.Complex128:
		v.SetComplex(complex(hostileFloats[r.IntN(len(hostileFloats))], hostileFloats[r.IntN(len(hostileFloats))]))
	case reflect.String:
		v.SetString([]string{"", "a", "42", "héllo", "null", "{}"}[r.IntN(6)])
	case reflect.Slice:
		if r.IntN(6) == 0 {
			return v // nil slice
		}
		n := []int{0, 1, 1, 1, 2, 3}[r.IntN(6)]
		s := reflect.MakeSlice(t, n, n)
		for i := 0; i < n; i++ {
			s.Index(i).Set(GenValue(r, t.Elem(), depth-1))
		}
		v.Set(s)
	case reflect.Array:
		for i := 0; i < t.Len(); i++ {
			v.Index(i).Set(GenValue(r, t.Elem(), depth-1))
		}
	case reflect.Map:
		if r.IntN(6) == 0 {
			return v
		}
		m := reflect.MakeMap(t)
		n := r.IntN(3)
		for i := 0; i < n; i++ {
			k := GenValue(r, t.Key(), depth-1)
			if k.Kind() == reflect.Float64 && k.Float() != k.Float() {
				continue // NaN keys cannot be looked up; legal but pointless
			}
			m.SetMapIndex(k, GenValue(r, t.Elem(), depth-1))
		}
		v.Set(m)
	case reflect.Struct:
		for i := 0; i < t.NumField(); i++ {
			if v.Field(i).CanSet() {
				v.Field(i).Set(GenValue(r, t.Field(i).Type, depth-1))
			}
		}
	case reflect.Ptr:
		if r.IntN(4) == 0 {
			return v
		}
		p := reflect.New(t.Elem())
		p.Elem().Set(GenValue(r, t.Elem(), depth-1))
		v.Set(p)
	case reflect.Chan:
		if r.IntN(3) != 0 {
			v.Set(reflect.MakeChan(t, 0))
		}
	case reflect.Func:
		if r.IntN(3) != 0 {
			v.Set(reflect.MakeFunc(t, func(args []reflect.Value) []reflect.Value {
				out := make([]reflect.Value, t.NumOut())
				for i := range out {
					out[i] = reflect.Zero(t.Out(i))
				}
				return out
			}))
		}
	case reflect.Interface:
		if depth <= 0 || r.IntN(4) == 0 {
			return v // nil interface
		}
		if t.NumMethod() > 0 { // error
			v.Set(reflect.ValueOf(fmt.Errorf("gen-error")))
			return v
		}
		it := GenType(r, depth-1)
		for it.Kind() == reflect.Interface {
			it = leafTypes[r.IntN(14)]
		}
		v.Set(GenValue(r, it, depth-1))
	}
	return v
}

// Gen draws a random value (as `any`) of a random type of depth ≤ maxDepth.
func Gen(r *rand.Rand, maxDepth int) (v any, typ string) {
	t := GenType(r, maxDepth)
	val := GenValue(r, t, maxDepth)
	if t.Kind() == reflect.Interface {
		if val.IsNil() {
			return nil, "nil"
		}
		val = val.Elem()
	}
	return val.Interface(), val.Type().String()
}
