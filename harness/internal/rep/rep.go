// Package rep holds the report a child process hands back to the driver:
// counters maintained by the monitors, the set of distinct non-trivial case
// signatures, sample cases and violations (each with a stable key and a
// replayable case spec).
package rep

import (
	"encoding/binary"
	"encoding/json"
	"fmt"
	"hash/fnv"
	"os"
	"sort"
	"sync"
)

// Violation is one refuted observation.
type Violation struct {
	Property string          `json:"property"`
	Key      string          `json:"key"`    // stable identity of the failing input / call site (known-findings match on this)
	Detail   string          `json:"detail"` // human readable: what was observed vs. what the statement allows
	Engine   string          `json:"engine"`
	Case     json.RawMessage `json:"case"` // complete case spec; `child -replay` re-executes it
}

// Report is written as JSON by the child.
type Report struct {
	mu sync.Mutex

	Property     string           `json:"property"`
	Engine       string           `json:"engine"`
	Tier         string           `json:"tier"`
	Seed         int64            `json:"seed"`
	Shard        string           `json:"shard"`
	Evaluations  int64            `json:"evaluations"`
	Distinct     []uint64         `json:"-"`              // hashes of distinct non-trivial signatures (written to <out>.distinct, 8 bytes LE each)
	DistinctN    int              `json:"distinct_count"`
	Seen         map[string]int64 `json:"seen"`     // what the monitors observed
	Max          map[string]int64 `json:"max"`      // high-water marks
	Samples      []any            `json:"samples"`
	Violations   []Violation      `json:"violations"`
	ViolCount    int64            `json:"violation_count"`
	Inconclusive int64            `json:"inconclusive"`
	InconNotes   []string         `json:"inconclusive_notes"`
	Exhaustive   bool             `json:"exhaustive"`
	Notes        []string         `json:"notes"`

	distinct map[uint64]struct{}
	violKeys map[string]int
	maxSamp  int
}

func New(property, engine, tier string, seed int64, shard string) *Report {
	return &Report{Property: property, Engine: engine, Tier: tier, Seed: seed, Shard: shard,
		Seen: map[string]int64{}, Max: map[string]int64{}, distinct: map[uint64]struct{}{},
		violKeys: map[string]int{}, maxSamp: 4}
}

func Hash(s string) uint64 {
	h := fnv.New64a()
	h.Write([]byte(s))
	return h.Sum64()
}

// Eval counts one execution.
func (r *Report) Eval() { r.mu.Lock(); r.Evaluations++; r.mu.Unlock() }

// EvalN counts n executions.
func (r *Report) EvalN(n int64) { r.mu.Lock(); r.Evaluations += n; r.mu.Unlock() }

// Nontrivial records the signature of a case that exercised the property.
func (r *Report) Nontrivial(sig string) {
	h := Hash(sig)
	r.mu.Lock()
	r.distinct[h] = struct{}{}
	r.mu.Unlock()
}

// NontrivialH records a precomputed signature hash.
func (r *Report) NontrivialH(h uint64) {
	r.mu.Lock()
	r.distinct[h] = struct{}{}
	r.mu.Unlock()
}

func (r *Report) Count(k string, n int64) { r.mu.Lock(); r.Seen[k] += n; r.mu.Unlock() }

func (r *Report) HighWater(k string, v int64) {
	r.mu.Lock()
	if v > r.Max[k] {
		r.Max[k] = v
	}
	r.mu.Unlock()
}

// Sample keeps a few complete cases per tag.
func (r *Report) Sample(tag string, v any) {
	r.mu.Lock()
	defer r.mu.Unlock()
	n := 0
	for _, s := range r.Samples {
		if m, ok := s.(map[string]any); ok && m["tag"] == tag {
			n++
		}
	}
	if n >= r.maxSamp {
		return
	}
	r.Samples = append(r.Samples, map[string]any{"tag": tag, "case": v})
}

func (r *Report) SampleWanted(tag string) bool {
	r.mu.Lock()
	defer r.mu.Unlock()
	n := 0
	for _, s := range r.Samples {
		if m, ok := s.(map[string]any); ok && m["tag"] == tag {
			n++
		}
	}
	return n < r.maxSamp
}

// Violate records a violation; at most 3 witnesses are kept per key and 60 overall.
func (r *Report) Violate(property, key, detail string, cs any) {
	b, err := json.Marshal(cs)
	if err != nil {
		b, _ = json.Marshal(fmt.Sprintf("unserialisable case: %v", err))
	}
	r.mu.Lock()
	defer r.mu.Unlock()
	r.ViolCount++
	r.violKeys[key]++
	if r.violKeys[key] > 2 || len(r.Violations) >= 60 {
		return
	}
	r.Violations = append(r.Violations, Violation{Property: property, Key: key, Detail: detail, Engine: r.Engine, Case: b})
}

func (r *Report) Incon(note string) {
	r.mu.Lock()
	r.Inconclusive++
	if len(r.InconNotes) < 10 {
		r.InconNotes = append(r.InconNotes, note)
	}
	r.mu.Unlock()
}

func (r *Report) Note(s string) { r.mu.Lock(); r.Notes = append(r.Notes, s); r.mu.Unlock() }

func (r *Report) NViol() int64 { r.mu.Lock(); defer r.mu.Unlock(); return r.ViolCount }

// Write serialises the report.
func (r *Report) Write(path string) error {
	r.mu.Lock()
	defer r.mu.Unlock()
	r.Distinct = r.Distinct[:0]
	for h := range r.distinct {
		r.Distinct = append(r.Distinct, h)
	}
	sort.Slice(r.Distinct, func(i, j int) bool { return r.Distinct[i] < r.Distinct[j] })
	r.DistinctN = len(r.Distinct)
	db := make([]byte, 8*len(r.Distinct))
	for i, h := range r.Distinct {
		binary.LittleEndian.PutUint64(db[8*i:], h)
	}
	if err := os.WriteFile(path+".distinct", db, 0o644); err != nil {
		return err
	}
	b, err := json.Marshal(r)
	if err != nil {
		return err
	}
	tmp := path + ".tmp"
	if err := os.WriteFile(tmp, b, 0o644); err != nil {
		return err
	}
	return os.Rename(tmp, path)
}
