// Package scen defines JSON-serialisable scenarios (scripted nodes of every
// kind, flow trees, fault / cancellation injections), executes them against
// the real flyt library while recording a trace at the callback boundary, and
// provides an independent reference model of the expected trace.
package scen

import (
	"context"
	"errors"
	"fmt"
	"io"
	"slices"
	"sort"
	"strings"
	"sync"
	"sync/atomic"
	"time"

	flyt "github.com/mark3labs/flyt"

	"verif/harness/internal/zoo"
)

// Node kinds.
const (
	KBase            = iota // struct embedding *BaseNode (retry via options), default fallback
	KBaseFB                 // struct embedding *BaseNode overriding ExecFallback
	KPlain                  // plain Node: no retry interface, no fallback
	KPlainFB                // plain Node with its own ExecFallback (one attempt)
	KPlainRetry             // plain Node with its own GetMaxRetries/GetWait, no fallback
	KPlainRetryFB           // plain Node with both
	KFnOptRes               // flyt.NewNode(options...) Result-style functions
	KFnOptAny               // flyt.NewNode(options...) Any-style functions
	KFnBldRes               // flyt.NewNode().With...() Result-style
	KFnBldAny               // flyt.NewNode().With...() Any-style
	KFnMixed                // options and builder, Result and Any mixed
	KEmbedBld               // composition: a struct embedding *flyt.NodeBuilder that overrides Prep, Exec and Post (the builder's own functions must never run)
	KBaseOverride           // composition: a struct embedding *BaseNode (configured with OTHER settings) that overrides GetMaxRetries / GetWait
	KEmbedFlow              // composition: a struct embedding *flyt.Flow (whose own node must never run) that overrides Prep, Exec and Post
	KFlow                   // a flyt.Flow (NodeSpec.Flow describes it)
	KBatch                  // a sequential two-item batch node (builder); item calls are recorded as phase "item"
	NumScriptedKinds = KFlow
)

var KindNames = []string{"base", "baseFB", "plain", "plainFB", "plainRetry", "plainRetryFB", "fnOptRes", "fnOptAny", "fnBldRes", "fnBldAny", "fnMixed", "embedBuilder", "baseOverride", "embedFlow", "flow", "batch"}

func KindHasRetry(k int) bool { return k != KPlain && k != KPlainFB }
func KindCanFB(k int) bool {
	return k != KBase && k != KPlain && k != KPlainRetry && k != KBaseOverride && k != KEmbedFlow
}

// Error kinds used by scripted failures.
const (
	ESentinel = iota // errors.New value returned as is
	EWrapped         // callback returns fmt.Errorf("...: %w", sentinel)
	ECustom          // *CustomErr (checked with errors.As + field)
	NumErrKinds
	// ECtxLike is used explicitly (never drawn by the generators): the callback's error wraps the sentinel
	// AND a context error, although the run's own context is alive (e.g. a per-attempt timeout).
	ECtxLike = NumErrKinds
	// ECtxAware: like ESentinel, but when the run's own context is already done at that moment the returned error
	// also wraps ctx.Err() (a callback that notices the cancellation and reports it as its failure).
	ECtxAware = NumErrKinds + 1
	// ETemporary: the error implements Temporary() bool { return true } (a "transient" error as net errors do)
	ETemporary = NumErrKinds + 2
	// EUncomparable: the error is a struct VALUE with a slice field (comparing two of them with == panics; errors.Is
	// must be used, which guards against that); matched with errors.As + its ID field
	EUncomparable = NumErrKinds + 3
	// EJoined: errors.Join(other, sentinel) — the sentinel sits in a multi-error tree, not in a linear chain
	EJoined = NumErrKinds + 4
	// ENestedRun: the callback ran another flyt.Run itself, which failed, and returns its own error value wrapping both
	// its sentinel and that inner run's error (the returned value is still the callback's own)
	ENestedRun = NumErrKinds + 5
	// ETypedNil: a non-nil error interface that holds a nil pointer (the classic typed-nil): still an error
	ETypedNil = NumErrKinds + 6
	// ENilSliceErr: a non-nil error interface holding a nil slice of a slice-based error type
	ENilSliceErr = NumErrKinds + 7
	// ENotTemporary: the error implements Temporary() bool { return false } (like *net.DNSError for an unknown host): still retried
	ENotTemporary = NumErrKinds + 8
	// EChained: every failing attempt's error wraps the previous attempt's error ("retry n: ...: <previous>")
	EChained = NumErrKinds + 9
	// ESameValue: every failing attempt of a visit returns the very same error value (a reused sentinel)
	ESameValue = NumErrKinds + 10
	// EIOEOF: the callback fails with io.EOF itself / an error wrapping io.EOF (a well-known sentinel a library might be tempted to use internally)
	EIOEOF = NumErrKinds + 11
	// EEmptyBatchErr: the callback fails with the library's own aggregate error type holding no entries (an aggregate
	// returned unconditionally), as is or wrapped: a non-nil error like any other
	EEmptyBatchErr = NumErrKinds + 12
	// EWrapping: a typed error (*WrapErr) that itself wraps an unrelated root cause through Unwrap: the value the
	// callback returned is the typed one — a library that digs for a "root cause" loses it
	EWrapping = NumErrKinds + 13
)

// WrapErr is a typed error with a cause of its own.
type WrapErr struct {
	ID    string
	Cause error
}

func (e *WrapErr) Error() string { return "quota exceeded for " + e.ID + ": " + e.Cause.Error() }
func (e *WrapErr) Unwrap() error { return e.Cause }

// PermErr is a permanent-looking error.
type PermErr struct{ ID string }

func (e *PermErr) Error() string   { return "permanent failure " + e.ID }
func (e *PermErr) Temporary() bool { return false }
func (e *PermErr) Timeout() bool   { return false }

// NilableErr is a pointer error type whose methods work on a nil receiver.
type NilableErr struct{ msg string }

func (e *NilableErr) Error() string {
	if e == nil {
		return "typed-nil error"
	}
	return e.msg
}

// MultiErr is a slice-based error type (a nil MultiErr inside an error interface is a non-nil error).
type MultiErr []error

func (m MultiErr) Error() string { return fmt.Sprintf("%d errors", len(m)) }

// AllErrKinds lists every error kind a callback can be scripted to fail with (ECtxAware excluded: it depends on the context).
var AllErrKinds = []int{ESentinel, EWrapped, ECustom, ECtxLike, EUncomparable, EJoined, ENestedRun, ETemporary, ETypedNil, ENilSliceErr, ENotTemporary, EChained, ESameValue, EIOEOF, EEmptyBatchErr, EWrapping}

// UncompErr is an error whose dynamic type is not comparable.
type UncompErr struct {
	ID   string
	Tags []string
}

func (e UncompErr) Error() string { return "uncomparable error " + e.ID }

// TempErr is a transient-looking error.
type TempErr struct{ ID string }

func (e *TempErr) Error() string   { return "temporary failure " + e.ID }
func (e *TempErr) Temporary() bool { return true }
func (e *TempErr) Timeout() bool   { return false }

// CustomErr is a pointer-receiver error type carrying a payload.
type CustomErr struct{ ID string }

func (e *CustomErr) Error() string { return "custom error " + e.ID }

// Visit scripts one visit of a node.
type Visit struct {
	PrepErr bool   `json:"prep_err,omitempty"`
	FirstOK int    `json:"first_ok"` // 1-based index of the first succeeding exec attempt; > budget means never
	FBErr   bool   `json:"fb_err,omitempty"`
	Post    string `json:"post"` // action returned by post ("" allowed)
	PostErr bool   `json:"post_err,omitempty"`
	Payload int    `json:"payload,omitempty"` // 0: unique pointer payloads; >0: index into the zoo (prep and exec values)
	FBNil   bool   `json:"fb_nil,omitempty"`  // a rescuing fallback returns (nil, nil): nil then IS the exec outcome
	PrepErrRes bool `json:"prep_err_res,omitempty"` // Result-style prep functions only: prep returns (NewErrorResult(e), nil) — a successful prep whose payload is nil
	PanicIn string `json:"panic_in,omitempty"` // "prep" | "exec" | "post": that callback panics on this visit (the run is over; what a LATER run of the same objects does is what is looked at)
}

// Conn is one Connect call (To < 0 means nil target).
type Conn struct {
	From   int    `json:"from"`
	Action string `json:"action"`
	To     int    `json:"to"`
}

// FlowSpec describes a flyt.Flow: start node and the ordered Connect calls.
type FlowSpec struct {
	Start   int    `json:"start"`
	Conns   []Conn `json:"conns"`
	Retries int    `json:"retries,omitempty"` // > 1: a retry budget configured on the flow's own BaseNode (a flow used as a node is retried like a node)
}

// NodeSpec describes one node object.
type NodeSpec struct {
	Kind    int       `json:"kind"`
	N       int       `json:"n"`                // configured retry budget (ignored by kinds without retry interface)
	HasFB   bool      `json:"has_fb,omitempty"` // fallback installed (only for kinds that can)
	ErrKind int       `json:"err_kind,omitempty"`
	WaitMs  int       `json:"wait_ms,omitempty"` // retry wait (kinds with retry settings)
	WaitNs  int       `json:"wait_ns,omitempty"` // additional nanoseconds of retry wait (tiny, non-zero waits)
	LoopN   int       `json:"loop_n,omitempty"`  // > 0: the node returns action "loop" on its first LoopN visits and "exit" afterwards (Visits is ignored): long cycles
	Conc    int       `json:"conc,omitempty"`    // > 0: a batch concurrency (and stop-on-error) is configured on this NON-batch node: must change nothing
	PrepSetsN bool    `json:"prep_sets_n,omitempty"` // the node is built with ANOTHER budget and its own prep sets N (builder method / option on its BaseNode / own field): the setting in force when the attempts start is the budget
	Visits  []Visit   `json:"visits,omitempty"`  // script per visit; beyond the script the node succeeds at once and returns EndAction
	Flow    *FlowSpec `json:"flow,omitempty"`
}

// Wait is the configured retry wait.
func (s *NodeSpec) Wait() time.Duration {
	return time.Duration(s.WaitMs)*time.Millisecond + time.Duration(s.WaitNs)
}

// EndAction is returned by post once a node's script is exhausted; generators never connect it.
const EndAction = "__end"

// Inject describes a cancellation injection.
type Inject struct {
	Kind string `json:"kind"` // "", "cancel", "deadline", "pre-cancel", "pre-deadline", "real-timeout", "pre-expired"
	At   int    `json:"at"`   // callback ordinal (0-based) at whose entry the context is cancelled
	// OneRun: the injection applies to run number Run only (0-based); the other runs of the scenario get a live context
	OneRun bool `json:"one_run,omitempty"`
	Run    int  `json:"run,omitempty"`
	// Alt: injection kind used in odd-numbered runs instead of Kind (e.g. run 0 is cancelled, run 1 hits a deadline)
	Alt string `json:"alt,omitempty"`
}

// Scenario is a complete case.
type Scenario struct {
	Nodes            []NodeSpec `json:"nodes"`
	Root             int        `json:"root"`
	Runs             int        `json:"runs"`                   // sequential runs of the same objects (≥1)
	UseFlowRun       bool       `json:"use_flow_run,omitempty"` // call Flow.Run instead of flyt.Run when root is a flow
	Inject           Inject     `json:"inject,omitempty"`
	FreshStore       bool       `json:"fresh_store,omitempty"`        // new store for every run
	Rewire           []Rewire   `json:"rewire,omitempty"`             // Connect calls made between runs
	ShareBase        bool       `json:"share_base,omitempty"`         // struct nodes with the same budget embed ONE shared *BaseNode (shared configuration, distinct nodes)
	MaxCallbacks     int        `json:"max_callbacks,omitempty"`      // runaway bound override for long-cycle scenarios
	StrayFlowRetries int        `json:"stray_flow_retries,omitempty"` // > 0: an unrelated flow object gets retries configured on its BaseNode before the run: must not affect this hierarchy
	MidConnect       []MidConn  `json:"mid_connect,omitempty"`        // Connect calls made from inside a callback while the flow is running
	NilStore         bool       `json:"nil_store,omitempty"`          // the run is given a nil *SharedStore: prep and post receive exactly that
}

// MidConn is a Connect call made on flow node Flow from inside the Phase callback (prep | exec (first attempt) | post)
// of visit Visit of node Node: the connection exists from that moment on, for this and every later run.
type MidConn struct {
	Node  int    `json:"node"`
	Visit int    `json:"visit"`
	Phase string `json:"phase"`
	Flow  int    `json:"flow"`
	Conn  Conn   `json:"conn"`
}

// Rewire is a Connect call made on flow node Flow after run number AfterRun (0-based) has finished.
type Rewire struct {
	AfterRun int  `json:"after_run"`
	Flow     int  `json:"flow"`
	Conn     Conn `json:"conn"`
}

// Event is one user-callback invocation observed at the boundary.
type Event struct {
	Seq     int    `json:"seq"`
	Node    int    `json:"node"`
	Visit   int    `json:"visit"`
	Phase   string `json:"phase"` // prep | exec | fallback | post
	Attempt int    `json:"attempt,omitempty"`
	// argument checks made inside the callback against what the node itself produced
	StoreOK bool   `json:"store_ok"`          // prep/post: the store is the one passed to Run
	PrepOK  bool   `json:"prep_ok"`           // exec/fallback/post: received exactly the value prep returned in this visit
	ExecOK  bool   `json:"exec_ok,omitempty"` // post: received exactly the value the successful attempt / fallback produced
	ErrOK   bool   `json:"err_ok,omitempty"`  // fallback: received error matches the last attempt's error
	ErrOld  bool   `json:"err_old,omitempty"` // fallback: received error matches an earlier attempt's error
	CtxDone bool   `json:"ctx_done,omitempty"`
	Ret     string `json:"ret,omitempty"` // id of the error this callback returned ("" = it succeeded)
	Note    string `json:"note,omitempty"`
}

func (e Event) Key() string { return fmt.Sprintf("%d.%d.%s.%d", e.Node, e.Visit, e.Phase, e.Attempt) }

// Outcome of one run.
type Outcome struct {
	Action    string   `json:"action"`
	ErrNil    bool     `json:"err_nil"`
	ErrText   string   `json:"err_text,omitempty"`
	ErrID     string   `json:"err_id,omitempty"` // id of the scripted error the returned error matches ("" if none, "ctx" if it matches ctx.Err())
	Panic     string   `json:"panic,omitempty"`
	Events    []Event  `json:"events"`
	Store     []string `json:"store_log"` // contents of the store's visit log after the run
	CtxErr    string   `json:"ctx_err,omitempty"`
	Discard   bool     `json:"discard,omitempty"`
	Runaway   bool     `json:"runaway,omitempty"` // the run exceeded RunawayLimit callbacks and was cut off
	CancelSeq int      `json:"cancel_seq"`        // seq of the callback that cancelled (-1 none)
	ReturnedDuringCallback bool `json:"returned_during_callback,omitempty"` // Run returned while a user callback of this run was still executing
	err       error
	matcher   func(error) string
}

// ---------------------------------------------------------------------------

type payload struct {
	Node, Visit, Attempt int
	What                 string
}

// Exec is the runtime of one scenario (all runs).
type Exec struct {
	runIdx      int
	Sc          *Scenario
	mu          sync.Mutex
	events      []Event
	seq         int
	store       *flyt.SharedStore
	errs        map[string]error // scripted error id -> sentinel to match
	cores       []*core
	nodes       []flyt.Node
	cancel      func()
	cancelSeq   int
	ctx         context.Context
	zoo         []zoo.Named
	realTimeout bool
	tripped     atomic.Bool
	runaway     atomic.Bool
	sharedBase  map[int]*flyt.BaseNode
	seenCtx     []context.Context
	ctxFlagged  bool
	trailFlagged bool
	getterCalls atomic.Int64
	dwelling    atomic.Int32 // 1 while the cancel-dwell callback is still inside its dwell
	curKind     string       // injection kind in force in the current run
}

type core struct {
	x     *Exec
	id    int
	spec  *NodeSpec
	visit int // number of prep calls so far; current visit index = visit-1

	curPrep   any
	produced  any
	attempt   int
	attErrs   []error
	haveVisit bool
}

// fakeCtx is a context whose error turns to DeadlineExceeded when tripped. With tripAt > 0 it trips itself right
// AFTER its tripAt-th Err() call has returned nil: the cancellation arrives just after one of the library's own checks.
type fakeCtx struct {
	context.Context
	done    chan struct{}
	err     atomic.Value
	calls   atomic.Int64
	tripAt  int64
	onTrip  func()
	ownErr  bool
}

func newFakeCtx() *fakeCtx               { return &fakeCtx{Context: context.Background(), done: make(chan struct{})} }
func (c *fakeCtx) Done() <-chan struct{} { return c.done }
func (c *fakeCtx) Err() error {
	if e, ok := c.err.Load().(error); ok {
		return e
	}
	if c.tripAt > 0 && c.calls.Add(1) == c.tripAt {
		if c.onTrip != nil {
			c.onTrip()
		}
		c.trip()
	}
	return nil
}
func (c *fakeCtx) Deadline() (time.Time, bool) { return time.Time{}, false }
func (c *fakeCtx) trip() {
	var e error = context.DeadlineExceeded
	if c.ownErr {
		e = &ownCtxErr{"lease lost"} // a context implementation with an error value of its own
	}
	if c.err.CompareAndSwap(nil, e) {
		close(c.done)
	}
}

// ownCtxErr is what a hand-written context.Context may report from Err(): "the context's error" is whatever the
// context says it is.
type ownCtxErr struct{ why string }

func (e *ownCtxErr) Error() string { return "context ended: " + e.why }

func (x *Exec) record(e Event) int {
	x.mu.Lock()
	e.Seq = x.seq
	x.seq++
	x.events = append(x.events, e)
	x.mu.Unlock()
	return e.Seq
}

func (x *Exec) setRet(seq int, id string) {
	x.mu.Lock()
	if seq < len(x.events) {
		x.events[seq].Ret = id
	}
	x.mu.Unlock()
}

// enter is called at the entry of every user callback: it performs the injection.
// sawCtx remembers the contexts callbacks were given and reports one that has been cancelled although the run's
// own context is alive (resources a callback bound to its context would die with it).
func (x *Exec) sawCtx(ctx context.Context) string {
	if ctx == nil || x.ctx == nil || x.ctx.Err() != nil {
		return ""
	}
	for _, c := range x.seenCtx {
		if c.Err() != nil {
			return "a context handed to an earlier callback of this run has been cancelled although the run's context is alive"
		}
	}
	for _, c := range x.seenCtx {
		if c == ctx {
			return ""
		}
	}
	if len(x.seenCtx) < 64 {
		x.seenCtx = append(x.seenCtx, ctx)
	}
	return ""
}

func (x *Exec) enter() (ordinal int) {
	x.mu.Lock()
	ordinal = x.seq
	x.mu.Unlock()
	inj := x.Sc.Inject
	if inj.Alt != "" && x.curKind != "" {
		inj.Kind = x.curKind
	}
	if inj.Kind == "real-timeout" && ordinal < inj.At && x.ctx.Err() != nil {
		x.tripped.Store(true) // expired before the chosen position: case will be discarded
	}
	if inj.OneRun && inj.Run != x.runIdx {
		return
	}
	if (inj.Kind == "cancel" || inj.Kind == "deadline" || inj.Kind == "cancel-cause" || inj.Kind == "cancel-far" || inj.Kind == "own-error") && inj.At == ordinal && x.cancel != nil {
		x.cancel()
		x.cancelSeq = ordinal
	}
	if inj.Kind == "cancel-dwell" && inj.At == ordinal && x.cancel != nil {
		// the cancellation arrives while this callback is busy and stays busy for a while (it does not watch the context)
		x.cancel()
		x.cancelSeq = ordinal
		x.dwelling.Store(1)
		time.Sleep(120 * time.Millisecond)
		x.dwelling.Store(0)
	}
	if inj.Kind == "real-timeout" && inj.At == ordinal {
		// wait for the real deadline to pass inside this callback
		<-x.ctx.Done()
		x.cancelSeq = ordinal
	}
	return
}

// TrailKey is a second key the post callbacks keep identical to "log" (an underscore-prefixed, "private looking"
// name): nobody but the callbacks writes the store, so a post that finds the two different has seen the library
// change the contents of the store between two callbacks.
const TrailKey = "_trail"

func (x *Exec) checkTrail(node int, shared *flyt.SharedStore, log []string) {
	tv, _ := shared.Get(TrailKey)
	t, _ := tv.([]string)
	if !slices.Equal(t, log) && !x.trailFlagged {
		x.trailFlagged = true
		x.record(Event{Node: node, Phase: "anomaly", Note: fmt.Sprintf("store: key %q holds %v, the callbacks left %v there (only callbacks write this store): the contents changed between two callbacks", TrailKey, t, log)})
	}
}

// midConnect performs the Connect calls scheduled for this callback.
func (x *Exec) midConnect(node, visit int, phase string) {
	for _, mc := range x.Sc.MidConnect {
		if mc.Node != node || mc.Visit != visit || mc.Phase != phase {
			continue
		}
		if f, ok := x.nodes[mc.Flow].(*flyt.Flow); ok {
			var to flyt.Node
			if mc.Conn.To >= 0 {
				to = x.build(mc.Conn.To)
			}
			f.Connect(x.build(mc.Conn.From), flyt.Action(mc.Conn.Action), to)
		}
	}
}

func (x *Exec) mkErr(kind int, id string) error {
	var sentinel, ret error
	switch kind {
	case ECustom:
		sentinel = &CustomErr{ID: id}
		ret = sentinel
	case EWrapped:
		sentinel = errors.New("sentinel " + id)
		ret = fmt.Errorf("callback context for %s: %w", id, sentinel)
	case ETemporary:
		sentinel = &TempErr{ID: id}
		ret = sentinel
	case EUncomparable:
		sentinel = UncompErr{ID: id, Tags: []string{"a"}}
		ret = sentinel
	case EIOEOF:
		sentinel = io.EOF
		ret = io.EOF
		if len(id)%2 == 0 {
			ret = fmt.Errorf("reading %s: %w", id, io.EOF)
		}
	case EWrapping:
		sentinel = &WrapErr{ID: id, Cause: fmt.Errorf("backend said no (%w)", io.ErrUnexpectedEOF)}
		ret = sentinel
		if len(id)%2 == 0 {
			ret = fmt.Errorf("while handling %s: %w", id, sentinel)
		}
	case EEmptyBatchErr:
		sentinel = &flyt.BatchError{}
		ret = sentinel
		if len(id)%2 == 1 {
			ret = fmt.Errorf("aggregate of %s: %w", id, sentinel)
		}
	case ENotTemporary:
		sentinel = &PermErr{ID: id}
		ret = fmt.Errorf("lookup failed: %w", sentinel)
	case ETypedNil:
		sentinel = (*NilableErr)(nil)
		ret = sentinel
	case ENilSliceErr:
		sentinel = MultiErr(nil)
		ret = sentinel
	case EJoined:
		sentinel = errors.New("sentinel " + id)
		ret = errors.Join(errors.New("unrelated failure"), sentinel)
	case ENestedRun:
		sentinel = &CustomErr{ID: id}
		_, inner := flyt.Run(context.Background(), flyt.NewNode().WithExecFuncAny(func(context.Context, any) (any, error) {
			return nil, errors.New("inner sub-run failure")
		}), flyt.NewSharedStore())
		ret = fmt.Errorf("step failed: %w (sub-run: %w)", sentinel, inner)
	case ECtxAware:
		sentinel = errors.New("sentinel " + id)
		ret = sentinel
		if x.ctx != nil && x.ctx.Err() != nil {
			ret = fmt.Errorf("aborted (%w): %w", x.ctx.Err(), sentinel)
		}
	case ECtxLike:
		sentinel = errors.New("sentinel " + id)
		if len(id)%2 == 0 {
			ret = fmt.Errorf("attempt timed out (%w): %w", context.DeadlineExceeded, sentinel)
		} else {
			ret = fmt.Errorf("sub-operation cancelled (%w): %w", context.Canceled, sentinel)
		}
	default:
		sentinel = errors.New("sentinel " + id)
		ret = sentinel
	}
	x.mu.Lock()
	x.errs[id] = sentinel
	x.mu.Unlock()
	return ret
}

// aliasErr registers id as another name of the sentinel registered under of.
func (x *Exec) aliasErr(id, of string) {
	x.mu.Lock()
	if s, ok := x.errs[of]; ok {
		x.errs[id] = s
	}
	x.mu.Unlock()
}

// MatchErr returns the id of the scripted error that err matches ("" if none).
func (x *Exec) MatchErr(err error) string {
	if err == nil {
		return ""
	}
	x.mu.Lock()
	defer x.mu.Unlock()
	var all []string
	for id, s := range x.errs {
		ok := false
		if ce, isC := s.(*CustomErr); isC {
			var got *CustomErr
			ok = errors.As(err, &got) && got == ce && errors.Is(err, s)
		} else if we, isW := s.(*WrapErr); isW {
			var got *WrapErr
			ok = errors.As(err, &got) && got == we && errors.Is(err, s)
		} else if _, isN := s.(*NilableErr); isN {
			var got *NilableErr
			ok = errors.As(err, &got) && got == nil
		} else if _, isM := s.(MultiErr); isM {
			var got MultiErr
			ok = errors.As(err, &got) && got == nil
		} else if ue, isU := s.(UncompErr); isU {
			var got UncompErr
			ok = errors.As(err, &got) && got.ID == ue.ID
		} else {
			ok = errors.Is(err, s)
		}
		if ok {
			all = append(all, id)
		}
	}
	sort.Strings(all)
	return strings.Join(all, "+")
}

func errID(node, visit int, phase string, attempt int) string {
	if phase == "exec" {
		return fmt.Sprintf("n%d.v%d.exec%d", node, visit, attempt)
	}
	return fmt.Sprintf("n%d.v%d.%s", node, visit, phase)
}

func (c *core) script() Visit {
	v := c.visit - 1
	if c.spec.LoopN > 0 {
		if v < c.spec.LoopN {
			return Visit{FirstOK: 1, Post: "loop"}
		}
		return Visit{FirstOK: 1, Post: "exit"}
	}
	if v >= 0 && v < len(c.spec.Visits) {
		return c.spec.Visits[v]
	}
	return Visit{FirstOK: 1, Post: EndAction}
}

func (c *core) mkPayload(what string, attempt int) any {
	s := c.script()
	if s.Payload > 0 {
		z := c.x.zoo[(s.Payload+attempt)%len(c.x.zoo)]
		return z.V
	}
	return &payload{Node: c.id, Visit: c.visit - 1, Attempt: attempt, What: what}
}

// RunawayLimit bounds the callbacks of one run: generated scenarios end after a few dozen; a run that is still
// going after this many has left the path its table determines (e.g. an endless cycle) and is cut off by
// failing the next prep.
const RunawayLimit = 5000

var errRunaway = errors.New("harness: runaway run cut off")

func (x *Exec) runawayLimit() int {
	if x.Sc.MaxCallbacks > 0 {
		return x.Sc.MaxCallbacks
	}
	return RunawayLimit
}

func (c *core) prep(ctx context.Context, shared *flyt.SharedStore) (any, error) {
	if lim := c.x.runawayLimit(); c.x.enter() > lim {
		c.x.runaway.Store(true)
		return nil, errRunaway
	}
	c.visit++
	c.haveVisit = true
	c.attempt = 0
	c.attErrs = nil
	c.produced = nil
	v := c.visit - 1
	e := Event{Node: c.id, Visit: v, Phase: "prep", StoreOK: shared == c.x.store, PrepOK: true, CtxDone: ctx.Err() != nil}
	if msg := c.x.sawCtx(ctx); msg != "" && !c.x.ctxFlagged {
		c.x.ctxFlagged = true
		c.x.record(Event{Node: c.id, Visit: v, Phase: "anomaly", Note: "ctx: " + msg})
	}
	seq := c.x.record(e)
	if len(c.x.Sc.MidConnect) > 0 {
		c.x.midConnect(c.id, v, "prep")
	}
	s := c.script()
	if s.PanicIn == "prep" {
		panic("scripted panic in prep")
	}
	if s.PrepErr {
		c.curPrep = nil
		c.x.setRet(seq, errID(c.id, v, "prep", 0))
		return nil, c.x.mkErr(c.spec.ErrKind, errID(c.id, v, "prep", 0))
	}
	if c.spec.PrepSetsN {
		c.x.setBudget(c.id, c.spec.N)
	}
	c.curPrep = c.mkPayload("prep", 0)
	return c.curPrep, nil
}

// setBudget re-configures the retry budget of a node from inside its own prep (the last setting before the attempts).
func (x *Exec) setBudget(id, n int) {
	switch nd := x.nodes[id].(type) {
	case *baseNode:
		flyt.WithMaxRetries(n)(nd.BaseNode)
	case *baseFBNode:
		flyt.WithMaxRetries(n)(nd.BaseNode)
	case *plainRetryNode:
		nd.n = n
	case *plainRetryFBNode:
		nd.n = n
	case *flyt.NodeBuilder:
		nd.WithMaxRetries(n)
	case *embedBldNode:
		nd.NodeBuilder.WithMaxRetries(n)
	case *embedBldFBNode:
		nd.NodeBuilder.WithMaxRetries(n)
	case *embedCustomFBNode:
		flyt.WithMaxRetries(n)(nd.CustomNode.BaseNode)
	case *embedFlowNode:
		flyt.WithMaxRetries(n)(nd.Flow.BaseNode)
	}
}

func (c *core) exec(ctx context.Context, prepRes any) (any, error) {
	c.x.enter()
	c.attempt++
	v := c.visit - 1
	e := Event{Node: c.id, Visit: v, Phase: "exec", Attempt: c.attempt, StoreOK: true, PrepOK: zoo.Same(prepRes, c.curPrep), CtxDone: ctx.Err() != nil}
	if !e.PrepOK {
		e.Note = "exec got " + zoo.Describe(prepRes) + " want " + zoo.Describe(c.curPrep)
	}
	seq := c.x.record(e)
	if len(c.x.Sc.MidConnect) > 0 && c.attempt == 1 {
		c.x.midConnect(c.id, v, "exec")
	}
	s := c.script()
	if s.PanicIn == "exec" {
		panic("scripted panic in exec")
	}
	if c.attempt >= s.FirstOK {
		c.produced = c.mkPayload("exec", c.attempt)
		return c.produced, nil
	}
	c.x.setRet(seq, errID(c.id, v, "exec", c.attempt))
	var err error
	switch {
	case c.spec.ErrKind == ESameValue && len(c.attErrs) > 0:
		err = c.attErrs[0] // the very same value again
		c.x.aliasErr(errID(c.id, v, "exec", c.attempt), errID(c.id, v, "exec", 1))
	case c.spec.ErrKind == EChained && len(c.attErrs) > 0:
		err = fmt.Errorf("retry %d: %w; previous attempt: %w", c.attempt, c.x.mkErr(ESentinel, errID(c.id, v, "exec", c.attempt)), c.attErrs[len(c.attErrs)-1])
	default:
		err = c.x.mkErr(c.spec.ErrKind, errID(c.id, v, "exec", c.attempt))
	}
	c.attErrs = append(c.attErrs, err)
	// a failing attempt may well return a (meaningless) value next to its error: it must never reach post
	return &payload{Node: c.id, Visit: v, Attempt: c.attempt, What: "garbage-of-failed-attempt"}, err
}

func (c *core) fallback(prepRes any, err error) (any, error) {
	c.x.enter()
	v := c.visit - 1
	e := Event{Node: c.id, Visit: v, Phase: "fallback", StoreOK: true, PrepOK: zoo.Same(prepRes, c.curPrep)}
	if n := len(c.attErrs); n > 0 && err != nil {
		e.ErrOK = idHas(c.x.MatchErr(err), errID(c.id, v, "exec", n)) // (error kinds without identity, e.g. typed nils, match every attempt)
		if !e.ErrOK {
			e.ErrOld = c.x.MatchErr(err) != ""
			e.Note = "fallback got error matching " + c.x.MatchErr(err)
		}
	}
	seq := c.x.record(e)
	s := c.script()
	if s.FBErr {
		c.x.setRet(seq, errID(c.id, v, "fallback", 0))
		fe := c.x.mkErr(c.spec.ErrKind, errID(c.id, v, "fallback", 0))
		if (v+c.id+len(c.attErrs))%2 == 1 && err != nil {
			// a fallback that gives up usually reports what it was given as the cause: the returned value is still its own
			fe = fmt.Errorf("%w (fallback gave up; cause: %w)", fe, err)
		}
		return &payload{Node: c.id, Visit: v, What: "garbage-of-failed-fallback"}, fe
	}
	if s.FBNil {
		c.produced = nil
		return nil, nil
	}
	c.produced = c.mkPayload("fallback", 0)
	return c.produced, nil
}

func (c *core) post(ctx context.Context, shared *flyt.SharedStore, prepRes, execRes any) (flyt.Action, error) {
	c.x.enter()
	v := c.visit - 1
	e := Event{Node: c.id, Visit: v, Phase: "post", StoreOK: shared == c.x.store, PrepOK: zoo.Same(prepRes, c.curPrep), ExecOK: zoo.Same(execRes, c.produced), CtxDone: ctx.Err() != nil}
	if !e.PrepOK {
		e.Note = "post got prep " + zoo.Describe(prepRes) + " want " + zoo.Describe(c.curPrep)
	} else if !e.ExecOK {
		e.Note = "post got exec " + zoo.Describe(execRes) + " want " + zoo.Describe(c.produced)
	}
	seq := c.x.record(e)
	if shared != nil {
		lg, _ := shared.Get("log")
		l, _ := lg.([]string)
		c.x.checkTrail(c.id, shared, l)
		l = append(append([]string(nil), l...), fmt.Sprint(c.id))
		shared.Set("log", l)
		shared.Set(TrailKey, l)
	}
	if len(c.x.Sc.MidConnect) > 0 {
		c.x.midConnect(c.id, v, "post")
	}
	s := c.script()
	if s.PanicIn == "post" {
		panic("scripted panic in post")
	}
	if s.PostErr {
		c.x.setRet(seq, errID(c.id, v, "post", 0))
		if v%2 == 0 {
			// the action a failing post returns next to its error is meaningless — also when it names a connected pair
			return flyt.Action(s.Post), c.x.mkErr(c.spec.ErrKind, errID(c.id, v, "post", 0))
		}
		return flyt.Action("ignored-action"), c.x.mkErr(c.spec.ErrKind, errID(c.id, v, "post", 0))
	}
	return flyt.Action(s.Post), nil
}

// item is the per-item exec of a KBatch node: the first item fails when the script says FirstOK > 1
// (an item failure must not end the run).
func (c *core) item(ctx context.Context, v any) (any, error) {
	c.x.enter()
	c.attempt++
	vis := c.visit - 1
	e := Event{Node: c.id, Visit: vis, Phase: "item", Attempt: c.attempt, StoreOK: true, PrepOK: zoo.Same(v, c.curPrep), CtxDone: ctx.Err() != nil}
	c.x.record(e)
	if c.attempt == 1 && c.script().FirstOK > 1 {
		return nil, errors.New("item failure (must not end the run)")
	}
	return c.attempt, nil
}

func (c *core) batchPost(ctx context.Context, shared *flyt.SharedStore, items, results []flyt.Result) (flyt.Action, error) {
	c.x.enter()
	vis := c.visit - 1
	wantItems := 2
	if c.script().FirstOK == 0 {
		wantItems = 0
	}
	e := Event{Node: c.id, Visit: vis, Phase: "post", StoreOK: shared == c.x.store, PrepOK: len(items) == wantItems, ExecOK: len(results) == wantItems, CtxDone: ctx.Err() != nil}
	seq := c.x.record(e)
	if shared != nil {
		lg, _ := shared.Get("log")
		l, _ := lg.([]string)
		c.x.checkTrail(c.id, shared, l)
		l = append(append([]string(nil), l...), fmt.Sprint(c.id))
		shared.Set("log", l)
		shared.Set(TrailKey, l)
	}
	if len(c.x.Sc.MidConnect) > 0 {
		c.x.midConnect(c.id, vis, "post")
	}
	s := c.script()
	if s.PostErr {
		c.x.setRet(seq, errID(c.id, vis, "post", 0))
		if vis%2 == 0 {
			return flyt.Action(s.Post), c.x.mkErr(c.spec.ErrKind, errID(c.id, vis, "post", 0))
		}
		return flyt.Action("ignored-action"), c.x.mkErr(c.spec.ErrKind, errID(c.id, vis, "post", 0))
	}
	return flyt.Action(s.Post), nil
}

// --- node kinds -------------------------------------------------------------

type baseNode struct {
	*flyt.BaseNode
	c *core
}

func (n *baseNode) Prep(ctx context.Context, s *flyt.SharedStore) (any, error) {
	return n.c.prep(ctx, s)
}
func (n *baseNode) Exec(ctx context.Context, p any) (any, error) { return n.c.exec(ctx, p) }
func (n *baseNode) Post(ctx context.Context, s *flyt.SharedStore, p, e any) (flyt.Action, error) {
	return n.c.post(ctx, s, p, e)
}

type baseFBNode struct{ baseNode }

func (n *baseFBNode) ExecFallback(p any, err error) (any, error) { return n.c.fallback(p, err) }

type plainNode struct{ c *core }

func (n *plainNode) Prep(ctx context.Context, s *flyt.SharedStore) (any, error) {
	return n.c.prep(ctx, s)
}
func (n *plainNode) Exec(ctx context.Context, p any) (any, error) { return n.c.exec(ctx, p) }
func (n *plainNode) Post(ctx context.Context, s *flyt.SharedStore, p, e any) (flyt.Action, error) {
	return n.c.post(ctx, s, p, e)
}

type plainFBNode struct{ plainNode }

func (n *plainFBNode) ExecFallback(p any, err error) (any, error) { return n.c.fallback(p, err) }

type plainRetryNode struct {
	plainNode
	n int
}

func (n *plainRetryNode) GetMaxRetries() int { n.c.x.enterGetter(); return n.n }
func (n *plainRetryNode) GetWait() time.Duration {
	n.c.x.enterGetter()
	return n.c.spec.Wait()
}

type plainRetryFBNode struct{ plainRetryNode }

func (n *plainRetryFBNode) ExecFallback(p any, err error) (any, error) { return n.c.fallback(p, err) }

// embedBldNode decorates a builder-made node: its own Prep / Exec / Post are the node's phases.
type embedBldNode struct {
	*flyt.NodeBuilder
	c *core
}

func (n *embedBldNode) Prep(ctx context.Context, s *flyt.SharedStore) (any, error) {
	return n.c.prep(ctx, s)
}
func (n *embedBldNode) Exec(ctx context.Context, p any) (any, error) { return n.c.exec(ctx, p) }
func (n *embedBldNode) Post(ctx context.Context, s *flyt.SharedStore, p, e any) (flyt.Action, error) {
	return n.c.post(ctx, s, p, e)
}

// embedBldFBNode additionally brings its own ExecFallback method.
type embedBldFBNode struct{ embedBldNode }

func (n *embedBldFBNode) ExecFallback(p any, err error) (any, error) { return n.c.fallback(p, err) }

// embedCustomFBNode embeds the *CustomNode itself and overrides all four phases.
type embedCustomFBNode struct {
	*flyt.CustomNode
	c *core
}

func (n *embedCustomFBNode) Prep(ctx context.Context, s *flyt.SharedStore) (any, error) {
	return n.c.prep(ctx, s)
}
func (n *embedCustomFBNode) Exec(ctx context.Context, p any) (any, error) { return n.c.exec(ctx, p) }
func (n *embedCustomFBNode) Post(ctx context.Context, s *flyt.SharedStore, p, e any) (flyt.Action, error) {
	return n.c.post(ctx, s, p, e)
}
func (n *embedCustomFBNode) ExecFallback(p any, err error) (any, error) { return n.c.fallback(p, err) }

// embedFlowNode is a node type built around an embedded *flyt.Flow (a gate / adapter around a sub-flow) that brings
// its own three phases: the embedded flow is not run unless the node's Exec decides to.
type embedFlowNode struct {
	*flyt.Flow
	c *core
}

func (n *embedFlowNode) Prep(ctx context.Context, s *flyt.SharedStore) (any, error) {
	return n.c.prep(ctx, s)
}
func (n *embedFlowNode) Exec(ctx context.Context, p any) (any, error) { return n.c.exec(ctx, p) }
func (n *embedFlowNode) Post(ctx context.Context, s *flyt.SharedStore, p, e any) (flyt.Action, error) {
	return n.c.post(ctx, s, p, e)
}

// baseOverrideNode embeds a BaseNode carrying other settings and overrides the getters: the getters are the node's settings.
type baseOverrideNode struct {
	baseNode
}

func (n *baseOverrideNode) GetMaxRetries() int {
	n.c.x.enterGetter()
	return n.c.spec.N
}
func (n *baseOverrideNode) GetWait() time.Duration {
	n.c.x.enterGetter()
	return n.c.spec.Wait()
}

// enterGetter is called inside user-supplied settings getters (they are user callbacks too): the injection kind
// "cancel-in-getter" cancels the context inside the At-th such call (1-based).
func (x *Exec) enterGetter() {
	if x.Sc.Inject.Kind != "cancel-in-getter" {
		return
	}
	if int(x.getterCalls.Add(1)) == x.Sc.Inject.At && x.cancel != nil && (!x.Sc.Inject.OneRun || x.runIdx == x.Sc.Inject.Run) {
		x.cancel()
		x.mu.Lock()
		x.cancelSeq = x.seq - 1 // every callback recorded from now on comes after the cancellation
		x.mu.Unlock()
	}
}

func (x *Exec) build(id int) flyt.Node {
	if x.nodes[id] != nil {
		return x.nodes[id]
	}
	spec := &x.Sc.Nodes[id]
	c := &core{x: x, id: id, spec: spec}
	x.cores[id] = c
	if spec.PrepSetsN {
		// built with ANOTHER budget; the node's own prep sets the budget of the script (see setBudget)
		cp := *spec
		cp.N = spec.N + 2
		if spec.N > 2 {
			cp.N = 1
		}
		spec = &cp
	}
	var baseOpts []flyt.NodeOption
	if spec.N != 1 || id%2 == 0 {
		baseOpts = append(baseOpts, flyt.WithMaxRetries(spec.N))
	}
	if spec.Wait() > 0 {
		baseOpts = append(baseOpts, flyt.WithWait(spec.Wait()))
	}
	if spec.Conc > 0 && spec.Kind != KBatch {
		baseOpts = append(baseOpts, flyt.WithBatchConcurrency(spec.Conc), flyt.WithBatchErrorHandling(spec.Conc%2 == 0))
	}
	prepR := func(ctx context.Context, s *flyt.SharedStore) (flyt.Result, error) {
		v, err := c.prep(ctx, s)
		if err != nil {
			return flyt.Result{}, err
		}
		if c.script().PrepErrRes {
			// prep succeeds (nil error) and hands back an error RESULT: the phase has not failed; what such a Result
			// carries as its value is nil
			c.curPrep = nil
			return flyt.NewErrorResult(errors.New("soft problem noted by prep")), nil
		}
		return flyt.NewResult(v), nil
	}
	execR := func(ctx context.Context, p flyt.Result) (flyt.Result, error) {
		if p.IsError() {
			c.x.record(Event{Node: id, Visit: c.visit - 1, Phase: "anomaly", Note: "exec func received an error Result"})
		}
		v, err := c.exec(ctx, p.Value())
		if err != nil {
			if c.attempt%2 == 1 {
				return flyt.NewErrorResult(err), err // an error Result AND the error: the error counts
			}
			return flyt.Result{}, err
		}
		return flyt.NewResult(v), nil
	}
	postR := func(ctx context.Context, s *flyt.SharedStore, p, e flyt.Result) (flyt.Action, error) {
		if p.IsError() || e.IsError() {
			c.x.record(Event{Node: id, Visit: c.visit - 1, Phase: "anomaly", Note: "post func received an error Result"})
		}
		return c.post(ctx, s, p.Value(), e.Value())
	}
	var n flyt.Node
	mkBase := func() *flyt.BaseNode {
		if !x.Sc.ShareBase || spec.Wait() > 0 || spec.Conc > 0 {
			return flyt.NewBaseNode(baseOpts...)
		}
		if x.sharedBase == nil {
			x.sharedBase = map[int]*flyt.BaseNode{}
		}
		if x.sharedBase[spec.N] == nil {
			x.sharedBase[spec.N] = flyt.NewBaseNode(flyt.WithMaxRetries(spec.N))
		}
		return x.sharedBase[spec.N]
	}
	switch spec.Kind {
	case KBase:
		n = &baseNode{BaseNode: mkBase(), c: c}
	case KBaseFB:
		n = &baseFBNode{baseNode{BaseNode: mkBase(), c: c}}
	case KPlain:
		n = &plainNode{c: c}
	case KPlainFB:
		n = &plainFBNode{plainNode{c: c}}
	case KPlainRetry:
		n = &plainRetryNode{plainNode{c: c}, spec.N}
	case KPlainRetryFB:
		n = &plainRetryFBNode{plainRetryNode{plainNode{c: c}, spec.N}}
	case KFnOptRes:
		opts := []any{flyt.WithPrepFunc(prepR), flyt.WithExecFunc(execR), flyt.WithPostFunc(postR)}
		for _, o := range baseOpts {
			opts = append(opts, o)
		}
		if spec.HasFB {
			opts = append(opts, flyt.WithExecFallbackFunc(c.fallback))
		}
		n = flyt.NewNode(opts...)
	case KFnOptAny:
		opts := []any{flyt.WithPostFuncAny(c.post), flyt.WithExecFuncAny(c.exec), flyt.WithPrepFuncAny(c.prep)}
		for _, o := range baseOpts {
			opts = append(opts, o)
		}
		if spec.HasFB {
			opts = append(opts, flyt.WithExecFallbackFunc(c.fallback))
		}
		n = flyt.NewNode(opts...)
	case KFnBldRes:
		b := flyt.NewNode().WithPrepFunc(prepR).WithExecFunc(execR).WithPostFunc(postR).WithMaxRetries(spec.N).WithWait(spec.Wait())
		if spec.HasFB {
			b = b.WithExecFallbackFunc(c.fallback)
		}
		if spec.Conc > 0 {
			b = b.WithBatchConcurrency(spec.Conc).WithBatchErrorHandling(spec.Conc%2 == 0)
		}
		n = b
	case KFnBldAny:
		b := flyt.NewNode().WithMaxRetries(spec.N).WithWait(spec.Wait()).WithPrepFuncAny(c.prep).WithExecFuncAny(c.exec).WithPostFuncAny(c.post)
		if spec.HasFB {
			b = b.WithExecFallbackFunc(c.fallback)
		}
		if spec.Conc > 0 {
			b = b.WithBatchErrorHandling(spec.Conc%2 == 0).WithBatchConcurrency(spec.Conc)
		}
		n = b
	case KFnMixed:
		opts := []any{flyt.WithPrepFuncAny(c.prep), flyt.WithMaxRetries(spec.N), flyt.WithWait(spec.Wait())}
		if spec.HasFB {
			opts = append(opts, flyt.WithExecFallbackFunc(c.fallback))
		}
		n = flyt.NewNode(opts...).WithExecFunc(execR).WithPostFuncAny(c.post)
	case KEmbedBld:
		stray := func(what string) {
			c.x.record(Event{Node: id, Visit: c.visit - 1, Phase: "anomaly", Note: "the embedded builder's own " + what + " function ran although the node overrides that phase"})
		}
		b := flyt.NewNode().WithMaxRetries(spec.N).WithWait(spec.Wait()).
			WithPrepFuncAny(func(ctx context.Context, s *flyt.SharedStore) (any, error) { stray("prep"); return "inner-prep", nil }).
			WithExecFuncAny(func(ctx context.Context, p any) (any, error) { stray("exec"); return "inner-exec", nil }).
			WithPostFuncAny(func(ctx context.Context, s *flyt.SharedStore, p, e any) (flyt.Action, error) {
				stray("post")
				return "inner-post-action", nil
			})
		switch {
		case spec.HasFB && (id+spec.N)%3 == 1: // the fallback is a method of the embedding type (the builder has none configured)
			n = &embedBldFBNode{embedBldNode{NodeBuilder: b, c: c}}
		case spec.HasFB && (id+spec.N)%3 == 2: // the same around the builder's *CustomNode
			n = &embedCustomFBNode{CustomNode: b.CustomNode, c: c}
		case spec.HasFB:
			b = b.WithExecFallbackFunc(c.fallback)
			n = &embedBldNode{NodeBuilder: b, c: c}
		default:
			n = &embedBldNode{NodeBuilder: b, c: c}
		}
	case KEmbedFlow:
		strayNode := flyt.NewNode().WithExecFuncAny(func(ctx context.Context, p any) (any, error) {
			c.x.record(Event{Node: id, Visit: c.visit - 1, Phase: "anomaly", Note: "the embedded flow's own node ran although the embedding node overrides Exec and never starts it"})
			return nil, nil
		})
		inner := flyt.NewFlow(strayNode)
		flyt.WithMaxRetries(spec.N)(inner.BaseNode)
		if spec.Wait() > 0 {
			flyt.WithWait(spec.Wait())(inner.BaseNode)
		}
		n = &embedFlowNode{Flow: inner, c: c}
	case KBaseOverride:
		// the embedded BaseNode carries settings that must NOT be used
		other := flyt.NewBaseNode(flyt.WithMaxRetries(spec.N+2), flyt.WithWait(0))
		if spec.N > 2 {
			other = flyt.NewBaseNode(flyt.WithMaxRetries(1))
		}
		n = &baseOverrideNode{baseNode{BaseNode: other, c: c}}
	case KBatch:
		bn := flyt.NewBatchNode().
			WithPrepFunc(func(ctx context.Context, s *flyt.SharedStore) ([]flyt.Result, error) {
				v, err := c.prep(ctx, s)
				if err != nil {
					return nil, err
				}
				if c.script().FirstOK == 0 { // a batch without items
					if id%2 == 0 {
						return nil, nil
					}
					return []flyt.Result{}, nil
				}
				return []flyt.Result{flyt.NewResult(v), flyt.NewResult(v)}, nil
			}).
			WithExecFuncAny(func(ctx context.Context, v any) (any, error) { return c.item(ctx, v) }).
			WithPostFunc(func(ctx context.Context, s *flyt.SharedStore, items, results []flyt.Result) (flyt.Action, error) {
				return c.batchPost(ctx, s, items, results)
			})
		if id%4 == 0 {
			bn = bn.WithBatchErrorHandling(true)
		}
		if id%4 == 2 {
			bn = bn.WithBatchErrorHandling(false) // stop on error: the failing first item then is the only one executed
		}
		if id%3 == 1 {
			// the same node through the generic constructor options (plain prep signature) instead of the builder methods
			bn = flyt.NewBatchNode(
				flyt.WithPrepFuncAny(func(ctx context.Context, s *flyt.SharedStore) (any, error) {
					v, err := c.prep(ctx, s)
					if err != nil {
						return nil, err
					}
					if c.script().FirstOK == 0 {
						return []any{}, nil
					}
					return []any{v, v}, nil
				}),
				flyt.WithExecFuncAny(func(ctx context.Context, v any) (any, error) { return c.item(ctx, v) }),
			).WithPostFunc(func(ctx context.Context, s *flyt.SharedStore, items, results []flyt.Result) (flyt.Action, error) {
				return c.batchPost(ctx, s, items, results)
			})
		}
		n = bn
	case KFlow:
		// placeholder first (cycles through nested flows are not generated)
		fs := spec.Flow
		var f *flyt.Flow
		if fs.Start < 0 {
			f = flyt.NewFlow(nil) // a flow that has no start node (yet): an error if it is ever entered, nothing before
		} else {
			f = flyt.NewFlow(x.build(fs.Start))
		}
		if fs.Retries > 1 {
			flyt.WithMaxRetries(fs.Retries)(f.BaseNode)
		}
		x.nodes[id] = f
		for _, cn := range fs.Conns {
			var to flyt.Node
			if cn.To >= 0 {
				to = x.build(cn.To)
			}
			f.Connect(x.build(cn.From), flyt.Action(cn.Action), to)
		}
		return f
	default:
		panic("unknown kind")
	}
	x.nodes[id] = n
	return n
}

var sharedZoo = zoo.Fixed()

// NewExec builds the node objects of a scenario.
func NewExec(sc *Scenario) *Exec {
	x := &Exec{Sc: sc, errs: map[string]error{}, cores: make([]*core, len(sc.Nodes)), nodes: make([]flyt.Node, len(sc.Nodes)), cancelSeq: -1}
	x.zoo = sharedZoo
	x.build(sc.Root)
	if sc.StrayFlowRetries > 0 {
		stray := flyt.NewFlow(flyt.NewNode())
		flyt.WithMaxRetries(sc.StrayFlowRetries)(stray.BaseNode)
	}
	return x
}

// RunOnce performs one run of the root (events of this run only).
func (x *Exec) RunOnce() (out Outcome) {
	defer func() {
		// Connect calls scheduled after this run
		for _, rw := range x.Sc.Rewire {
			if rw.AfterRun == x.runIdx {
				if f, ok := x.nodes[rw.Flow].(*flyt.Flow); ok {
					var to flyt.Node
					if rw.Conn.To >= 0 {
						to = x.build(rw.Conn.To)
					}
					f.Connect(x.build(rw.Conn.From), flyt.Action(rw.Conn.Action), to)
				}
			}
		}
		x.runIdx++
	}()
	if x.store == nil || x.Sc.FreshStore {
		x.store = flyt.NewSharedStore()
	}
	if x.Sc.NilStore {
		x.store = nil
	}
	x.mu.Lock()
	x.events = nil
	x.seq = 0
	x.mu.Unlock()
	x.seenCtx, x.ctxFlagged, x.trailFlagged = nil, false, false
	x.cancelSeq = -1
	var ctx context.Context = context.Background()
	var stop func() = func() {}
	injKind := x.Sc.Inject.Kind
	if x.Sc.Inject.Alt != "" && x.runIdx%2 == 1 {
		injKind = x.Sc.Inject.Alt
	}
	if x.Sc.Inject.OneRun && x.Sc.Inject.Run != x.runIdx {
		injKind = "(none in this run)"
	}
	x.curKind = injKind
	x.getterCalls.Store(0)
	switch injKind {
	case "cancel", "pre-cancel", "cancel-in-getter", "cancel-dwell":
		c, cf := context.WithCancel(context.Background())
		ctx, x.cancel, stop = c, cf, cf
		if x.Sc.Inject.Kind == "pre-cancel" {
			cf()
		}
	case "trip-at-check": // the context is cancelled right after the library's At-th Err() check (counted from 1)
		f := newFakeCtx()
		f.tripAt = int64(x.Sc.Inject.At)
		f.onTrip = func() {
			x.mu.Lock()
			x.cancelSeq = x.seq // ordinal of the next callback, if any
			x.mu.Unlock()
		}
		ctx = f
	case "deadline-in-wait": // a real deadline At milliseconds away that expires while the node sits in its (much longer) retry wait
		c, cf := context.WithTimeout(context.Background(), time.Duration(x.Sc.Inject.At)*time.Millisecond)
		ctx, stop = c, cf
	case "far-deadline": // a real deadline At milliseconds away that is NOT supposed to be reached; the run is discarded if it was
		c, cf := context.WithTimeout(context.Background(), time.Duration(x.Sc.Inject.At)*time.Millisecond)
		ctx, stop = c, cf
	case "cancel-far", "pre-cancel-far": // an explicitly cancelled context that ALSO carries a deadline two hours away
		parent, pcf := context.WithTimeout(context.Background(), 2*time.Hour)
		c, cf := context.WithCancel(parent)
		if x.Sc.Inject.At%2 == 1 { // the other way round: the deadline context itself is cancelled early
			c, cf = parent, pcf
		}
		ctx, x.cancel, stop = c, cf, func() { cf(); pcf() }
		if x.Sc.Inject.Kind == "pre-cancel-far" {
			cf()
		}
	case "cancel-cause":
		c, cf := context.WithCancelCause(context.Background())
		ctx, x.cancel = c, func() { cf(errors.New("custom cancellation cause")) }
		stop = x.cancel
	case "own-error", "pre-own-error": // a hand-written context whose Err() is an error value of its own
		f := newFakeCtx()
		f.ownErr = true
		ctx, x.cancel = f, f.trip
		if x.Sc.Inject.Kind == "pre-own-error" {
			f.trip()
		}
	case "deadline", "pre-deadline":
		f := newFakeCtx()
		ctx, x.cancel = f, f.trip
		if x.Sc.Inject.Kind == "pre-deadline" {
			f.trip()
		}
	case "pre-expired":
		c, cf := context.WithDeadline(context.Background(), time.Now().Add(-time.Second))
		ctx, stop = c, cf
	case "real-timeout":
		c, cf := context.WithTimeout(context.Background(), 3*time.Millisecond)
		ctx, stop = c, cf
		x.tripped.Store(false)
	default:
		x.cancel = nil
	}
	x.ctx = ctx
	defer stop()
	root := x.nodes[x.Sc.Root]
	var action flyt.Action
	var err error
	func() {
		defer func() {
			if p := recover(); p != nil {
				out.Panic = fmt.Sprint(p)
			}
		}()
		if f, ok := root.(*flyt.Flow); ok && x.Sc.UseFlowRun {
			err = f.Run(ctx, x.store)
			if err == nil {
				action = "<flow.Run>"
			}
		} else {
			action, err = flyt.Run(ctx, root, x.store)
		}
	}()
	out.ReturnedDuringCallback = x.dwelling.Load() == 1
	out.Action = string(action)
	out.Runaway = x.runaway.Load()
	x.runaway.Store(false)
	out.ErrNil = err == nil
	out.err = err
	out.matcher = x.MatchErr
	out.CancelSeq = x.cancelSeq
	if err != nil {
		out.ErrText = err.Error()
		out.ErrID = x.MatchErr(err)
		if ce := ctx.Err(); ce != nil && errors.Is(err, ce) {
			if out.ErrID == "" {
				out.ErrID = "ctx"
			} else {
				out.ErrID += "+ctx"
			}
		}
	}
	if ce := ctx.Err(); ce != nil {
		out.CtxErr = ce.Error()
	}
	x.mu.Lock()
	out.Events = append([]Event(nil), x.events...)
	x.mu.Unlock()
	if x.store != nil {
		if lg, ok := x.store.Get("log"); ok {
			out.Store, _ = lg.([]string)
		}
	}
	if x.Sc.Inject.Kind == "real-timeout" && (x.tripped.Load() || x.cancelSeq < 0) {
		out.Discard = true
	}
	if x.Sc.Inject.Kind == "far-deadline" && ctx.Err() != nil {
		out.Discard = true // the machine was too slow: the deadline was reached after all
	}
	return out
}

// MatchAgain re-evaluates, now, which scripted error the error value this run returned matches.
func (o *Outcome) MatchAgain() string {
	if o.err == nil || o.matcher == nil {
		return ""
	}
	return o.matcher(o.err)
}

// Store returns the store of the last run.
func (x *Exec) Store() *flyt.SharedStore { return x.store }

// RootNode returns the built root node object.
func (x *Exec) RootNode() flyt.Node { return x.nodes[x.Sc.Root] }
