package scen

import (
	"fmt"
	"strings"
)

// Finding is one refuted predicate, attributed to the property whose
// statement it contradicts.
type Finding struct {
	Prop   string
	Key    string // stable: predicate name + node kind (no scenario-specific ids)
	Detail string
}

type segment struct {
	node, visit int
	evs         []Event
}

func segments(evs []Event) []segment {
	var out []segment
	for _, e := range evs {
		if e.Phase == "anomaly" {
			continue
		}
		if n := len(out); n > 0 && out[n-1].node == e.Node && out[n-1].visit == e.Visit && e.Phase != "prep" {
			out[n-1].evs = append(out[n-1].evs, e)
			continue
		}
		out = append(out, segment{e.Node, e.Visit, []Event{e}})
	}
	return out
}

func idHas(ids, id string) bool {
	for _, p := range strings.Split(ids, "+") {
		if p == id {
			return true
		}
	}
	return false
}

// Judge evaluates the predicates of C01-C04 on one un-cancelled run.
// mr may be nil (then only model-independent predicates are evaluated).
func Judge(sc *Scenario, mr *ModelRun, out *Outcome) []Finding {
	var fs []Finding
	add := func(prop, key, format string, a ...any) {
		d := fmt.Sprintf(format, a...)
		if len(d) > 900 {
			d = d[:900] + "…"
		}
		fs = append(fs, Finding{prop, key, d})
	}
	kn := func(node int) string { return KindNames[sc.Nodes[node].Kind] }
	if out.Runaway && (mr == nil || !mr.Trunc) {
		add("C03", "runaway", "the run was still going after %d callbacks; the connection table and the nodes' scripts determine a path of %d callbacks", RunawayLimit, func() int {
			if mr != nil {
				return len(mr.Keys)
			}
			return -1
		}())
		if sc.MaxNesting() >= 2 {
			add("C10", "runaway", "nested arrangement did not terminate where its table ends (cut off after %d callbacks)", RunawayLimit)
		}
		return fs
	}
	if out.Panic != "" {
		add("C01", "panic", "Run panicked: %s", out.Panic)
		// a callback returned an error and, instead of handing that error back, Run panicked on it
		for i := len(out.Events) - 1; i >= 0; i-- {
			if e := out.Events[i]; e.Phase != "anomaly" {
				if e.Ret != "" {
					add("C04", "panic-instead-of-error:"+kn(e.Node), "callback %s returned error %s; Run did not return that error but panicked: %s", e.Key(), e.Ret, out.Panic)
				}
				break
			}
		}
		return fs
	}
	for _, e := range out.Events {
		if e.Phase == "anomaly" {
			if strings.HasPrefix(e.Note, "ctx:") {
				add("C10", "inner-context-cancelled", "node %d: %s — in the flattened machine all nodes share one context that lives until the run ends", e.Node, e.Note)
				continue
			}
			if strings.HasPrefix(e.Note, "store:") {
				add("C10", "store-contents-changed-between-callbacks", "node %d: %s — in the flattened machine nothing but the nodes' callbacks touches the store while the run is going on", e.Node, e.Note)
				continue
			}
			add("C01", "anomaly:"+kn(e.Node), "node %d: %s", e.Node, e.Note)
		}
	}
	segs := segments(out.Events)
	rootIsNode := sc.Nodes[sc.Root].Kind != KFlow
	if rootIsNode && len(segs) != 1 {
		add("C01", "prep-count:"+kn(sc.Root), "single node run produced %d prep-delimited segments, want exactly 1 (prep must be called exactly once)", len(segs))
	}
	for si, sg := range segs {
		spec := &sc.Nodes[sg.node]
		k := kn(sg.node)
		scr := scriptOf(spec, sg.visit)
		last := si == len(segs)-1
		if spec.Kind == KBatch {
			continue // batch lifecycles are C06's; here a batch node only takes part in routing / errors / cancellation
		}
		// --- C01: phase structure --------------------------------------------------
		if sg.evs[0].Phase != "prep" {
			add("C01", "no-prep:"+k, "node %d visit %d: first callback is %s, prep was not called first", sg.node, sg.visit, sg.evs[0].Phase)
		}
		state := 0 // 0 prep seen, 1 in exec, 2 fallback seen, 3 post seen
		nExec, nFB, nPost := 0, 0, 0
		var lastExecPhase *Event
		for i := range sg.evs {
			e := &sg.evs[i]
			switch e.Phase {
			case "prep":
				if i != 0 {
					add("C01", "prep-twice:"+k, "node %d visit %d: prep called again inside a visit", sg.node, sg.visit)
				}
				if !e.StoreOK {
					add("C01", "prep-store:"+k, "node %d: prep received a store other than the one given to the run", sg.node)
				}
			case "exec":
				if state > 1 {
					add("C01", "exec-after-"+[]string{"", "", "fallback", "post"}[state]+":"+k, "node %d visit %d: exec attempt after %s", sg.node, sg.visit, []string{"", "", "fallback", "post"}[state])
				}
				state = 1
				nExec++
				if !e.PrepOK {
					add("C01", "exec-arg:"+k, "node %d visit %d attempt %d: %s", sg.node, sg.visit, e.Attempt, e.Note)
				}
				lastExecPhase = e
			case "fallback":
				if state == 3 {
					add("C01", "fallback-after-post:"+k, "node %d visit %d: fallback after post", sg.node, sg.visit)
				}
				state = 2
				nFB++
				lastExecPhase = e
			case "post":
				state = 3
				nPost++
				if !e.StoreOK {
					add("C01", "post-store:"+k, "node %d: post received a store other than the one given to the run", sg.node)
				}
				if !e.PrepOK || !e.ExecOK {
					add("C01", "post-arg:"+k, "node %d visit %d: %s", sg.node, sg.visit, e.Note)
				}
				if e.PrepOK && !e.ExecOK && nFB > 0 {
					add("C02", "fallback-outcome-not-used:"+k, "node %d visit %d: all attempts failed and the fallback succeeded, but its outcome did not replace the exec outcome: %s", sg.node, sg.visit, e.Note)
				}
			}
		}
		if nPost > 1 {
			add("C01", "post-twice:"+k, "node %d visit %d: post called %d times", sg.node, sg.visit, nPost)
		}
		prepFailed := sg.evs[0].Phase == "prep" && sg.evs[0].Ret != ""
		if prepFailed && len(sg.evs) > 1 {
			add("C01", "after-failed-prep:"+k, "node %d visit %d: %s called after prep returned an error", sg.node, sg.visit, sg.evs[1].Phase)
		}
		if !prepFailed && sg.evs[0].Phase == "prep" && nExec == 0 && out.CancelSeq < 0 {
			add("C01", "no-exec:"+k, "node %d visit %d: prep succeeded but no exec attempt followed", sg.node, sg.visit)
		}
		if lastExecPhase != nil {
			produced := lastExecPhase.Ret == ""
			if produced && nPost == 0 {
				add("C01", "post-missing:"+k, "node %d visit %d: exec phase produced a result but post was not called", sg.node, sg.visit)
			}
			if !produced && nPost > 0 {
				add("C01", "post-after-failure:"+k, "node %d visit %d: post called although the exec phase ended with an error", sg.node, sg.visit)
			}
		}
		// --- C02: retry budget and fallback ------------------------------------------
		if !prepFailed && out.CancelSeq < 0 && nExec > 0 {
			n := EffBudget(spec)
			want := scr.FirstOK
			if want > n {
				want = n
			}
			if nExec != want {
				add("C02", fmt.Sprintf("attempts:%s", k), "node %d (%s, budget %d, first success at %d): %d exec attempts, want exactly %d", sg.node, k, n, scr.FirstOK, nExec, want)
			}
			for i, e := range sg.evs {
				if e.Phase == "exec" && e.Attempt != i {
					// attempt numbers are assigned by the node itself (count since prep): gaps mean an exec of another visit
					add("C02", "attempt-numbering:"+k, "node %d visit %d: attempt sequence broken at event %d (attempt %d)", sg.node, sg.visit, i, e.Attempt)
					break
				}
			}
			allFailed := scr.FirstOK > n
			wantFB := 0
			if allFailed && effFB(spec) {
				wantFB = 1
			}
			if nFB != wantFB && nExec == want {
				add("C02", fmt.Sprintf("fallback-count:%s", k), "node %d (%s): fallback invoked %d times, want %d (all attempts failed: %v, fallback installed: %v)", sg.node, k, nFB, wantFB, allFailed, effFB(spec))
			}
			for _, e := range sg.evs {
				if e.Phase == "fallback" {
					if !e.PrepOK {
						add("C02", "fallback-prep-arg:"+k, "node %d: fallback did not receive the prep value", sg.node)
					}
					if !e.ErrOK {
						add("C02", "fallback-err-arg:"+k, "node %d: fallback did not receive the last attempt's error (%s)", sg.node, e.Note)
					}
				}
			}
			if allFailed && !effFB(spec) && last && !out.ErrNil && nExec == want {
				wantID := errID(sg.node, sg.visit, "exec", n)
				if !idHas(out.ErrID, wantID) {
					add("C02", "last-error:"+k, "node %d: all %d attempts failed without fallback; returned error matches %q, want the last attempt's error %q", sg.node, n, out.ErrID, wantID)
				}
			}
		}
		if !prepFailed && out.CancelSeq >= 0 && nExec > 0 && effFB(spec) {
			n := EffBudget(spec)
			if nExec == n && scr.FirstOK > n && nFB == 0 {
				add("C02", "fallback-skipped-after-all-attempts:"+k, "node %d (%s, budget %d): all %d attempts were made and failed (the context was cancelled during the run), the fallback is installed, yet it was not invoked", sg.node, k, n, n)
			}
		}
		_ = last
	}
	// --- C01: outcome of the run ------------------------------------------------------
	if out.ErrNil && out.Action == "" {
		add("C01", "neither", "run returned neither an action nor an error")
	}
	if !out.ErrNil && out.Action != "" {
		add("C01", "both", "run returned action %q together with error %q", out.Action, out.ErrText)
	}
	if rootIsNode && out.ErrNil && len(segs) == 1 {
		scr := scriptOf(&sc.Nodes[sc.Root], segs[0].visit)
		want := scr.Post
		if want == "" {
			want = DefaultAction
		}
		if np := len(segs[0].evs); np > 0 && segs[0].evs[np-1].Phase == "post" && out.Action != want {
			add("C01", "action:"+kn(sc.Root), "run returned action %q, post returned %q (want %q)", out.Action, scr.Post, want)
		}
	}
	if len(out.Events) == 0 && !out.ErrNil && out.CancelSeq < 0 && sc.Inject.Kind == "" {
		add("C04", "error-without-any-callback", "the run returned the error %q although not a single user callback was invoked (and the context is alive): no phase on its path failed", out.ErrText)
	}
	// --- C04: transparency and fail-stop (observation based) ---------------------------
	if n := len(out.Events); n > 0 && out.CancelSeq < 0 {
		var lastEv *Event
		for i := n - 1; i >= 0; i-- {
			if out.Events[i].Phase != "anomaly" {
				lastEv = &out.Events[i]
				break
			}
		}
		if !out.ErrNil {
			if lastEv.Ret == "" {
				add("C04", "error-without-failure", "run returned error %q but the last callback (%s) succeeded: no failing phase ended the run", out.ErrText, lastEv.Key())
			} else if !idHas(out.ErrID, lastEv.Ret) {
				add("C04", "error-identity:"+lastEv.Phase+":"+kn(lastEv.Node), "run ended after callback %s returned error %s, but the returned error %q matches %q under errors.Is/As", lastEv.Key(), lastEv.Ret, out.ErrText, out.ErrID)
			}
		}
		// every failing callback must either end the run or be an exec attempt followed by a retry / fallback
		// (when flows carry retry budgets of their own, a failure may also be followed by the next attempt of an
		// enclosing flow: then the model's trace decides)
		if sc.hasFlowRetries() && mr != nil && !mr.Trunc && mr.ErrID != "" && len(keysOfEvents(out.Events)) > len(mr.Keys) {
			add("C04", "continued-after-failure:flow-retries", "the run fails for good after %d callbacks (%s), yet %d callbacks were made", len(mr.Keys), mr.ErrID, len(keysOfEvents(out.Events)))
		}
		for i, e := range out.Events {
			if sc.hasFlowRetries() {
				break
			}
			if e.Ret == "" || e.Phase == "anomaly" {
				continue
			}
			isLast := &out.Events[i] == lastEv
			if isLast {
				if out.ErrNil {
					add("C04", "swallowed:"+e.Phase+":"+kn(e.Node), "callback %s returned error %s as the last callback of the run, yet the run reported success (action %q)", e.Key(), e.Ret, out.Action)
				}
				continue
			}
			nx := out.Events[i+1]
			for j := i + 1; nx.Phase == "anomaly" && j+1 < len(out.Events); j++ {
				nx = out.Events[j+1]
			}
			if nx.Phase == "anomaly" {
				continue
			}
			if e.Phase == "exec" && nx.Node == e.Node && nx.Visit == e.Visit && (nx.Phase == "exec" || nx.Phase == "fallback") {
				continue
			}
			add("C04", "continued-after-failure:"+e.Phase+":"+kn(e.Node), "callback %s returned error %s but callback %s was still invoked afterwards", e.Key(), e.Ret, nx.Key())
		}
	}
	// model based: "a nil error if and only if every phase on its path succeeded (after retries and fallback)"
	if mr != nil && !mr.Trunc && sc.Inject.Kind == "" && len(out.Events) > 0 {
		if mr.ErrID == "" && !out.ErrNil {
			add("C04", "failed-although-recovered", "every phase on the path succeeds once retries (of nodes and of flows used as nodes) and fallbacks are taken into account, yet the run returned the error %q (matches %q)", out.ErrText, out.ErrID)
		}
		if mr.ErrID != "" && out.ErrNil {
			add("C04", "success-despite-failure", "phase %s fails for good on the path (no retry or fallback recovers it), yet the run reported success (action %q)", mr.ErrID, out.Action)
		}
	}
	// a cancellation that arrives while the run is already failing does not change why it failed: when the last
	// callback of the run is a failure that nothing could have recovered (prep, post, fallback, or the last permitted
	// attempt without fallback), the returned error is that callback's error
	if n := len(out.Events); n > 0 && out.CancelSeq >= 0 && !out.ErrNil && !sc.hasFlowRetries() {
		var lastEv *Event
		for i := n - 1; i >= 0; i-- {
			if out.Events[i].Phase != "anomaly" {
				lastEv = &out.Events[i]
				break
			}
		}
		if lastEv != nil && lastEv.Ret != "" {
			spec := &sc.Nodes[lastEv.Node]
			terminal := lastEv.Phase == "prep" || lastEv.Phase == "post" || lastEv.Phase == "fallback" ||
				(lastEv.Phase == "exec" && lastEv.Attempt == EffBudget(spec) && !effFB(spec))
			if terminal && !idHas(out.ErrID, lastEv.Ret) {
				add("C04", "error-identity-under-cancel:"+lastEv.Phase+":"+kn(lastEv.Node), "the run ended when callback %s returned error %s (nothing was left to retry); the context had been cancelled in callback #%d, but the returned error %q matches %q instead of that callback's error", lastEv.Key(), lastEv.Ret, out.CancelSeq, out.ErrText, out.ErrID)
			}
		}
	}
	// --- C03: routing (model based) -----------------------------------------------------
	if mr != nil && !mr.Trunc && out.CancelSeq < 0 {
		// the executed path = nodes whose post ran, plus the node at which the run failed
		var wantSeq, gotSeq []string
		for i, k := range mr.Keys {
			if strings.Contains(k, ".post.") || (i == len(mr.Keys)-1 && mr.ErrID != "") {
				wantSeq = append(wantSeq, strings.SplitN(k, ".", 2)[0])
			}
		}
		for i, e := range out.Events {
			if e.Phase == "post" || (i == len(out.Events)-1 && !out.ErrNil && e.Phase != "anomaly") {
				gotSeq = append(gotSeq, fmt.Sprint(e.Node))
			}
		}
		if strings.Join(wantSeq, " ") != strings.Join(gotSeq, " ") {
			add("C03", "path", "nodes executed: [%s]; the connection table and returned actions determine [%s]", strings.Join(gotSeq, " "), strings.Join(wantSeq, " "))
		} else {
			if mr.ErrID == "" && !out.ErrNil {
				add("C03", "run-failed", "path has no failing phase but the run failed: %s", out.ErrText)
			}
			if strings.Join(mr.Log, " ") != strings.Join(out.Store, " ") {
				add("C03", "store-log", "store visit log %v, want %v", out.Store, mr.Log)
			}
			if mr.ErrID == "" && out.ErrNil && mr.Action != out.Action {
				add("C10", "final-action", "run returned action %q, the last executed node returned %q", out.Action, mr.Action)
			}
		}
	}
	return fs
}

func keysOfEvents(evs []Event) []string {
	var k []string
	for _, e := range evs {
		if e.Phase != "anomaly" {
			k = append(k, e.Key())
		}
	}
	return k
}

func (sc *Scenario) hasFlowRetries() bool {
	for i := range sc.Nodes {
		if sc.Nodes[i].Flow != nil && sc.Nodes[i].Flow.Retries > 1 {
			return true
		}
	}
	return false
}

// FullTraceEqual reports whether the observed keys equal the model's.
func FullTraceEqual(mr *ModelRun, out *Outcome) bool {
	var got []string
	for _, e := range out.Events {
		if e.Phase != "anomaly" {
			got = append(got, e.Key())
		}
	}
	return strings.Join(got, " ") == strings.Join(mr.Keys, " ")
}
