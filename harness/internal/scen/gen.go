package scen

import (
	"encoding/json"
	"math/rand/v2"
)

// Clone deep-copies a scenario.
func (sc *Scenario) Clone() *Scenario {
	b, _ := json.Marshal(sc)
	var c Scenario
	_ = json.Unmarshal(b, &c)
	return &c
}

var Alphabet = []string{"a", "A ", "error", "default", "b%", " "} // (action names are free text: percent signs and blanks included, and "error" is a name like any other)

// GenOpts bounds the random generator.
type GenOpts struct {
	MaxNodes     int  // scripted nodes
	MaxActions   int  // ≤ len(Alphabet)
	MaxDepth     int  // nesting depth of flows (1 = flat flow)
	Failures     bool // scripts include recoverable exec failures (retries / fallbacks)
	Zoo          bool // payloads from the value zoo
	MaxVisits    int
	Batch        bool // some nodes are (sequential) batch nodes
	CtxAwareErrs bool // some nodes report an observed cancellation as their own failure
	SelfNesting  bool // a flow may contain itself as a node
	MoreErrKinds bool // also errors that wrap a context error while the context is alive, and Temporary() errors
}

// GenNode draws a scripted node spec.
func GenNode(r *rand.Rand, o GenOpts, nActions int) NodeSpec {
	k := r.IntN(NumScriptedKinds)
	if o.Batch && r.IntN(7) == 0 {
		k = KBatch
	}
	n := 1 + r.IntN(4)
	if r.IntN(4) == 0 {
		n = 1
	}
	ns := NodeSpec{Kind: k, N: n, ErrKind: r.IntN(NumErrKinds)}
	if r.IntN(6) == 0 {
		ns.Conc = 1 + r.IntN(4)
	}
	if o.CtxAwareErrs && r.IntN(3) == 0 {
		ns.ErrKind = ECtxAware
	}
	if o.MoreErrKinds && r.IntN(3) == 0 {
		ns.ErrKind = []int{ECtxLike, ETemporary, EUncomparable, EJoined}[r.IntN(4)]
	}
	if KindCanFB(k) && k >= KFnOptRes {
		ns.HasFB = r.IntN(2) == 0
	}
	mv := o.MaxVisits
	if mv <= 0 {
		mv = 3
	}
	nv := 1 + r.IntN(mv)
	for v := 0; v < nv; v++ {
		vs := Visit{FirstOK: 1, Post: Alphabet[r.IntN(nActions)]}
		if r.IntN(6) == 0 {
			vs.Post = "" // post returns the empty action: reported (and routed) as "default"
		}
		if o.Failures && r.IntN(2) == 0 {
			eff := EffBudget(&ns)
			if effFB(&ns) && r.IntN(3) == 0 {
				vs.FirstOK = eff + 1 // all fail, fallback rescues
				vs.FBNil = r.IntN(3) == 0
			} else {
				vs.FirstOK = 1 + r.IntN(eff)
			}
		}
		if o.Zoo && r.IntN(3) == 0 {
			vs.Payload = 1 + r.IntN(150)
		}
		if k == KBatch && r.IntN(3) == 0 {
			vs.FirstOK = 0 // a batch without items
		}
		ns.Visits = append(ns.Visits, vs)
	}
	return ns
}

// GenFlowScenario draws a hierarchical flow scenario whose un-injected run succeeds.
func GenFlowScenario(r *rand.Rand, o GenOpts) *Scenario {
	sc := &Scenario{Runs: 1}
	nScripted := 1 + r.IntN(o.MaxNodes)
	nActions := 1 + r.IntN(o.MaxActions)
	for i := 0; i < nScripted; i++ {
		sc.Nodes = append(sc.Nodes, GenNode(r, o, nActions))
	}
	// build flows bottom-up; pool = ids available as members
	pool := make([]int, nScripted)
	for i := range pool {
		pool[i] = i
	}
	depthOf := make([]int, nScripted)
	nInner := 0
	if o.MaxDepth > 1 {
		nInner = r.IntN(4)
	}
	mkFlow := func(maxMemberDepth int, root bool) int {
		// choose members
		var members []int
		want := 1 + r.IntN(5)
		if root {
			want = 1 + r.IntN(len(pool))
		}
		for tries := 0; len(members) < want && tries < 40; tries++ {
			c := pool[r.IntN(len(pool))]
			if depthOf[c] > maxMemberDepth {
				continue
			}
			dup := false
			for _, m := range members {
				if m == c {
					dup = true
				}
			}
			if !dup {
				members = append(members, c)
			}
		}
		if len(members) == 0 {
			members = []int{r.IntN(nScripted)}
		}
		fs := &FlowSpec{Start: members[r.IntN(len(members))]}
		acts := append([]string(nil), Alphabet[:nActions]...)
		acts = append(acts, "default")
		for _, m := range members {
			for _, a := range acts {
				switch c := r.IntN(10); {
				case c < 3: // unconnected
				case c < 4: // connected to nil, after a non-nil decoy
					fs.Conns = append(fs.Conns, Conn{m, a, members[r.IntN(len(members))]}, Conn{m, a, -1})
				default:
					to := members[r.IntN(len(members))]
					if r.IntN(3) == 0 { // decoy first: last Connect wins
						fs.Conns = append(fs.Conns, Conn{m, a, members[r.IntN(len(members))]})
					}
					if r.IntN(8) == 0 {
						fs.Conns = append(fs.Conns, Conn{m, a, -1})
					}
					fs.Conns = append(fs.Conns, Conn{m, a, to})
				}
			}
		}
		// shuffle the order of Connect calls between different (from, action) pairs while
		// keeping the relative order within a pair
		d := 0
		for _, m := range members {
			if depthOf[m]+1 > d {
				d = depthOf[m] + 1
			}
		}
		for _, m := range members {
			if r.IntN(6) == 0 { // a connection on the empty action is its own pair and can never be followed
				fs.Conns = append(fs.Conns, Conn{m, "", members[r.IntN(len(members))]})
			}
		}
		sc.Nodes = append(sc.Nodes, NodeSpec{Kind: KFlow, N: 1, Flow: fs})
		id := len(sc.Nodes) - 1
		if o.SelfNesting && r.IntN(4) == 0 {
			// the flow contains itself as a node (recursion ends when the scripts run out)
			from := members[r.IntN(len(members))]
			fs.Conns = append(fs.Conns, Conn{from, Alphabet[r.IntN(nActions)], id})
			if r.IntN(2) == 0 {
				fs.Conns = append(fs.Conns, Conn{id, Alphabet[r.IntN(nActions)], members[r.IntN(len(members))]})
			}
		}
		depthOf = append(depthOf, d)
		return id
	}
	for i := 0; i < nInner; i++ {
		id := mkFlow(o.MaxDepth-2, false)
		pool = append(pool, id)
		if r.IntN(2) == 0 { // make reuse at several places likelier
			pool = append(pool, id)
		}
	}
	sc.Root = mkFlow(o.MaxDepth-1, true)
	sc.Runs = 1 + r.IntN(3)
	if sc.Runs > 1 {
		sc.FreshStore = r.IntN(2) == 0
	}
	sc.UseFlowRun = r.IntN(3) == 0
	sc.ShareBase = r.IntN(5) == 0
	if r.IntN(8) == 0 {
		sc.StrayFlowRetries = 2 + r.IntN(2)
	}
	if sc.Runs > 1 && r.IntN(2) == 0 {
		// Connect calls between runs: overwrite an existing pair, add a new action to a node that already
		// has connections, re-connect to nil
		var flows []int
		for id := range sc.Nodes {
			if sc.Nodes[id].Kind == KFlow {
				flows = append(flows, id)
			}
		}
		nrw := 1 + r.IntN(3)
		for i := 0; i < nrw; i++ {
			fid := flows[r.IntN(len(flows))]
			if r.IntN(2) == 0 {
				fid = sc.Root
			}
			fs := sc.Nodes[fid].Flow
			members := []int{fs.Start}
			for _, c := range fs.Conns {
				members = append(members, c.From)
				if c.To >= 0 {
					members = append(members, c.To)
				}
			}
			from := members[r.IntN(len(members))]
			to := members[r.IntN(len(members))]
			if r.IntN(5) == 0 {
				to = -1
			}
			act := Alphabet[r.IntN(nActions)]
			if len(fs.Conns) > 0 && r.IntN(2) == 0 { // overwrite an existing pair
				c := fs.Conns[r.IntN(len(fs.Conns))]
				from, act = c.From, c.Action
			}
			sc.Rewire = append(sc.Rewire, Rewire{AfterRun: r.IntN(sc.Runs - 1), Flow: fid, Conn: Conn{from, act, to}})
		}
	}
	return sc
}

// MaxNesting returns the nesting depth of the scenario's root.
func (sc *Scenario) MaxNesting() int {
	var d func(id int, seen map[int]bool) int
	d = func(id int, seen map[int]bool) int {
		if id < 0 {
			return 0
		}
		s := &sc.Nodes[id]
		if s.Kind != KFlow || seen[id] {
			return 0
		}
		seen[id] = true
		defer delete(seen, id)
		best := 0
		ms := map[int]bool{s.Flow.Start: true}
		for _, c := range s.Flow.Conns {
			ms[c.From] = true
			if c.To >= 0 {
				ms[c.To] = true
			}
		}
		for m := range ms {
			if x := d(m, seen); x > best {
				best = x
			}
		}
		return best + 1
	}
	return d(sc.Root, map[int]bool{})
}
