package scen

import (
	"context"
	"time"

	flyt "github.com/mark3labs/flyt"
)

// Flattening: the hierarchical scenario is expanded into one flat flyt.Flow.
// Every placement of a scripted node (the chain of flows it is reached
// through) becomes a proxy node that delegates to the one scripted node
// object, so scripts and visit counters are shared exactly as in the nested
// arrangement. An action that ends an inner flow is re-routed through the
// parent's table on (inner flow, action), recursively.

type proxyPlain struct{ n flyt.Node }

func (p *proxyPlain) Prep(ctx context.Context, s *flyt.SharedStore) (any, error) {
	return p.n.Prep(ctx, s)
}
func (p *proxyPlain) Exec(ctx context.Context, v any) (any, error) { return p.n.Exec(ctx, v) }
func (p *proxyPlain) Post(ctx context.Context, s *flyt.SharedStore, a, b any) (flyt.Action, error) {
	return p.n.Post(ctx, s, a, b)
}

type proxyFB struct{ proxyPlain }

func (p *proxyFB) ExecFallback(v any, err error) (any, error) {
	return p.n.(flyt.FallbackNode).ExecFallback(v, err)
}

type proxyRetry struct{ proxyPlain }

func (p *proxyRetry) GetMaxRetries() int     { return p.n.(flyt.RetryableNode).GetMaxRetries() }
func (p *proxyRetry) GetWait() time.Duration { return p.n.(flyt.RetryableNode).GetWait() }

type proxyRetryFB struct{ proxyRetry }

func (p *proxyRetryFB) ExecFallback(v any, err error) (any, error) {
	return p.n.(flyt.FallbackNode).ExecFallback(v, err)
}

func mkProxy(n flyt.Node) flyt.Node {
	_, r := n.(flyt.RetryableNode)
	_, f := n.(flyt.FallbackNode)
	switch {
	case r && f:
		return &proxyRetryFB{proxyRetry{proxyPlain{n}}}
	case r:
		return &proxyRetry{proxyPlain{n}}
	case f:
		return &proxyFB{proxyPlain{n}}
	}
	return &proxyPlain{n}
}

type flattener struct {
	x       *Exec
	proxies map[string]flyt.Node
	flow    *flyt.Flow
	todo    []placement
	actions []string
	Count   int
}

type placement struct {
	path []int // flow ids from the root down to the flow that contains node
	node int
}

func pathKey(path []int, node int) string {
	b := make([]byte, 0, 32)
	for _, p := range path {
		b = append(b, byte(p), byte(p>>8), '/')
	}
	b = append(b, byte(node), byte(node>>8))
	return string(b)
}

func (f *flattener) proxy(path []int, node int) flyt.Node {
	k := pathKey(path, node)
	if p, ok := f.proxies[k]; ok {
		return p
	}
	p := mkProxy(f.x.build(node))
	f.proxies[k] = p
	f.Count++
	f.todo = append(f.todo, placement{append([]int(nil), path...), node})
	return p
}

// entry resolves "control enters node id inside the flow chain path".
func (f *flattener) entry(path []int, id int) flyt.Node {
	s := &f.x.Sc.Nodes[id]
	if s.Kind != KFlow {
		return f.proxy(path, id)
	}
	return f.entry(append(append([]int(nil), path...), id), s.Flow.Start)
}

func lookup(fs *FlowSpec, from int, action string) (int, bool) {
	to, ok := 0, false
	for _, c := range fs.Conns {
		if c.From == from && c.Action == action {
			to, ok = c.To, true
		}
	}
	return to, ok
}

// next resolves where control goes when node (inside path) returns action; nil = the run ends.
func (f *flattener) next(path []int, node int, action string) flyt.Node {
	cur := node
	for level := len(path) - 1; level >= 0; level-- {
		fs := f.x.Sc.Nodes[path[level]].Flow
		to, ok := lookup(fs, cur, action)
		if ok && to >= 0 {
			return f.entry(path[:level+1], to)
		}
		// unconnected or connected to nil: this flow ends and presents `action` to its parent
		cur = path[level]
	}
	return nil
}

// NewFlatExec builds the flattened equivalent of a scenario whose root is a flow.
func NewFlatExec(sc *Scenario) (*Exec, int) {
	x := &Exec{Sc: sc, errs: map[string]error{}, cores: make([]*core, len(sc.Nodes)), nodes: make([]flyt.Node, len(sc.Nodes)), cancelSeq: -1}
	x.zoo = sharedZoo
	f := &flattener{x: x, proxies: map[string]flyt.Node{}}
	f.actions = append(append([]string(nil), Alphabet...), EndAction)
	root := sc.Root
	start := f.entry(nil, root) // path grows inside entry since root is a flow
	flat := flyt.NewFlow(start)
	for len(f.todo) > 0 {
		pl := f.todo[0]
		f.todo = f.todo[1:]
		from := f.proxies[pathKey(pl.path, pl.node)]
		for _, a := range f.actions {
			if to := f.next(pl.path, pl.node, a); to != nil {
				flat.Connect(from, flyt.Action(a), to)
			}
		}
	}
	x.nodes[root] = flat
	return x, f.Count
}
