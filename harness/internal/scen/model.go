package scen

import "fmt"

// The reference model: an independent interpreter of scenarios. It shares no
// code with flyt; it is the executable reading of properties C01-C04, C10.

// ModelRun is the expected result of one run.
type ModelRun struct {
	Keys   []string // expected event keys, in order
	Depths []int    // nesting depth of the node each key belongs to (0 = the root itself)
	Action string   // expected action ("" when an error is expected)
	ErrID  string   // id of the scripted error that must end the run ("" = success)
	Log    []string // expected store visit log (cumulative when the store is reused)
	Trunc  bool     // model gave up (step bound) — scenario must not be judged
}

type Model struct {
	runIdx int
	extra  map[int][]Conn // flow node id -> Connect calls made between runs so far
	sc     *Scenario
	visits []int
	log    []string
	steps  int
	depth  int
}

func NewModel(sc *Scenario) *Model { return &Model{sc: sc, visits: make([]int, len(sc.Nodes))} }

const DefaultAction = "default"

// EffBudget is the number of exec attempts a node is entitled to.
func EffBudget(s *NodeSpec) int {
	if KindHasRetry(s.Kind) {
		return s.N
	}
	return 1
}

func effFB(s *NodeSpec) bool {
	switch s.Kind {
	case KBaseFB, KPlainFB, KPlainRetryFB:
		return true
	case KFnOptRes, KFnOptAny, KFnBldRes, KFnBldAny, KFnMixed, KEmbedBld:
		return s.HasFB
	}
	return false
}

func scriptOf(s *NodeSpec, v int) Visit {
	if v < 0 { // callbacks recorded before the node's first prep: there is no script for them (the judge reports the missing prep)
		return Visit{FirstOK: 1, Post: EndAction}
	}
	if s.LoopN > 0 {
		if v < s.LoopN {
			return Visit{FirstOK: 1, Post: "loop"}
		}
		return Visit{FirstOK: 1, Post: "exit"}
	}
	if v < len(s.Visits) {
		return s.Visits[v]
	}
	return Visit{FirstOK: 1, Post: EndAction}
}

// Run models one run of the root.
func (m *Model) Run() ModelRun {
	if m.sc.FreshStore {
		m.log = nil
	}
	var r ModelRun
	m.steps = 0
	act, errID := m.node(m.sc.Root, &r)
	r.Action, r.ErrID = act, errID
	r.Log = append([]string(nil), m.log...)
	if m.sc.NilStore {
		r.Log = nil
	}
	for _, rw := range m.sc.Rewire {
		if rw.AfterRun == m.runIdx {
			if m.extra == nil {
				m.extra = map[int][]Conn{}
			}
			m.extra[rw.Flow] = append(m.extra[rw.Flow], rw.Conn)
		}
	}
	m.runIdx++
	if m.sc.UseFlowRun && m.sc.Nodes[m.sc.Root].Kind == KFlow && errID == "" {
		r.Action = "<flow.Run>"
	}
	return r
}

// AfterObservedRun advances the model past a run it cannot predict (a cancelled one): the visit counters are taken
// from the callbacks that run actually made, the store's visit log from what the store holds.
func (m *Model) AfterObservedRun(out *Outcome) {
	for _, e := range out.Events {
		if e.Phase == "prep" && e.Node < len(m.visits) && e.Visit+1 > m.visits[e.Node] {
			m.visits[e.Node] = e.Visit + 1
		}
	}
	if !m.sc.FreshStore {
		m.log = append([]string(nil), out.Store...)
	}
	for _, e := range out.Events { // Connect calls made inside the callbacks that did run, in the order they ran
		if e.Phase == "exec" && e.Attempt != 1 {
			continue
		}
		for _, mc := range m.sc.MidConnect {
			if e.Node == mc.Node && e.Visit == mc.Visit && e.Phase == mc.Phase {
				if m.extra == nil {
					m.extra = map[int][]Conn{}
				}
				m.extra[mc.Flow] = append(m.extra[mc.Flow], mc.Conn)
			}
		}
	}
	for _, rw := range m.sc.Rewire { // then the Connect calls made after the run
		if rw.AfterRun == m.runIdx {
			if m.extra == nil {
				m.extra = map[int][]Conn{}
			}
			m.extra[rw.Flow] = append(m.extra[rw.Flow], rw.Conn)
		}
	}
	m.runIdx++
}

func (m *Model) node(id int, r *ModelRun) (action string, errID string) {
	s := &m.sc.Nodes[id]
	if s.Kind == KFlow {
		m.depth++
		budget := 1
		if s.Flow.Retries > 1 {
			budget = s.Flow.Retries
		}
		var a, e string
		for att := 0; att < budget; att++ {
			a, e = m.flow(id, s.Flow, r)
			if e == "" || r.Trunc {
				break
			}
		}
		m.depth--
		return a, e
	}
	m.steps++
	v := m.visits[id]
	m.visits[id]++
	sc := scriptOf(s, v)
	key := func(phase string, att int) string {
		r.Depths = append(r.Depths, m.depth)
		return fmt.Sprintf("%d.%d.%s.%d", id, v, phase, att)
	}
	r.Keys = append(r.Keys, key("prep", 0))
	m.mid(id, v, "prep")
	if sc.PrepErr {
		return "", errID2(id, v, "prep", 0)
	}
	if s.Kind == KBatch {
		if sc.FirstOK != 0 {
			r.Keys = append(r.Keys, key("item", 1))
			if !(id%4 == 2 && sc.FirstOK > 1) { // a stop-on-error batch whose first item fails does not execute the second
				r.Keys = append(r.Keys, key("item", 2))
			}
		}
		r.Keys = append(r.Keys, key("post", 0))
		m.mid(id, v, "post")
		m.log = append(m.log, fmt.Sprint(id))
		if sc.PostErr {
			return "", errID2(id, v, "post", 0)
		}
		if sc.Post == "" {
			return DefaultAction, ""
		}
		return sc.Post, ""
	}
	n := EffBudget(s)
	ok := false
	last := 0
	for j := 1; j <= n; j++ {
		r.Keys = append(r.Keys, key("exec", j))
		if j == 1 {
			m.mid(id, v, "exec")
		}
		last = j
		if j >= sc.FirstOK {
			ok = true
			break
		}
	}
	if !ok {
		if effFB(s) {
			r.Keys = append(r.Keys, key("fallback", 0))
			if sc.FBErr {
				return "", errID2(id, v, "fallback", 0)
			}
		} else {
			return "", errID2(id, v, "exec", last)
		}
	}
	r.Keys = append(r.Keys, key("post", 0))
	m.mid(id, v, "post")
	m.log = append(m.log, fmt.Sprint(id))
	if sc.PostErr {
		return "", errID2(id, v, "post", 0)
	}
	if sc.Post == "" {
		return DefaultAction, ""
	}
	return sc.Post, ""
}

// mid applies the Connect calls a callback makes while the flow is running.
func (m *Model) mid(node, visit int, phase string) {
	for _, mc := range m.sc.MidConnect {
		if mc.Node == node && mc.Visit == visit && mc.Phase == phase {
			if m.extra == nil {
				m.extra = map[int][]Conn{}
			}
			m.extra[mc.Flow] = append(m.extra[mc.Flow], mc.Conn)
		}
	}
}

func errID2(node, visit int, phase string, attempt int) string {
	return errID(node, visit, phase, attempt)
}

func (m *Model) flow(id int, f *FlowSpec, r *ModelRun) (string, string) {
	// last Connect per (from, action) wins; the table is consulted when the node has finished (Connect calls
	// made meanwhile count)
	type k struct {
		from   int
		action string
	}
	table := map[k]int{}
	for _, c := range f.Conns {
		table[k{c.From, c.Action}] = c.To
	}
	applied := 0
	sync := func() {
		ex := m.extra[id]
		for ; applied < len(ex); applied++ {
			table[k{ex[applied].From, ex[applied].Action}] = ex[applied].To
		}
	}
	sync()
	cur := f.Start
	last := ""
	for cur >= 0 {
		if m.steps > 400000 {
			r.Trunc = true
			return "", ""
		}
		act, e := m.node(cur, r)
		if e != "" || r.Trunc {
			return "", e
		}
		last = act
		sync()
		to, ok := table[k{cur, act}]
		if !ok {
			break
		}
		cur = to
	}
	// a flow presents its last node's action; an empty one cannot occur (node() normalises)
	return last, ""
}
