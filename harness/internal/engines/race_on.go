//go:build race

package engines

// RaceEnabled reports whether this binary was built with the race detector.
const RaceEnabled = true
