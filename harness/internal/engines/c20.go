package engines

import (
	"context"
	"encoding/json"
	"errors"
	"fmt"
	"sync"
	"sync/atomic"
	"time"

	flyt "github.com/mark3labs/flyt"

	"verif/harness/internal/scen"
)

// WaitCase: one retry-wait scenario.
type WaitCase struct {
	Family  string `json:"family"`
	Kind    string `json:"kind"` // struct | func | batch
	WaitNs  int64  `json:"wait_ns"`
	N       int    `json:"n"`        // retry budget
	K       int    `json:"k"`        // first succeeding attempt (N+1: never)
	C       int    `json:"c"`        // batch concurrency
	Items   int    `json:"items"`    // batch items
	Cancel  int    `json:"cancel"`   // 0: none; j>0: cancel after attempt j returned (hour wait)
	InCB    bool   `json:"in_cb"`    // cancel inside the callback instead of 20 ms after it returned
	Upper   bool   `json:"upper"`    // this case decides the "no wait before the first / after the last attempt" clauses
	FB      bool   `json:"fb,omitempty"`      // a fallback that swallows every error is installed
	ExecUs  int    `json:"exec_us,omitempty"` // a failing attempt spends this long before it returns
	K0      int    `json:"k0,omitempty"`      // batch: first succeeding attempt of item 0 only (0: same as K)
	Stop    bool   `json:"stop,omitempty"`     // batch: stop-on-error mode
	Slow1Us int    `json:"slow1_us,omitempty"` // batch: the first attempt of item 1 takes this long (de-phases the items' waits)
	CtxCause bool  `json:"ctx_cause,omitempty"` // cancelled through context.WithCancelCause with a custom cause (ctx.Err() is still context.Canceled)
	Route   string `json:"route,omitempty"`    // func / batch kinds: "" all builder methods; "opt-wait" wait through the constructor option, budget through the builder; "opt-all" both through options
	CtxFar  bool   `json:"ctx_far,omitempty"` // the context also carries a deadline two hours away (explicit cancellation must still interrupt the wait)
	DeadlineMs int `json:"deadline_ms,omitempty"` // > 0 (with Cancel = 1): nobody calls cancel — the context's own deadline, this many ms away, expires while the item sits in its hour-long wait
	WaitInPrep bool `json:"wait_in_prep,omitempty"` // func kind: the node is built without a wait; its prep function configures the wait (builder method) before it returns
	CtxNearMs int `json:"ctx_near_ms,omitempty"` // with Cancel: the context also carries a deadline this many ms away — BEFORE the end of the hour-long wait, but long after the explicit cancel(): the error is still the context's (Canceled)
	ErrKind string `json:"err_kind,omitempty"` // "ctx-timeout" / "ctx-canceled": failing attempts return an error that wraps context.DeadlineExceeded / context.Canceled although the run's context is alive (a per-attempt timeout)
	GiveUpAt int `json:"give_up_at,omitempty"` // shrinking kinds: once this many attempts have been made the node's budget is 1
	CtxOwn bool `json:"ctx_own,omitempty"` // with Cancel: the context is a hand-written type whose Err() returns an error value of its own
	AfterCancelledRun bool `json:"after_cancelled_run,omitempty"` // the SAME node was run before under another context that was cancelled 30 ms into its first retry wait; the measured run follows at once
	SpinUs int `json:"spin_us,omitempty"` // batch: every failing attempt of item i ends i*SpinUs microseconds after it began (siblings' waits begin a fraction of a millisecond apart)
	TightDeadlineMs int `json:"tight_deadline_ms,omitempty"` // Cancel == 0: the context carries a deadline this many ms away — long enough for the next wait, too short for all the waits still to come; every gap that is observed must still be a full wait
	PreWaitNs int64 `json:"pre_wait_ns,omitempty"` // > 0: the node is first built with THIS wait and run once; then the wait is re-configured (builder method) to WaitNs and the measured run follows
}

type waitNode struct {
	*flyt.BaseNode
	w *waitRun
}

// waitNodeOverride embeds a BaseNode that carries NO wait and a budget of 1 and brings its own getters.
type waitNodeOverride struct {
	waitNode
	n    int
	wait time.Duration
}

// waitNodeShrinking stops retrying (its budget getter answers 1) once attempt number giveUpAt has been made.
type waitNodeShrinking struct {
	waitNodeOverride
	giveUpAt int
}

func (n *waitNodeShrinking) GetMaxRetries() int {
	n.w.mu.Lock()
	made := len(n.w.starts[0])
	n.w.mu.Unlock()
	if made >= n.giveUpAt {
		return 1
	}
	return n.n
}

func (n *waitNodeOverride) GetMaxRetries() int     { return n.n }
func (n *waitNodeOverride) GetWait() time.Duration { return n.wait }

// retryAfterErr carries a back-off hint of its own (like an HTTP 429 error would): the configured wait still is the lower bound.
type retryAfterErr struct{ d time.Duration }

func (e retryAfterErr) Error() string             { return "rate limited" }
func (e retryAfterErr) RetryAfter() time.Duration { return e.d }

// ownErrCtx wraps a cancellable context and reports an error value of its own once that context is done.
type ownErrCtx struct {
	context.Context
	own error
}

func (c *ownErrCtx) Err() error {
	if c.Context.Err() != nil {
		return c.own
	}
	return nil
}

type waitNodeFB struct{ waitNode }

func (n *waitNodeFB) ExecFallback(p any, err error) (any, error) { return "rescued", nil }

type waitRun struct {
	cs       *WaitCase
	mu       sync.Mutex
	starts   map[int][]time.Time // per item
	ends     map[int][]time.Time
	prepEnd  time.Time
	cancel   func()
	cancelAt time.Time
	visitEnds []time.Time
	failAll  atomic.Bool
}

func (n *waitNode) Prep(ctx context.Context, s *flyt.SharedStore) (any, error) {
	n.w.prepEnd = time.Now()
	return 0, nil
}
func (n *waitNode) Exec(ctx context.Context, p any) (any, error) { return n.w.exec(ctx, 0) }

func (w *waitRun) exec(ctx context.Context, item int) (any, error) {
	t := time.Now()
	w.mu.Lock()
	w.starts[item] = append(w.starts[item], t)
	a := len(w.starts[item])
	w.mu.Unlock()
	var err error
	k := w.cs.K
	if w.failAll.Load() {
		k = 1 << 30 // (the earlier, to-be-cancelled run: every attempt fails)
	}
	if item == 0 && w.cs.K0 > 0 {
		k = w.cs.K0
	}
	if a < k {
		err = fmt.Errorf("attempt %d of item %d fails", a, item)
		switch w.cs.ErrKind {
		case "ctx-timeout":
			err = fmt.Errorf("attempt %d of item %d: per-attempt timeout: %w", a, item, context.DeadlineExceeded)
		case "ctx-canceled":
			err = fmt.Errorf("attempt %d of item %d: sub-operation cancelled: %w", a, item, context.Canceled)
		case "retry-after":
			err = fmt.Errorf("attempt %d of item %d: %w", a, item, retryAfterErr{time.Millisecond})
		case "typed-nil":
			err = (*scen.NilableErr)(nil) // a non-nil error interface holding a nil pointer: a failed attempt like any other
		case "empty-aggregate":
			err = &flyt.BatchError{}
		}
		if w.cs.ExecUs > 0 {
			time.Sleep(time.Duration(w.cs.ExecUs) * time.Microsecond)
		}
		if w.cs.SpinUs > 0 && item > 0 {
			// item i's failing attempts end i*SpinUs later than item 0's (busy loop: sleeps are far coarser than that)
			for t0 := time.Now(); time.Since(t0) < time.Duration(item*w.cs.SpinUs)*time.Microsecond; {
			}
		}
		if item == 1 && a == 1 && w.cs.Slow1Us > 0 {
			time.Sleep(time.Duration(w.cs.Slow1Us) * time.Microsecond)
		}
	}
	if w.cs.Cancel == a && item == 0 && w.cancel != nil {
		if w.cs.InCB {
			w.mu.Lock()
			w.cancelAt = time.Now()
			w.mu.Unlock()
			w.cancel()
		} else {
			go func() {
				time.Sleep(20 * time.Millisecond)
				w.mu.Lock()
				w.cancelAt = time.Now()
				w.mu.Unlock()
				w.cancel()
			}()
		}
	}
	e := time.Now()
	w.mu.Lock()
	w.ends[item] = append(w.ends[item], e)
	w.mu.Unlock()
	if err != nil {
		return nil, err
	}
	return "ok", nil
}

type waitObs struct {
	Gaps        []int64 `json:"gaps_ns"` // start(j+1) - end(j), all items
	MinGapNs    int64   `json:"min_gap_ns"`
	BeforeFirst int64   `json:"before_first_ns"`
	AfterLast   int64   `json:"after_last_ns"`
	ReturnAfterCancelNs int64 `json:"return_after_cancel_ns"`
	Err         string  `json:"err,omitempty"`
	ErrIsCtx    bool    `json:"err_is_ctx"`
	SlotCtx     bool    `json:"slot_ctx"`
	Attempts    int     `json:"attempts"`
	Hung        bool    `json:"hung"`
}

func runWaitCase(cs *WaitCase) (*waitObs, []finding) {
	var fs []finding
	add := func(key, f string, a ...any) { fs = append(fs, finding{key, fmt.Sprintf(f, a...)}) }
	w := &waitRun{cs: cs, starts: map[int][]time.Time{}, ends: map[int][]time.Time{}}
	wait := time.Duration(cs.WaitNs)
	ctx := context.Background()
	if cs.Cancel > 0 && cs.DeadlineMs > 0 {
		c, cf := context.WithTimeout(ctx, time.Duration(cs.DeadlineMs)*time.Millisecond)
		dl, _ := c.Deadline()
		w.cancelAt = dl
		ctx = c
		defer cf()
	} else if cs.Cancel == 0 && cs.TightDeadlineMs > 0 {
		c, cf := context.WithTimeout(ctx, time.Duration(cs.TightDeadlineMs)*time.Millisecond)
		ctx = c
		defer cf()
	} else if cs.Cancel > 0 {
		c, cf := context.WithCancel(ctx)
		if cs.CtxFar {
			c, cf = context.WithTimeout(ctx, 2*time.Hour)
		}
		if cs.CtxNearMs > 0 {
			c, cf = context.WithTimeout(ctx, time.Duration(cs.CtxNearMs)*time.Millisecond)
		}
		if cs.CtxCause {
			cc, ccf := context.WithCancelCause(ctx)
			c, cf = cc, func() { ccf(errors.New("custom cancellation cause")) }
		}
		if cs.CtxOwn { // a hand-written context type: its Err() is an error value of its own ("the context's error" is what the context says)
			c = &ownErrCtx{Context: c, own: errors.New("lease on the work item was lost")}
		}
		ctx, w.cancel = c, cf
		defer cf()
	}
	var node flyt.Node
	var slots []flyt.Result
	if cs.PreWaitNs > 0 {
		wait = time.Duration(cs.PreWaitNs) // the configuration of the earlier run
	}
	switch cs.Kind {
	case "struct":
		wn := waitNode{flyt.NewBaseNode(flyt.WithMaxRetries(cs.N), flyt.WithWait(wait)), w}
		if cs.FB {
			node = &waitNodeFB{wn}
		} else {
			node = &wn
		}
	case "struct-override":
		node = &waitNodeOverride{waitNode{flyt.NewBaseNode(), w}, cs.N, wait}
	case "struct-shrinking": // a node type whose GetMaxRetries gives up (answers 1) once an attempt has met a permanent error
		node = &waitNodeShrinking{waitNodeOverride{waitNode{flyt.NewBaseNode(), w}, cs.N, wait}, cs.GiveUpAt}
	case "func-shrinking": // a builder node whose exec function lowers the budget to 1 (builder method) when it meets a permanent error
		var nb *flyt.NodeBuilder
		nb = flyt.NewNode().WithMaxRetries(cs.N).WithWait(wait).
			WithPrepFuncAny(func(ctx context.Context, s *flyt.SharedStore) (any, error) { w.prepEnd = time.Now(); return 0, nil }).
			WithExecFuncAny(func(ctx context.Context, p any) (any, error) {
				w.mu.Lock()
				a := len(w.starts[0]) + 1
				w.mu.Unlock()
				if a >= cs.GiveUpAt {
					nb.WithMaxRetries(1)
				}
				return w.exec(ctx, 0)
			})
		node = nb
	case "func":
		nb := flyt.NewNode().WithMaxRetries(cs.N).WithWait(wait)
		switch cs.Route {
		case "opt-wait":
			nb = flyt.NewNode(flyt.WithWait(wait)).WithMaxRetries(cs.N)
		case "opt-all":
			nb = flyt.NewNode(flyt.WithWait(wait), flyt.WithMaxRetries(cs.N))
		}
		if cs.WaitInPrep {
			nb = flyt.NewNode().WithMaxRetries(cs.N)
		}
		nbRef := nb
		nb = nb.
			WithPrepFuncAny(func(ctx context.Context, s *flyt.SharedStore) (any, error) {
				if cs.WaitInPrep {
					nbRef.WithWait(wait) // the last setting before the attempts start
				}
				w.prepEnd = time.Now()
				return 0, nil
			}).
			WithExecFuncAny(func(ctx context.Context, v any) (any, error) { return w.exec(ctx, 0) })
		if cs.FB {
			nb = nb.WithExecFallbackFunc(func(any, error) (any, error) { return "rescued", nil })
		}
		node = nb
	case "flow-later-node": // the waiting node is not the flow's start node: cs.Items - 1 pass-through nodes come first
		wn := &waitNode{flyt.NewBaseNode(flyt.WithMaxRetries(cs.N), flyt.WithWait(wait)), w}
		first := flyt.NewNode()
		f := flyt.NewFlow(first)
		var prev flyt.Node = first
		for i := 2; i < cs.Items; i++ {
			nx := flyt.NewNode()
			f.Connect(prev, flyt.DefaultAction, nx)
			prev = nx
		}
		f.Connect(prev, flyt.DefaultAction, wn)
		node = f
	case "flow-retry", "flow-retry-nested":
		// the retry settings sit on a FLOW (its BaseNode: the way the API offers): the flow as a whole is attempted N
		// times around an inner node (budget 1) that fails; between the end of one flow attempt and the start of the
		// next at least w passes, and a cancellation during that wait ends the run promptly
		inner := &waitNode{flyt.NewBaseNode(), w}
		f := flyt.NewFlow(inner)
		flyt.WithMaxRetries(cs.N)(f.BaseNode)
		flyt.WithWait(wait)(f.BaseNode)
		node = f
		if cs.Kind == "flow-retry-nested" {
			node = flyt.NewFlow(f)
		}
	case "flow-self-loop":
		// a node with a wait configured and a budget > 1 whose first attempt always succeeds, visited cs.Items times through a
		// self-loop: every visit is a fresh run of the node — no wait before its first attempt, so no wait at all
		visits := 0
		nb := flyt.NewNode().WithMaxRetries(cs.N).WithWait(wait).
			WithPrepFuncAny(func(ctx context.Context, s *flyt.SharedStore) (any, error) {
				if visits == 0 {
					w.prepEnd = time.Now()
				}
				return 0, nil
			}).
			WithExecFuncAny(func(ctx context.Context, v any) (any, error) { return w.exec(ctx, 0) }).
			WithPostFuncAny(func(ctx context.Context, s *flyt.SharedStore, p, e any) (flyt.Action, error) {
				visits++
				w.mu.Lock()
				w.visitEnds = append(w.visitEnds, time.Now())
				w.mu.Unlock()
				if visits < cs.Items {
					return "again", nil
				}
				return "done", nil
			})
		f := flyt.NewFlow(nb)
		f.Connect(nb, "again", nb)
		node = f
	case "batch":
		var bo []any
		if cs.FB {
			bo = append(bo, flyt.WithExecFallbackFunc(func(any, error) (any, error) { return "rescued", nil }))
		}
		if cs.Stop {
			bo = append(bo, flyt.WithBatchErrorHandling(false))
		}
		bb := flyt.NewBatchNode(bo...).WithMaxRetries(cs.N).WithWait(wait)
		switch cs.Route {
		case "opt-wait":
			bb = flyt.NewBatchNode(append(bo, flyt.WithWait(wait))...).WithMaxRetries(cs.N)
		case "opt-all":
			bb = flyt.NewBatchNode(append(bo, flyt.WithWait(wait), flyt.WithMaxRetries(cs.N))...)
		}
		node = bb.WithBatchConcurrency(cs.C).
			WithPrepFunc(func(ctx context.Context, s *flyt.SharedStore) ([]flyt.Result, error) {
				r := make([]flyt.Result, cs.Items)
				for i := range r {
					r[i] = flyt.NewResult(i)
				}
				w.prepEnd = time.Now()
				return r, nil
			}).
			WithExecFuncAny(func(ctx context.Context, v any) (any, error) { return w.exec(ctx, v.(int)) }).
			WithPostFunc(func(ctx context.Context, s *flyt.SharedStore, it, res []flyt.Result) (flyt.Action, error) {
				slots = res
				return "done", nil
			})
	}
	if cs.AfterCancelledRun {
		// earlier run of the same node object: cancelled while it sits in its first retry wait; what was measured is forgotten
		w.failAll.Store(true)
		ectx, ecancel := context.WithCancel(context.Background())
		edone := make(chan struct{})
		go func() { defer close(edone); _, _ = flyt.Run(ectx, node, flyt.NewSharedStore()) }()
		for i := 0; i < 2000; i++ { // until the first attempt has ended
			w.mu.Lock()
			n := len(w.ends[0])
			w.mu.Unlock()
			if n > 0 {
				break
			}
			time.Sleep(time.Millisecond)
		}
		time.Sleep(30 * time.Millisecond)
		ecancel()
		select {
		case <-edone:
		case <-time.After(20 * time.Second):
			add("earlier-run-hung:"+cs.Kind, "the earlier (cancelled) run did not return")
		}
		w.failAll.Store(false)
		w.mu.Lock()
		w.starts, w.ends = map[int][]time.Time{}, map[int][]time.Time{}
		w.mu.Unlock()
	}
	if cs.PreWaitNs > 0 {
		// earlier run with the earlier wait, then re-configure through the builder method and forget what was measured
		pdone := make(chan struct{})
		go func() { defer close(pdone); _, _ = flyt.Run(context.Background(), node, flyt.NewSharedStore()) }()
		select {
		case <-pdone:
		case <-time.After(30 * time.Second):
			add("hang:"+cs.Kind, "the earlier run (wait %v, budget %d) did not return within 30 s", time.Duration(cs.PreWaitNs), cs.N)
			return &waitObs{MinGapNs: -1, Hung: true}, fs
		}
		wait = time.Duration(cs.WaitNs)
		switch nb := node.(type) {
		case *flyt.NodeBuilder:
			nb.WithWait(wait)
		case *flyt.BatchNodeBuilder:
			nb.WithWait(wait)
		case *waitNode:
			flyt.WithWait(wait)(nb.BaseNode)
		case *waitNodeFB:
			flyt.WithWait(wait)(nb.BaseNode)
		}
		w.mu.Lock()
		w.starts, w.ends = map[int][]time.Time{}, map[int][]time.Time{}
		w.mu.Unlock()
	}
	done := make(chan struct{})
	var err error
	var ret time.Time
	go func() {
		defer close(done)
		_, err = flyt.Run(ctx, node, flyt.NewSharedStore())
		ret = time.Now()
	}()
	o := &waitObs{MinGapNs: -1}
	select {
	case <-done:
	case <-time.After(30 * time.Second):
		o.Hung = true
		if cs.Cancel > 0 {
			add("uninterruptible:"+cs.Kind, "run with a %v retry wait, cancelled after attempt %d, had not returned 30 s later: the wait is not interruptible", wait, cs.Cancel)
		} else {
			add("hang:"+cs.Kind, "run did not return within 30 s (wait %v, budget %d)", wait, cs.N)
		}
		return o, fs
	}
	w.mu.Lock()
	defer w.mu.Unlock()
	if err != nil {
		o.Err = err.Error()
		o.ErrIsCtx = ctx.Err() != nil && errors.Is(err, ctx.Err())
	}
	// ---- lower bound: exact, monotonic clock
	for item, st := range w.starts {
		en := w.ends[item]
		o.Attempts += len(st)
		for j := 1; j < len(st) && cs.Kind != "flow-self-loop"; j++ {
			gap := st[j].Sub(en[j-1])
			o.Gaps = append(o.Gaps, int64(gap))
			if o.MinGapNs < 0 || int64(gap) < o.MinGapNs {
				o.MinGapNs = int64(gap)
			}
			if gap < wait {
				add("gap-too-short:"+cs.Kind, "item %d: attempt %d started %v after attempt %d ended, configured wait is %v", item, j+1, gap, j, wait)
			}
		}
	}
	if st := w.starts[0]; len(st) > 0 && cs.Kind != "batch" {
		o.BeforeFirst = int64(st[0].Sub(w.prepEnd))
		en := w.ends[0]
		o.AfterLast = int64(ret.Sub(en[len(en)-1]))
	}
	if cs.Kind == "flow-self-loop" {
		st := w.starts[0]
		o.BeforeFirst, o.AfterLast = 0, 0
		for v := 1; v < len(st) && v-1 < len(w.visitEnds); v++ {
			if g := int64(st[v].Sub(w.visitEnds[v-1])); g > o.BeforeFirst {
				o.BeforeFirst = g // time between the end of a visit and the first attempt of the next visit of the same node
			}
		}
		o.Gaps = nil
	}
	if cs.Kind == "batch" && cs.Upper {
		// sequential batch: first item's first attempt right after prep; return right after the last attempt of the last item
		var lastEnd time.Time
		for _, en := range w.ends {
			for _, t := range en {
				if t.After(lastEnd) {
					lastEnd = t
				}
			}
		}
		if st := w.starts[0]; len(st) > 0 {
			o.BeforeFirst = int64(st[0].Sub(w.prepEnd))
		}
		o.AfterLast = int64(ret.Sub(lastEnd))
		if cs.C == 0 {
			// sequential: the first attempt of item i+1 follows the last attempt of item i without any wait
			for it := 0; it+1 < cs.Items; it++ {
				en, st := w.ends[it], w.starts[it+1]
				if len(en) > 0 && len(st) > 0 {
					if g := int64(st[0].Sub(en[len(en)-1])); g > o.BeforeFirst {
						o.BeforeFirst = g // worst "before the first attempt" gap over all items
					}
				}
			}
		}
	}
	if cs.Cancel > 0 {
		o.ReturnAfterCancelNs = int64(ret.Sub(w.cancelAt))
		if cs.Kind != "batch" {
			if err == nil {
				add("cancelled-success:"+cs.Kind, "run cancelled during the retry wait after attempt %d returned success", cs.Cancel)
			} else if !o.ErrIsCtx {
				add("cancel-error-not-ctx:"+cs.Kind, "run cancelled during the retry wait returned %q, which does not match the context's error", o.Err)
			}
		} else {
			if err != nil && !o.ErrIsCtx {
				add("cancel-error-not-ctx:batch", "batch cancelled during an item's retry wait returned %q", o.Err)
			}
			if err == nil {
				if len(slots) == 0 || !slots[0].IsError() {
					add("cancelled-item-success:batch", "item 0 was cancelled during its retry wait but its slot is not an error")
				} else if ce := ctx.Err(); ce == nil || !errors.Is(slots[0].Error(), ce) {
					add("cancelled-item-error-not-ctx:batch", "item 0 was cancelled during its retry wait; its slot error %q does not match the context's error", slots[0].Error())
				} else {
					o.SlotCtx = true
				}
			}
		}
		if n := len(w.starts[0]); n > cs.Cancel {
			add("attempt-after-cancel:"+cs.Kind, "a new attempt (%d) was started after the cancellation that followed attempt %d", n, cs.Cancel)
		}
		if cs.DeadlineMs > 0 {
			for item, st := range w.starts {
				if len(st) > 1 {
					add("attempt-after-deadline:"+cs.Kind, "the context's deadline (%d ms) expired while item %d sat in its %v retry wait; attempt %d was started nevertheless instead of ending the wait with the context's error", cs.DeadlineMs, item, time.Duration(cs.WaitNs), len(st))
					break
				}
			}
		}
	}
	return o, fs
}

func init() {
	register(&Engine{Prop: "C20", Doc: "retry wait honoured and interruptible", Run: runC20, Replay: replayC20})
}

// c20Hangs counts the cases of this process whose run did not return (each of them is a finding).
var c20Hangs atomic.Int32

func runC20(c *Cfg) {
	r := c.Rep
	var cases []*WaitCase
	waits := []time.Duration{time.Millisecond, 5 * time.Millisecond, 20 * time.Millisecond, 50 * time.Millisecond}
	maxN := c.Pick(4, 5)
	for _, kind := range []string{"struct", "func"} {
		for _, w := range waits {
			for n := 2; n <= maxN; n++ {
				for k := 1; k <= n+1; k++ {
					if !c.Thorough() && w >= 20*time.Millisecond && k > 1 && k < n {
						continue // quick: for the long waits only the extreme failure sequences
					}
					cases = append(cases, &WaitCase{Family: "lower-bound", Kind: kind, WaitNs: int64(w), N: n, K: k, FB: (n+k)%3 == 0, Route: []string{"", "opt-wait", "opt-all"}[(n+k)%3]})
					if w == 5*time.Millisecond && k > 1 { // attempts that take time before they fail: the wait starts when the attempt ENDS
						cases = append(cases, &WaitCase{Family: "lower-bound-slow-exec", Kind: kind, WaitNs: int64(w), N: n, K: k, ExecUs: 4000})
					}
				}
			}
		}
	}
	for _, w := range waits[1:3] {
		cases = append(cases, &WaitCase{Family: "lower-bound-wait-set-in-prep", Kind: "func", WaitNs: int64(w), N: 3, K: 3, WaitInPrep: true})
		cases = append(cases, &WaitCase{Family: "lower-bound-wait-set-in-prep", Kind: "func", WaitNs: int64(w), N: 2, K: 3, WaitInPrep: true, FB: true})
		for _, kind := range []string{"struct", "func", "batch"} { // errors that carry a (shorter) back-off hint of their own
			cases = append(cases, &WaitCase{Family: "lower-bound-retry-after-errors", Kind: kind, WaitNs: int64(w), N: 3, K: 4, C: 2, Items: 3, ErrKind: "retry-after"})
		}
		cases = append(cases, &WaitCase{Family: "lower-bound-retry-after-errors", Kind: "batch", WaitNs: int64(w), N: 2, K: 3, C: 0, Items: 2, ErrKind: "retry-after"})
	}
	for _, w := range waits[:3] { // nodes that bring their own GetWait / GetMaxRetries (the embedded BaseNode says: no wait, one attempt)
		for n := 2; n <= 3; n++ {
			cases = append(cases, &WaitCase{Family: "lower-bound", Kind: "struct-override", WaitNs: int64(w), N: n, K: n + 1})
			cases = append(cases, &WaitCase{Family: "lower-bound", Kind: "struct-override", WaitNs: int64(w), N: n, K: n})
		}
	}
	cases = append(cases, &WaitCase{Family: "interrupt", Kind: "struct-override", WaitNs: int64(time.Hour), N: 3, K: 4, Cancel: 1, InCB: false})
	for _, cc := range []int{0, 2, 4} {
		for _, w := range waits[:3] {
			for n := 2; n <= 3; n++ {
				cases = append(cases, &WaitCase{Family: "lower-bound-batch", Kind: "batch", WaitNs: int64(w), N: n, K: n, C: cc, Items: 5, Route: []string{"", "opt-wait", "opt-all"}[(n+cc)%3]})
				cases = append(cases, &WaitCase{Family: "lower-bound-batch", Kind: "batch", WaitNs: int64(w), N: n, K: n + 1, C: cc, Items: 3, FB: cc == 2})
				if w == 5*time.Millisecond {
					cases = append(cases, &WaitCase{Family: "lower-bound-ctx-like-errors", Kind: "batch", WaitNs: int64(w), N: n, K: n + 1, C: cc, Items: 3, ErrKind: []string{"ctx-timeout", "ctx-canceled"}[(n+cc/2)%2]})
					cases = append(cases, &WaitCase{Family: "lower-bound-slow-exec", Kind: "batch", WaitNs: int64(w), N: n, K: n + 1, C: cc, Items: 3, ExecUs: 4000})
				}
			}
		}
	}
	// stop mode, concurrent: one item fails for good while its sibling is in the middle of a retry wait —
	// the sibling's waits are still honoured
	for _, w := range []time.Duration{20 * time.Millisecond, 40 * time.Millisecond} {
		cases = append(cases, &WaitCase{Family: "lower-bound-batch-stop", Kind: "batch", WaitNs: int64(w), N: 3, K: 4, C: 2, Items: 2, Stop: true, Slow1Us: int(w / 2 / time.Microsecond)})
		cases = append(cases, &WaitCase{Family: "lower-bound-batch-stop", Kind: "batch", WaitNs: int64(w), N: 4, K: 5, K0: 3, C: 3, Items: 3, Stop: true, Slow1Us: int(w / 3 / time.Microsecond)})
	}
	// failing attempts whose error is a typed nil / an empty aggregate: failed attempts like any other — the wait follows
	for _, ek := range []string{"typed-nil", "empty-aggregate"} {
		for _, kind := range []string{"struct", "func", "batch"} {
			cases = append(cases, &WaitCase{Family: "lower-bound-odd-error-values", Kind: kind, WaitNs: int64(5 * time.Millisecond), N: 3, K: 3, C: 2, Items: 2, ErrKind: ek})
			cases = append(cases, &WaitCase{Family: "lower-bound-odd-error-values", Kind: kind, WaitNs: int64(5 * time.Millisecond), N: 2, K: 3, C: 0, Items: 2, ErrKind: ek, FB: true})
		}
	}
	// siblings whose waits begin a few hundred microseconds apart: each item's own wait is still a full w
	for _, sp := range []int{150, 300, 450, 700} {
		for _, cc := range []int{2, 4} {
			cases = append(cases, &WaitCase{Family: "lower-bound-staggered-siblings", Kind: "batch", WaitNs: int64(20 * time.Millisecond), N: 3, K: 4, C: cc, Items: cc, SpinUs: sp, FB: sp == 300})
		}
	}
	// upper bounds ("no wait before the first attempt or after the last one"): w = 300 ms
	// a waiting node behind one / two transitions of a flow: the lower bound, and the interruption with the context's error
	for _, pos := range []int{2, 3} {
		cases = append(cases, &WaitCase{Family: "lower-bound-node-behind-a-transition", Kind: "flow-later-node", WaitNs: int64(5 * time.Millisecond), N: 3, K: 3, Items: pos})
		for _, in := range []bool{false, true} {
			cases = append(cases, &WaitCase{Family: "interrupt-node-behind-a-transition", Kind: "flow-later-node", WaitNs: int64(time.Hour), N: 3, K: 4, Cancel: 1, InCB: in, Items: pos, CtxFar: in && pos == 3})
		}
		cases = append(cases, &WaitCase{Family: "interrupt-node-behind-a-transition", Kind: "flow-later-node", WaitNs: int64(time.Hour), N: 3, K: 4, Cancel: 1, InCB: true, DeadlineMs: 120, Items: pos})
	}
	// stop mode, concurrent, waits of several hundred milliseconds that are no multiple of any round number
	for _, wn := range []time.Duration{410 * time.Millisecond, 620 * time.Millisecond} {
		cases = append(cases, &WaitCase{Family: "lower-bound-batch-stop-long-wait", Kind: "batch", WaitNs: int64(wn), N: 2, K: 2, C: 2, Items: 3, Stop: true})
	}
	cases = append(cases, &WaitCase{Family: "lower-bound-batch-stop-long-wait", Kind: "batch", WaitNs: int64(333 * time.Millisecond), N: 2, K: 2, C: 3, Items: 3})
	// retry settings on a flow (through its BaseNode): the wait between flow attempts, and its interruption
	for _, kind := range []string{"flow-retry", "flow-retry-nested"} {
		for _, wn := range []time.Duration{5 * time.Millisecond, 20 * time.Millisecond} {
			cases = append(cases, &WaitCase{Family: "lower-bound-flow-level-retries", Kind: kind, WaitNs: int64(wn), N: 3, K: 4, Items: 1})
			cases = append(cases, &WaitCase{Family: "lower-bound-flow-level-retries", Kind: kind, WaitNs: int64(wn), N: 3, K: 3, Items: 1})
		}
		for _, in := range []bool{false, true} {
			cases = append(cases, &WaitCase{Family: "interrupt-flow-level-wait", Kind: kind, WaitNs: int64(time.Hour), N: 3, K: 4, Cancel: 1, InCB: in, Items: 1})
		}
	}
	// wide concurrent batches (16 and more workers AND items): every item's own wait is still a full w
	for _, wc := range [][2]int{{16, 20}, {32, 16}, {24, 40}} {
		cases = append(cases, &WaitCase{Family: "lower-bound-wide-batch", Kind: "batch", WaitNs: int64(20 * time.Millisecond), N: 3, K: 4, C: wc[0], Items: wc[1]})
	}
	// a hand-written context type (its Err() is an error of its own) cancelled during the wait: the run's / the item's
	// error matches THAT error
	for _, kind := range []string{"struct", "func", "batch"} {
		for _, cc := range []int{0, 2} {
			if kind != "batch" && cc > 0 {
				continue
			}
			cases = append(cases, &WaitCase{Family: "interrupt-own-context-type", Kind: kind, WaitNs: int64(time.Hour), N: 3, K: 4, Cancel: 1, InCB: cc == 0, C: cc, Items: 3, CtxOwn: true})
		}
	}
	// the same node right after a run of it was cancelled in the middle of a retry wait: no wait before the first attempt
	for _, kind := range []string{"struct", "func", "struct-override"} {
		cases = append(cases, &WaitCase{Family: "upper-after-cancelled-run", Kind: kind, WaitNs: int64(600 * time.Millisecond), N: 3, K: 1, Upper: true, Items: 1, AfterCancelledRun: true})
	}
	// a node that lowers its own budget while it runs: whichever attempt turns out to be the last, no wait follows it
	for _, kind := range []string{"struct-shrinking", "func-shrinking"} {
		cases = append(cases, &WaitCase{Family: "upper-shrinking-budget", Kind: kind, WaitNs: int64(300 * time.Millisecond), N: 3, K: 4, GiveUpAt: 2, Upper: true, Items: 1})
		cases = append(cases, &WaitCase{Family: "upper-shrinking-budget", Kind: kind, WaitNs: int64(300 * time.Millisecond), N: 4, K: 5, GiveUpAt: 1, Upper: true, Items: 1})
	}
	// sub-millisecond waits for batch items (sequential and concurrent): still a lower bound
	for _, wn := range []time.Duration{250 * time.Microsecond, 600 * time.Microsecond, 999 * time.Microsecond} {
		for _, cc := range []int{0, 1, 3} {
			cases = append(cases, &WaitCase{Family: "lower-bound-batch-sub-millisecond", Kind: "batch", WaitNs: int64(wn), N: 3, K: 4, C: cc, Items: 3, Route: []string{"", "opt-wait", "opt-all"}[cc%3]})
		}
		cases = append(cases, &WaitCase{Family: "lower-bound-sub-millisecond", Kind: "func", WaitNs: int64(wn), N: 3, K: 3}, &WaitCase{Family: "lower-bound-sub-millisecond", Kind: "struct", WaitNs: int64(wn), N: 3, K: 4})
	}
	for _, kind := range []string{"struct", "func", "batch"} {
		cases = append(cases, &WaitCase{Family: "upper", Kind: kind, WaitNs: int64(300 * time.Millisecond), N: 2, K: 1, Upper: true, Items: 2})
		cases = append(cases, &WaitCase{Family: "upper", Kind: kind, WaitNs: int64(300 * time.Millisecond), N: 2, K: 3, Upper: true, Items: 1})
		cases = append(cases, &WaitCase{Family: "upper", Kind: kind, WaitNs: int64(300 * time.Millisecond), N: 5, K: 1, Upper: true, Items: 2})
		if kind == "batch" {
			// item 0 exhausts its budget (one wait), item 1 succeeds at once: no wait may be carried over to item 1
			cases = append(cases, &WaitCase{Family: "upper", Kind: kind, WaitNs: int64(300 * time.Millisecond), N: 2, K: 1, K0: 3, Upper: true, Items: 3})
			// budget 1 with an hour-long wait configured: nothing ever waits
			cases = append(cases, &WaitCase{Family: "no-retries-hour-wait", Kind: kind, WaitNs: int64(time.Hour), N: 1, K: 1, K0: 2, Items: 3})
		}
	}
	// a node revisited through a flow self-loop: every visit starts with a first attempt, which is never preceded by a wait
	for _, nn := range []int{2, 3} {
		cases = append(cases, &WaitCase{Family: "upper", Kind: "flow-self-loop", WaitNs: int64(300 * time.Millisecond), N: nn, K: 1, Upper: true, Items: 4})
	}
	// interruptibility with more items than workers and queue can hold: the submitter is blocked when the cancellation comes
	for _, in := range []bool{false, true} {
		cases = append(cases, &WaitCase{Family: "interrupt-saturated", Kind: "batch", WaitNs: int64(time.Hour), N: 3, K: 4, Cancel: 1, InCB: in, C: 2, Items: 12})
		cases = append(cases, &WaitCase{Family: "interrupt-saturated", Kind: "batch", WaitNs: int64(time.Hour), N: 2, K: 3, Cancel: 1, InCB: in, C: 1, Items: 7, Stop: true})
	}
	// interruptibility: 1-hour wait, cancelled after the first attempt (later attempt indices cannot be reached
	// through an hour-long wait), from a helper goroutine 20 ms later and from inside the callback
	for _, kind := range []string{"struct", "func", "batch"} {
		for n := 2; n <= maxN; n++ {
			for _, in := range []bool{false, true} {
				for _, cc := range []int{0, 2} {
					if kind != "batch" && cc != 0 {
						continue
					}
					cases = append(cases, &WaitCase{Family: "interrupt", Kind: kind, WaitNs: int64(time.Hour), N: n, K: n + 1, Cancel: 1, InCB: in, C: cc, Items: 3})
					cases = append(cases, &WaitCase{Family: "interrupt", Kind: kind, WaitNs: int64(time.Hour), N: n, K: n + 1, Cancel: 1, InCB: in, C: cc, Items: 3, FB: true, CtxFar: n%2 == 0})
					cases = append(cases, &WaitCase{Family: "interrupt", Kind: kind, WaitNs: int64(time.Hour), N: n, K: n + 1, Cancel: 1, InCB: in, C: cc, Items: 3, CtxFar: true})
					cases = append(cases, &WaitCase{Family: "interrupt", Kind: kind, WaitNs: int64(time.Hour), N: n, K: n + 1, Cancel: 1, InCB: in, C: cc, Items: 3, CtxCause: true})
					cases = append(cases, &WaitCase{Family: "interrupt-deadline-inside-the-wait", Kind: kind, WaitNs: int64(time.Hour), N: n, K: n + 1, Cancel: 1, InCB: in, C: cc, Items: 3, CtxNearMs: 20000, Stop: cc == 2})
					if kind == "batch" {
						cases = append(cases, &WaitCase{Family: "interrupt-stop-mode", Kind: kind, WaitNs: int64(time.Hour), N: n, K: n + 1, Cancel: 1, InCB: in, C: cc, Items: 3, Stop: true})
						cases = append(cases, &WaitCase{Family: "interrupt-stop-mode", Kind: kind, WaitNs: int64(time.Hour), N: n, K: n + 1, Cancel: 1, DeadlineMs: 100, InCB: true, C: cc, Items: 2, Stop: true})
					}
				}
			}
		}
	}
	// the context's own deadline expires inside the hour-long wait (nobody calls cancel)
	for _, kind := range []string{"struct", "func", "batch"} {
		for _, cc := range []int{0, 2} {
			if kind != "batch" && cc != 0 {
				continue
			}
			for _, fb := range []bool{false, true} {
				cases = append(cases, &WaitCase{Family: "interrupt-by-deadline", Kind: kind, WaitNs: int64(time.Hour), N: 3, K: 4, Cancel: 1, InCB: true, DeadlineMs: 120, C: cc, Items: 3, FB: fb, Stop: cc == 2 && fb})
			}
		}
	}
	// the wait is re-configured after the node has run once: the wait in force now is the one that is honoured
	for _, kind := range []string{"struct", "func", "batch"} {
		for _, cc := range []int{0, 2} {
			if kind != "batch" && cc != 0 {
				continue
			}
			cases = append(cases, &WaitCase{Family: "lower-bound-after-reconfiguration", Kind: kind, WaitNs: int64(20 * time.Millisecond), PreWaitNs: int64(time.Millisecond), N: 3, K: 3, C: cc, Items: 3})
			cases = append(cases, &WaitCase{Family: "lower-bound-after-reconfiguration", Kind: kind, WaitNs: int64(15 * time.Millisecond), PreWaitNs: int64(time.Millisecond), N: 2, K: 3, C: cc, Items: 2, Route: "opt-all"})
		}
	}
	// later attempt indices: a 400 ms wait is really waited out j-1 times, then cancelled 20 ms into the j-th wait;
	// the remainder (380 ms) must not be slept out
	lateJ := []int{2}
	if c.Thorough() {
		lateJ = []int{2, 3, 4}
	}
	for _, kind := range []string{"struct", "func", "batch"} {
		for _, j := range lateJ {
			cases = append(cases, &WaitCase{Family: "interrupt-late", Kind: kind, WaitNs: int64(400 * time.Millisecond), N: j + 1, K: j + 2, Cancel: j, C: 2, Items: 2, FB: j%2 == 0})
			if kind == "batch" {
				cases = append(cases, &WaitCase{Family: "interrupt-late", Kind: kind, WaitNs: int64(400 * time.Millisecond), N: j + 1, K: j + 2, Cancel: j, C: 0, Items: 2, Stop: true})
			}
		}
	}
	// waits far beyond an hour (just above 2^32 and 2^33 microseconds, and a week): still waits, still interruptible
	for _, kind := range []string{"struct", "func", "batch"} {
		for _, wms := range []int64{4294970, 8589940, 7 * 24 * 3600 * 1000} {
			for _, in := range []bool{false, true} {
				cases = append(cases, &WaitCase{Family: "interrupt-very-long-wait", Kind: kind, WaitNs: wms * int64(time.Millisecond), N: 3, K: 4, Cancel: 1, InCB: in, C: 2, Items: 2})
			}
		}
	}
	// a deadline that leaves room for the next wait but not for all of them: the waits that do happen are full waits
	for _, kind := range []string{"struct", "func", "batch"} {
		for _, wd := range [][2]int{{100, 250}, {40, 100}, {60, 200}} {
			for _, fb := range []bool{false, true} {
				cases = append(cases, &WaitCase{Family: "deadline-shorter-than-all-waits", Kind: kind, WaitNs: int64(wd[0]) * int64(time.Millisecond), N: 4, K: 5, TightDeadlineMs: wd[1], C: 0, Items: 1, FB: fb})
			}
		}
	}
	parallelN(c, len(cases), 24, func(i int) {
		cs := cases[i]
		if c20Hangs.Load() >= 3 {
			// three runs have already been reported as never returning: the rest of the list would only wait out the same 30 s again and again
			r.Count("skipped_after_three_hangs", 1)
			return
		}
		o, fs := runWaitCase(cs)
		if o.Hung {
			c20Hangs.Add(1)
		}
		if cs.Family == "interrupt-late" && !o.Hung {
			slept := func(o *waitObs, w int64) bool { return o.ReturnAfterCancelNs >= w/2 }
			cur := *cs
			o2 := o
			tries := 0
			for slept(o2, cur.WaitNs) && tries < 3 {
				cur.WaitNs *= 2
				o2, _ = runWaitCase(&cur)
				r.Count("interrupt_late.reruns", 1)
				tries++
			}
			if slept(o2, cur.WaitNs) {
				fs = append(fs, finding{"slept-out-remainder:" + cs.Kind, fmt.Sprintf("cancelled 20 ms into the wait after attempt %d (wait %v), the run returned only %v after the cancellation: the remainder of the wait was slept out (confirmed with the wait doubled 3 times)", cs.Cancel, time.Duration(cs.WaitNs), time.Duration(o.ReturnAfterCancelNs))})
			}
		}
		// upper-bound clauses: re-run with doubled w before reporting
		if cs.Upper && !o.Hung {
			bad := func(o *waitObs, w int64) string {
				if cs.AfterCancelledRun && o.BeforeFirst >= w/2 {
					// (the earlier run was cancelled 30 ms into its wait: whatever it left behind is at most w - 30 ms long)
					return fmt.Sprintf("first attempt started %v after prep on a node whose previous run was cancelled in the middle of a %v retry wait: (the rest of) that wait was applied before the first attempt of the NEXT run", time.Duration(o.BeforeFirst), time.Duration(w))
				}
				if o.BeforeFirst >= w {
					return fmt.Sprintf("first attempt started %v after prep, i.e. the configured wait (%v) was applied before the first attempt", time.Duration(o.BeforeFirst), time.Duration(w))
				}
				if o.AfterLast >= w {
					return fmt.Sprintf("run returned %v after the last attempt ended, i.e. the configured wait (%v) was applied after the last attempt", time.Duration(o.AfterLast), time.Duration(w))
				}
				return ""
			}
			msg := bad(o, cs.WaitNs)
			tries := 0
			cur := *cs
			for msg != "" && tries < 3 {
				cur.WaitNs *= 2
				o2, _ := runWaitCase(&cur)
				r.Count("upper.reruns", 1)
				msg = bad(o2, cur.WaitNs)
				tries++
			}
			if msg != "" {
				key := "wait-before-first:"
				if o.BeforeFirst < cs.WaitNs && !cs.AfterCancelledRun {
					key = "wait-after-last:"
				}
				fs = append(fs, finding{key + cs.Kind, msg + " (confirmed 3 more times with the wait doubled each time)"})
			}
			r.Count("upper.cases", 1)
			r.HighWater("upper.max_before_first_us", o.BeforeFirst/1000)
			r.HighWater("upper.max_after_last_us", o.AfterLast/1000)
		}
		r.Eval()
		r.Count("cases."+cs.Family, 1)
		r.Count("gaps_measured", int64(len(o.Gaps)))
		r.Count("attempts", int64(o.Attempts))
		if cs.Cancel > 0 {
			r.Count("cancelled_during_wait", 1)
			r.HighWater("max_return_after_cancel_ms", o.ReturnAfterCancelNs/1e6)
		}
		for _, f := range fs {
			r.Violate("C20", "C20:"+f.key, f.detail, cs)
		}
		if len(o.Gaps) > 0 || cs.Cancel > 0 || cs.Upper {
			b, _ := json.Marshal(cs)
			r.Nontrivial(string(b))
		}
		if len(o.Gaps) >= 2 && r.SampleWanted(cs.Family) {
			r.Sample(cs.Family, map[string]any{"case": cs, "observed": o})
		}
	})
}

// parallelN is parallel with a fixed number of goroutines (the cases mostly sleep).
func parallelN(c *Cfg, n, workers int, fn func(i int)) {
	cc := *c
	cc.Workers = workers
	parallel(&cc, n, fn)
}

func replayC20(c *Cfg, spec json.RawMessage) {
	var cs WaitCase
	if err := json.Unmarshal(spec, &cs); err != nil {
		fmt.Println("cannot parse:", err)
		return
	}
	o, fs := runWaitCase(&cs)
	b, _ := json.MarshalIndent(o, "", " ")
	fmt.Println(string(b))
	for _, f := range fs {
		fmt.Printf(" * finding %s: %s\n", f.key, f.detail)
		c.Rep.Violate("C20", "C20:"+f.key, f.detail, cs)
	}
}
