package engines

import (
	"encoding/json"
	"fmt"
	"sort"
	"sync/atomic"
	"time"

	flyt "github.com/mark3labs/flyt"

	"verif/harness/internal/zoo"
)

// StoreStep is one step of a store sequence (replayable: values are zoo indices).
type StoreStep struct {
	Op  string `json:"op"`
	Key int    `json:"key,omitempty"`
	Val int    `json:"val,omitempty"`
	Arg []int  `json:"arg,omitempty"` // merge: key,val pairs; snapshot ops: snapshot index, key / position
}

type StoreCase struct {
	Family  string      `json:"family"`
	Steps   []StoreStep `json:"steps"`
	Prefill int         `json:"prefill,omitempty"` // > 0: the store first receives this many filler keys through one Merge (size-dependent behaviour)
}

var sharedZooLen = c14Zoo()

// c14Zoo: the fixed zoo plus values whose dynamic type is the library's own Result (a struct like any other: the
// store keeps what it is given, through Set and through Merge).
func c14Zoo() []zoo.Named {
	return append(zoo.Fixed(),
		zoo.Named{Name: "result-of-int", V: flyt.NewResult(42)}, zoo.Named{Name: "result-of-slice", V: flyt.NewResult([]int{1})},
		zoo.Named{Name: "error-result", V: flyt.NewErrorResult(fmt.Errorf("e"))}, zoo.Named{Name: "zero-result", V: flyt.Result{}}, zoo.Named{Name: "ptr-result", V: &flyt.Result{}})
}

var storeKeys = []string{"", "a", "b", "ключ", "k\x00z", "日本語", "a b", "A", "é", "é", "__flyt.state", "__flyt.", "_private", ".hidden", "flyt.internal"} // (the last five: names that LOOK reserved are names like any other)

type snapshot struct {
	m      map[string]any // what the store handed out (GetAll) — nil for Keys snapshots
	keys   []string       // what the store handed out (Keys)
	wantM  map[string]any // what it must still look like
	wantK  []string
	origin int
}

// genChurnCase: many distinct keys set and deleted again (every Delete removes a present key), few live keys at
// any time — size- and count-dependent behaviour inside the store (compaction, caches) gets exercised.
func genChurnCase(c *Cfg, i int) *StoreCase {
	rg := c.Rng("c14churn", i)
	cs := &StoreCase{Family: "churn"}
	nz := len(c14Zoo())
	live := []int{}
	n := 120 + rg.IntN(81)
	for j := 0; j < n; j++ {
		if len(live) > 0 && (rg.IntN(2) == 0 || len(live) > 6) {
			x := rg.IntN(len(live))
			cs.Steps = append(cs.Steps, StoreStep{Op: "delete", Key: live[x]})
			live = append(live[:x], live[x+1:]...)
			continue
		}
		k := len(storeKeys) + rg.IntN(60)
		cs.Steps = append(cs.Steps, StoreStep{Op: "set", Key: k, Val: rg.IntN(nz)})
		dup := false
		for _, l := range live {
			if l == k {
				dup = true
			}
		}
		if !dup {
			live = append(live, k)
		}
		if rg.IntN(25) == 0 {
			cs.Steps = append(cs.Steps, StoreStep{Op: "getall"})
		}
	}
	return cs
}

// keyName maps a key index to a key: the fixed hostile keys first, then "c<N>".
func keyName(i int) string {
	if i < len(storeKeys) {
		return storeKeys[i]
	}
	return fmt.Sprintf("c%d", i)
}

func genStoreCase(c *Cfg, i int, maxLen int) *StoreCase {
	rg := c.Rng("c14", i)
	n := 1 + rg.IntN(maxLen)
	nz := len(c14Zoo())
	cs := &StoreCase{Family: "sequence"}
	ops := []string{"other-store", "merge-bulk", "set", "set", "set", "delete", "delete-missing", "merge", "merge-nil", "merge-own-getall", "merge-snapshot", "clear", "set-after-clear", "getall", "keys", "snap-set", "snap-delete", "keys-overwrite", "set-nil", "read-typed", "read-typed"}
	for j := 0; j < n; j++ {
		st := StoreStep{Op: ops[rg.IntN(len(ops))], Key: rg.IntN(len(storeKeys)), Val: rg.IntN(nz)}
		switch st.Op {
		case "merge":
			k := rg.IntN(5)
			for x := 0; x < k; x++ {
				st.Arg = append(st.Arg, rg.IntN(len(storeKeys)), rg.IntN(nz))
			}
		case "merge-snapshot", "snap-set", "snap-delete", "keys-overwrite":
			st.Arg = []int{rg.IntN(8), rg.IntN(len(storeKeys))}
		}
		if st.Op == "clear" && rg.IntN(3) != 0 {
			st.Op = "set" // keep clears rare so that the store fills up
		}
		cs.Steps = append(cs.Steps, st)
	}
	return cs
}

// runStoreCase executes the sequence in lock-step with a reference map and returns the first discrepancy.
func runStoreCase(cs *StoreCase) (key, detail string, stats map[string]int) {
	return runStoreCaseWith(cs, c14Zoo(), nil)
}

// storeProbe is called after every step with the store and the reference map.
type storeProbe func(si int, st StoreStep, s *flyt.SharedStore, ref map[string]any) (key, detail string)

func runStoreCaseWith(cs *StoreCase, z []zoo.Named, probe storeProbe) (key, detail string, stats map[string]int) {
	return runStoreCaseProg(cs, z, probe, nil)
}

// runStoreCaseGuarded runs the sequence on its own goroutine: a store call that never returns (the goroutine is
// parked on a lock although nobody else has the store) is a verdict — the store stopped answering, a map never does.
func runStoreCaseGuarded(cs *StoreCase) (key, detail string, stats map[string]int, incon bool) {
	var prog atomic.Int64
	prog.Store(-1)
	var k, d string
	var st map[string]int
	stuck, state, inc := guarded(10*time.Second, func() { k, d, st = runStoreCaseProg(cs, c14Zoo(), nil, &prog) })
	if stuck {
		si := int(prog.Load())
		op := "?"
		if si >= 0 && si < len(cs.Steps) {
			op = cs.Steps[si].Op
		}
		return "stopped-answering", fmt.Sprintf("step %d (%s): the call into the store never returned — its goroutine is parked in %s and no other goroutine has this store; a plain map answers every operation, also after a read that failed", si, op, state), map[string]int{}, false
	}
	if inc {
		return "", "", map[string]int{}, true
	}
	return k, d, st, false
}

func runStoreCaseProg(cs *StoreCase, z []zoo.Named, probe storeProbe, prog *atomic.Int64) (key, detail string, stats map[string]int) {
	stats = map[string]int{}
	// a second, independently built instance of the same value list: equal contents, distinct containers — an
	// overwrite with an equal-looking value is still an overwrite
	var z2 []zoo.Named
	if len(z) == len(sharedZooLen) {
		z2 = c14Zoo()
	}
	s := flyt.NewSharedStore()
	ref := map[string]any{}
	var snaps []*snapshot
	var others []*flyt.SharedStore // stores created along the way (kept alive for a while)
	fail := func(k, f string, a ...any) (string, string, map[string]int) {
		return k, fmt.Sprintf(f, a...), stats
	}
	defer func() {
		if p := recover(); p != nil {
			key, detail = "panic", fmt.Sprint(p)
		}
	}()
	if cs.Prefill > 0 {
		m := make(map[string]any, cs.Prefill)
		for i := 0; i < cs.Prefill; i++ {
			m[fmt.Sprintf("filler-%d", i)] = i
		}
		s.Merge(m)
		for kk, vv := range m {
			ref[kk] = vv
		}
		stats["prefilled_keys"] = cs.Prefill
	}
	for si, st := range cs.Steps {
		if prog != nil {
			prog.Store(int64(si))
		}
		k := keyName(st.Key)
		v := z[st.Val%len(z)].V
		if z2 != nil && (si+st.Val)%2 == 1 {
			v = z2[st.Val%len(z2)].V
		}
		stats["op."+st.Op]++
		switch st.Op {
		case "set":
			s.Set(k, v)
			ref[k] = v
		case "read-typed": // reads — typed getters and Bind — never change what the store holds
			func() {
				defer func() { recover() }() // totality of the accessors is C15's subject
				_ = s.GetSlice(k)
				_ = s.GetSliceOr(k, nil)
				_ = s.GetInt(k)
				_ = s.GetFloat64(k)
				_ = s.GetString(k)
				_ = s.GetBool(k)
				_ = s.GetMap(k)
				var a any
				_ = s.Bind(k, &a)
				// into destinations of other types as well (may fail: a failed read is still only a read)
				var t struct{ X int }
				_ = s.Bind(k, &t)
				var m map[string]string
				_ = s.Bind(k, &m)
				var sl []float32
				_ = s.Bind(k, &sl)
				_ = s.Bind("never-set", &t)
				// the Or-variants with non-nil defaults, on this key and on a key that was never set
				for _, kk := range []string{k, "never-set"} {
					_ = s.GetMapOr(kk, map[string]any{"default": true})
					_ = s.GetSliceOr(kk, []any{"default"})
					_ = s.GetStringOr(kk, "default")
					_ = s.GetIntOr(kk, 7)
					_ = s.GetFloat64Or(kk, 7.5)
					_ = s.GetBoolOr(kk, true)
				}
				if s.Has("never-set") {
					panic("never-set") // (re-raised below as a finding)
				}
			}()
			if s.Has("never-set") {
				return "read-created-a-key", fmt.Sprintf("step %d (%s): after a series of typed reads (plain and Or-default getters, Bind) the store holds the key \"never-set\", which nobody ever set: a read is only a read", si, st.Op), stats
			}
		case "other-store": // another store comes into being, is filled, cleared and dropped next to this one: two stores share nothing
			o := flyt.NewSharedStore()
			o.Set(k, "other store's value")
			o.Merge(map[string]any{"x": 1, k: 2})
			o.Clear()
			o.Set("left behind", si)
			others = append(others, o)
			if len(others) > 3 {
				others = others[1:]
			}
		case "set-nil":
			s.Set(k, nil)
			ref[k] = nil
		case "mutate-in-place": // the caller keeps a reference to what it stored and updates it in place
			switch x := ref[k].(type) {
			case []int:
				if len(x) > 0 {
					x[0] += 1000
					stats["in_place_mutations"]++
				}
			case []string:
				if len(x) > 0 {
					x[0] += "'"
					stats["in_place_mutations"]++
				}
			case []any:
				if len(x) > 0 {
					x[0] = si
					stats["in_place_mutations"]++
				}
			case map[string]any:
				if x != nil {
					x["mutated"] = si
					stats["in_place_mutations"]++
				}
			case map[string]int:
				if x != nil {
					x["mutated"] = si
					stats["in_place_mutations"]++
				}
			}
		case "delete":
			s.Delete(k)
			delete(ref, k)
		case "delete-missing":
			s.Delete("no-such-key")
		case "merge":
			m := map[string]any{}
			for x := 0; x+1 < len(st.Arg); x += 2 {
				m[storeKeys[st.Arg[x]%len(storeKeys)]] = z[st.Arg[x+1]%len(z)].V
			}
			before := len(m)
			s.Merge(m)
			for kk, vv := range m {
				ref[kk] = vv
			}
			if len(m) != before {
				return fail("merge-mutates-argument", "step %d: Merge changed the map passed to it", si)
			}
		case "merge-bulk": // 70..200 entries at once, nil values and keys that already exist among them
			m := map[string]any{}
			nb := 70 + (st.Val*7)%131
			for x := 0; x < nb; x++ {
				kk := keyName(len(storeKeys) + (st.Key*31+x)%90)
				if x < len(storeKeys) {
					kk = storeKeys[x]
				}
				vv := z[(st.Val+x)%len(z)].V
				if x%5 == 0 {
					vv = nil // a nil value overwrites like any other (only a nil MAP is ignored by Merge)
				}
				m[kk] = vv
			}
			s.Merge(m)
			for kk, vv := range m {
				ref[kk] = vv
			}
			stats["bulk_merges"]++
		case "merge-nil":
			s.Merge(nil)
		case "merge-own-getall":
			s.Merge(s.GetAll())
		case "merge-snapshot":
			if len(snaps) > 0 {
				sn := snaps[st.Arg[0]%len(snaps)]
				if sn.m != nil {
					s.Merge(sn.m) // alias of an earlier GetAll result
					for kk, vv := range sn.m {
						ref[kk] = vv
					}
				}
			}
		case "clear":
			s.Clear()
			ref = map[string]any{}
		case "set-after-clear":
			s.Clear()
			ref = map[string]any{}
			s.Set(k, v)
			ref[k] = v
		case "getall":
			m := s.GetAll()
			if m == nil {
				return fail("getall-nil-map", "step %d: GetAll returned a nil map (store has %d entries): the snapshot is a map of the caller's own, which the caller may write into — a copy of a plain map is never nil", si, len(ref))
			}
			want := map[string]any{}
			for kk, vv := range m {
				want[kk] = vv
			}
			snaps = append(snaps, &snapshot{m: m, wantM: want, origin: si})
			stats["snapshots"]++
		case "keys":
			ks := s.Keys()
			snaps = append(snaps, &snapshot{keys: ks, wantK: append([]string(nil), ks...), origin: si})
			stats["snapshots"]++
		case "snap-set": // mutate a handed-out map: must not reach the store
			if len(snaps) > 0 {
				sn := snaps[st.Arg[0]%len(snaps)]
				if sn.m != nil {
					kk := storeKeys[st.Arg[1]%len(storeKeys)]
					sn.m[kk] = v
					sn.wantM[kk] = v
					stats["snapshot_mutations"]++
				}
			}
		case "snap-delete":
			if len(snaps) > 0 {
				sn := snaps[st.Arg[0]%len(snaps)]
				if sn.m != nil {
					kk := storeKeys[st.Arg[1]%len(storeKeys)]
					delete(sn.m, kk)
					delete(sn.wantM, kk)
					stats["snapshot_mutations"]++
				}
			}
		case "keys-overwrite":
			if len(snaps) > 0 {
				sn := snaps[st.Arg[0]%len(snaps)]
				if sn.keys != nil && len(sn.keys) > 0 {
					p := st.Arg[1] % len(sn.keys)
					sn.keys[p] = "overwritten"
					sn.wantK[p] = "overwritten"
					stats["snapshot_mutations"]++
				}
			}
		}
		if len(snaps) > 8 {
			snaps = snaps[len(snaps)-8:]
		}
		if probe != nil { // the caller's own predicates first (they belong to the caller's property)
			if pk, pd := probe(si, st, s, ref); pk != "" {
				return pk, pd, stats
			}
		}
		// --- the store's answers against the reference map
		if s.Len() != len(ref) {
			return fail("len", "step %d (%s): Len()=%d, reference map has %d entries", si, st.Op, s.Len(), len(ref))
		}
		probeKeys := append([]string{"never-set", k, "a.a", "a.b", "A.a", "b.mutated"}, storeKeys...) // dotted names are just names
		for _, kk := range probeKeys {
			rv, rok := ref[kk]
			gv, gok := s.Get(kk)
			if gok != rok || s.Has(kk) != rok {
				return fail("presence", "step %d (%s): key %q present: Get=%v Has=%v, reference=%v", si, st.Op, kk, gok, s.Has(kk), rok)
			}
			if rok && !zoo.Same(gv, rv) {
				return fail("value", "step %d (%s): key %q holds %s, reference holds %s", si, st.Op, kk, zoo.Describe(gv), zoo.Describe(rv))
			}
		}
		ks := s.Keys()
		sort.Strings(ks)
		var rks []string
		for kk := range ref {
			rks = append(rks, kk)
		}
		sort.Strings(rks)
		if fmt.Sprint(ks) != fmt.Sprint(rks) || len(ks) != len(rks) {
			return fail("keys", "step %d (%s): Keys()=%q, reference keys %q", si, st.Op, ks, rks)
		}
		all := s.GetAll()
		if len(all) != len(ref) {
			return fail("getall", "step %d (%s): GetAll has %d entries, reference %d", si, st.Op, len(all), len(ref))
		}
		for kk, rv := range ref {
			av, ok := all[kk]
			if !ok || !zoo.Same(av, rv) {
				return fail("getall", "step %d (%s): GetAll[%q]=%s, reference %s", si, st.Op, kk, zoo.Describe(av), zoo.Describe(rv))
			}
		}
		// --- snapshots handed out earlier must look exactly as they did (plus our own mutations)
		for _, sn := range snaps {
			if sn.m != nil {
				if len(sn.m) != len(sn.wantM) {
					return fail("snapshot-map-changed", "step %d (%s): the map returned by GetAll at step %d changed size %d -> %d after a later store update", si, st.Op, sn.origin, len(sn.wantM), len(sn.m))
				}
				for kk, wv := range sn.wantM {
					if gv, ok := sn.m[kk]; !ok || !zoo.Same(gv, wv) {
						return fail("snapshot-map-changed", "step %d (%s): entry %q of the map returned by GetAll at step %d changed after a later store update", si, st.Op, kk, sn.origin)
					}
				}
			} else {
				if fmt.Sprint(sn.keys) != fmt.Sprint(sn.wantK) || len(sn.keys) != len(sn.wantK) {
					return fail("snapshot-keys-changed", "step %d (%s): the slice returned by Keys at step %d changed: %q -> %q", si, st.Op, sn.origin, sn.wantK, sn.keys)
				}
			}
		}
		stats["steps"]++
	}
	return "", "", stats
}

func init() {
	register(&Engine{Prop: "C14", Doc: "store vs map, snapshot isolation", Run: runC14, Replay: replayC14})
}

func runC14(c *Cfg) {
	runSpecial(c, "C14", "keys-append-isolation")
	runSpecial(c, "C14", "large-and-odd-key-populations")
	r := c.Rep
	var stuckSeen atomic.Bool
	n := c.Pick(8000, 500000)
	parallel(c, n, func(i int) {
		cs := genStoreCase(c, i, 200)
		if i%5 == 4 {
			cs = genChurnCase(c, i)
		}
		if i%64 == 37 {
			cs = signedZeroCase(c14Zoo(), i/64*40+7)
		}
		if i%64 == 21 {
			cs = genStoreCase(c, i, 60)
			cs.Family, cs.Prefill = "large-store", []int{1000, 1025, 2048, 5000, 513, 600}[(i/64)%6]
			if (i/64)%2 == 0 {
				// a large store is cleared and a snapshot taken (and written into) before anything is stored again
				head := []StoreStep{{Op: "clear"}, {Op: "getall"}, {Op: "snap-set", Key: 1, Val: 3, Arg: []int{0, 1}}, {Op: "keys"}, {Op: "set", Key: 2, Val: 5}, {Op: "getall"}}
				cs.Steps = append(head, cs.Steps...)
			}
			r.Count("large_store.sequences", 1)
		}
		if stuckSeen.Load() {
			return
		}
		key, detail, stats, incon := runStoreCaseGuarded(cs)
		r.Eval()
		if incon {
			r.Incon("a store sequence did not finish and its goroutine was not parked on a lock")
			return
		}
		if key == "stopped-answering" {
			stuckSeen.Store(true)
		}
		for k, v := range stats {
			r.Count(k, int64(v))
		}
		if key != "" {
			r.Violate("C14", "C14:"+key, detail, cs)
		}
		if cs.Family == "churn" {
			r.Count("churn.sequences", 1)
			r.Count("churn.effective_deletes", int64(stats["op.delete"]))
		}
		if stats["snapshot_mutations"] > 0 || stats["snapshots"] > 1 || cs.Family == "churn" {
			b, _ := json.Marshal(cs.Steps)
			r.Nontrivial(string(b))
		}
		if len(cs.Steps) <= 12 && stats["snapshot_mutations"] > 1 && r.SampleWanted("sequence") {
			r.Sample("sequence", cs)
		}
	})
}

func replayC14(c *Cfg, spec json.RawMessage) {
	var cs StoreCase
	if err := json.Unmarshal(spec, &cs); err != nil {
		fmt.Println("cannot parse:", err)
		return
	}
	key, detail, stats, _ := runStoreCaseGuarded(&cs)
	fmt.Println("stats:", stats)
	if key != "" {
		fmt.Printf(" * finding %s: %s\n", key, detail)
		c.Rep.Violate("C14", "C14:"+key, detail, cs)
	}
}
