package engines

import (
	"context"
	"encoding/json"
	"errors"
	"fmt"
	"os"
	"sync"
	"sync/atomic"
	"time"

	flyt "github.com/mark3labs/flyt"

	"verif/harness/internal/quiesce"
)

// Small dedicated scenarios that need Go types the scripted kinds cannot express: value-type nodes whose value is the
// zero value, nodes without a Post of their own, and distinct node types that print the same type name.

var zeroValMu sync.Mutex
var zeroValVisits []string

// stampNode is a value-type node without any state: every stampNode{} equals every other.
type stampNode struct{}

func (stampNode) Prep(ctx context.Context, s *flyt.SharedStore) (any, error) { return nil, nil }
func (stampNode) Exec(ctx context.Context, p any) (any, error) {
	zeroValVisits = append(zeroValVisits, "stamp")
	return nil, nil
}
func (stampNode) Post(ctx context.Context, s *flyt.SharedStore, p, e any) (flyt.Action, error) {
	return flyt.DefaultAction, nil
}

type tagNode struct{ id int } // value-type node; tagNode{0} is its zero value

func (t tagNode) Prep(ctx context.Context, s *flyt.SharedStore) (any, error) { return nil, nil }
func (t tagNode) Exec(ctx context.Context, p any) (any, error) {
	zeroValVisits = append(zeroValVisits, fmt.Sprint("tag", t.id))
	return nil, nil
}
func (t tagNode) Post(ctx context.Context, s *flyt.SharedStore, p, e any) (flyt.Action, error) {
	return "next", nil
}

// zeroValueNodeRoutes: value-type nodes whose value is the type's zero value are nodes like any other — as start
// node, as connection target, and when a pair is re-connected from nil to them.
func zeroValueNodeRoutes() (fs []finding) {
	zeroValMu.Lock()
	defer zeroValMu.Unlock()
	run := func(name string, build func() *flyt.Flow, want string) {
		zeroValVisits = nil
		var err error
		func() {
			defer func() {
				if p := recover(); p != nil {
					err = fmt.Errorf("panic: %v", p)
				}
			}()
			err = build().Run(context.Background(), flyt.NewSharedStore())
		}()
		if got := fmt.Sprint(zeroValVisits); err != nil || got != want {
			fs = append(fs, finding{"zero-value-node:" + name, fmt.Sprintf("%s: nodes executed %s (err %v), the table determines %s — a node whose Go value happens to be its type's zero value is still a node", name, got, err, want)})
		}
	}
	run("target", func() *flyt.Flow {
		f := flyt.NewFlow(tagNode{1})
		f.Connect(tagNode{1}, "next", stampNode{})
		f.Connect(stampNode{}, flyt.DefaultAction, tagNode{2})
		return f
	}, "[tag1 stamp tag2]")
	run("start", func() *flyt.Flow {
		f := flyt.NewFlow(tagNode{0})
		f.Connect(tagNode{0}, "next", tagNode{3})
		return f
	}, "[tag0 tag3]")
	run("reconnected-from-nil", func() *flyt.Flow {
		f := flyt.NewFlow(tagNode{1})
		f.Connect(tagNode{1}, "next", nil)
		f.Connect(tagNode{1}, "next", tagNode{0})
		return f
	}, "[tag1 tag0]")
	return fs
}

// execOnlyNode has no Post of its own (BaseNode's default decides the action).
type execOnlyNode struct {
	*flyt.BaseNode
	out any
}

func (n *execOnlyNode) Exec(ctx context.Context, p any) (any, error) { return n.out, nil }

// defaultPostRoutes: a node without a post of its own finishes with the default action whatever its exec produced
// (also a value of type flyt.Action); returns (action, path) discrepancies.
func defaultPostRoutes() (fs []finding) {
	payloads := []any{flyt.Action("approve"), flyt.Action(""), "approve", 7, nil, flyt.NewResult(flyt.Action("approve"))}
	for pi, out := range payloads {
		mk := []func() flyt.Node{
			func() flyt.Node { return &execOnlyNode{flyt.NewBaseNode(), out} },
			func() flyt.Node {
				return flyt.NewNode().WithExecFuncAny(func(context.Context, any) (any, error) { return out, nil })
			},
			func() flyt.Node {
				return flyt.NewNode(flyt.WithExecFunc(func(context.Context, flyt.Result) (flyt.Result, error) { return flyt.NewResult(out), nil }))
			},
		}
		for ki, m := range mk {
			node := m()
			act, err := flyt.Run(context.Background(), node, flyt.NewSharedStore())
			if err != nil || act != flyt.DefaultAction {
				fs = append(fs, finding{"default-post-action", fmt.Sprintf("node kind %d without a post of its own, exec produced %T(%v): run returned (%q, %v), want the default action", ki, out, out, act, err)})
				continue
			}
			// routed: the default connection is followed, a connection named like the payload is not
			hitDefault, hitOther := 0, 0
			node = m()
			f := flyt.NewFlow(node)
			f.Connect(node, "approve", &probeNode{flyt.NewBaseNode(), &hitOther})
			f.Connect(node, flyt.DefaultAction, &probeNode{flyt.NewBaseNode(), &hitDefault})
			if err := f.Run(context.Background(), flyt.NewSharedStore()); err != nil || hitDefault != 1 || hitOther != 0 {
				fs = append(fs, finding{"default-post-route", fmt.Sprintf("payload #%d %T(%v), node kind %d without a post of its own: default connection followed %d times, connection %q followed %d times (err %v)", pi, out, out, ki, hitDefault, "approve", hitOther, err)})
			}
		}
	}
	return fs
}

// ---- distinct node types that print the same name ---------------------------------------------------------------

type twinObs struct{ prep, exec, fb, post int }

var errTwin = errors.New("twin exec failure")

// twinPlainImpl: no retry settings, no fallback; its exec always fails.
type twinPlainImpl struct{ o *twinObs }

func (t *twinPlainImpl) Prep(context.Context, *flyt.SharedStore) (any, error) {
	t.o.prep++
	return nil, nil
}
func (t *twinPlainImpl) Exec(context.Context, any) (any, error) { t.o.exec++; return nil, errTwin }
func (t *twinPlainImpl) Post(context.Context, *flyt.SharedStore, any, any) (flyt.Action, error) {
	t.o.post++
	return "x", nil
}

// twinRetryImpl: budget 3 and a rescuing fallback; its exec always fails.
type twinRetryImpl struct{ twinPlainImpl }

func (t *twinRetryImpl) GetMaxRetries() int                   { return 3 }
func (t *twinRetryImpl) GetWait() time.Duration               { return 0 }
func (t *twinRetryImpl) ExecFallback(any, error) (any, error) { t.o.fb++; return "rescued", nil }

// Two function-local struct types with the SAME name ("worker"): distinct types whose printed name (%T,
// reflect.Type.String()) coincides; one is a plain node, the other brings retry settings and a fallback.
func sameNamePlain(o *twinObs) flyt.Node {
	type worker struct{ *twinPlainImpl }
	return worker{&twinPlainImpl{o}}
}

func sameNameRetryable(o *twinObs) flyt.Node {
	type worker struct{ *twinRetryImpl }
	return worker{&twinRetryImpl{twinPlainImpl{o}}}
}

// sameNameLifecycles runs the two equally named node types in both orders (directly and inside a flow): each gets the
// lifecycle ITS methods define — one attempt and a failed run for the plain one; three attempts, the fallback and post for the other.
func sameNameLifecycles() (fs []finding) {
	for order := 0; order < 2; order++ {
		for _, viaFlow := range []bool{false, true} {
			var po, ro twinObs
			runOne := func(n flyt.Node) (act flyt.Action, err error, pan any) {
				defer func() { pan = recover() }()
				if viaFlow {
					err = flyt.NewFlow(n).Run(context.Background(), flyt.NewSharedStore())
					return
				}
				act, err = flyt.Run(context.Background(), n, flyt.NewSharedStore())
				return
			}
			type res struct {
				err error
				pan any
			}
			var pr, rr res
			first, second := sameNamePlain(&po), sameNameRetryable(&ro)
			if fmt.Sprintf("%T", first) != fmt.Sprintf("%T", second) {
				return append(fs, finding{"same-name-setup", "harness: the two local types do not print the same name"})
			}
			if order == 0 {
				_, pr.err, pr.pan = runOne(first)
				_, rr.err, rr.pan = runOne(second)
			} else {
				_, rr.err, rr.pan = runOne(second)
				_, pr.err, pr.pan = runOne(first)
			}
			where := fmt.Sprintf("order %d, via flow %v", order, viaFlow)
			if pr.pan != nil || rr.pan != nil {
				fs = append(fs, finding{"same-name-types:panic", fmt.Sprintf("two distinct node types that print the same name (%T), %s: Run panicked (%v / %v)", first, where, pr.pan, rr.pan)})
				continue
			}
			if po.exec != 1 || po.post != 0 || pr.err == nil {
				fs = append(fs, finding{"same-name-types:plain", fmt.Sprintf("%s: the plain node (no retry settings, no fallback, failing exec) got %d attempts, post ran %d times, error %v — want 1 attempt, no post, the exec error", where, po.exec, po.post, pr.err)})
			}
			if ro.exec != 3 || ro.fb != 1 || ro.post != 1 || rr.err != nil {
				fs = append(fs, finding{"same-name-types:retryable", fmt.Sprintf("%s: the node with budget 3 and a rescuing fallback got %d attempts, %d fallback calls, %d post calls, error %v — want 3 / 1 / 1 / nil (an equally NAMED node type without those interfaces ran %s)", where, ro.exec, ro.fb, ro.post, rr.err, map[int]string{0: "before it", 1: "after it"}[order])})
			}
		}
	}
	return fs
}

// sameNameSliceTypes: two function-local types named alike, one a slice and one a struct, through the slice
// conversions in both orders.
func sameNameSliceTypes() (fs []finding) {
	mkSlice := func() any {
		type twin []int
		return twin{1, 2}
	}
	mkStruct := func() any {
		type twin struct{ A int }
		return twin{5}
	}
	for order := 0; order < 2; order++ {
		vals := []any{mkSlice(), mkStruct()}
		if order == 1 {
			vals = []any{mkStruct(), mkSlice()}
		}
		for _, v := range vals {
			isSlice := fmt.Sprintf("%v", v) == "[1 2]"
			func() {
				defer func() {
					if p := recover(); p != nil {
						fs = append(fs, finding{"same-name-slice-types:panic", fmt.Sprintf("two distinct types that print the same name (%T), one a slice and one a struct (order %d): a slice accessor panicked on %v: %v", v, order, v, p)})
					}
				}()
				ts := flyt.ToSlice(v)
				as, ok := flyt.NewResult(v).AsSlice()
				st := flyt.NewSharedStore()
				st.Set("k", v)
				gs := st.GetSliceOr("k", []any{"DEFAULT"})
				if isSlice && (len(ts) != 2 || !ok || len(as) != 2 || len(gs) != 2) {
					fs = append(fs, finding{"same-name-slice-types:slice-rejected", fmt.Sprintf("order %d: the slice-typed value %v: ToSlice gave %v, AsSlice (%v, %v), GetSliceOr %v — want its two elements everywhere", order, v, ts, as, ok, gs)})
				}
				if !isSlice && (len(ts) != 1 || ok || len(gs) != 1 || gs[0] != any("DEFAULT")) {
					fs = append(fs, finding{"same-name-slice-types:struct-accepted", fmt.Sprintf("order %d: the struct-typed value %v: ToSlice gave %v, AsSlice ok=%v, GetSliceOr %v — want one element / false / the default", order, v, ts, ok, gs)})
				}
			}()
		}
	}
	return fs
}

// ---- wiring --------------------------------------------------------------------------------------------------------

var specials = map[string]func() []finding{
	"zero-value-nodes":          zeroValueNodeRoutes,
	"default-post":              defaultPostRoutes,
	"same-name-node-types":      sameNameLifecycles,
	"same-name-slice-types":     sameNameSliceTypes,
	"zero-value-node-lifecycle": zeroValueNodeLifecycle,
	"zero-size-pointer-nodes":   zeroSizePointerNodes,
	"or-default-on-absent-keys": orDefaultOnAbsentKeys,
	"bind-store-aware-hooks":    bindStoreAwareHooks,
	"bind-cyclic-values":        bindCyclicValues,
}

type specialCase struct {
	Family string `json:"family"`
	Name   string `json:"special"`
}

// runSpecial runs one of the dedicated scenarios for prop (shard 0 only) and reports its findings under that property.
func runSpecial(c *Cfg, prop, name string) {
	if c.Shard != 0 {
		return
	}
	logCase(c, specialCase{"special", name}) // (a process-fatal failure would otherwise leave no trace)
	fs := specials[name]()
	if c.CurFile != "" {
		_ = os.Remove(c.CurFile)
	}
	c.Rep.Eval()
	c.Rep.Count("special."+name, 1)
	c.Rep.Nontrivial("special:" + name)
	for _, f := range fs {
		c.Rep.Violate(prop, prop+":"+f.key, f.detail, specialCase{"special", name})
	}
}

// replaySpecial re-runs a dedicated scenario named in spec; false if spec is not one.
func replaySpecial(c *Cfg, prop string, spec []byte) bool {
	var sc specialCase
	if json.Unmarshal(spec, &sc) != nil || sc.Family != "special" || specials[sc.Name] == nil {
		return false
	}
	for _, f := range specials[sc.Name]() {
		fmt.Printf(" * finding %s: %s\n", f.key, f.detail)
		c.Rep.Violate(prop, prop+":"+f.key, f.detail, sc)
	}
	return true
}

// PanicCase: a callback of a node inside a flow panics (with a value of some kind). The library may let the panic
// escape or turn it into an error; what it may not do is report the run as a success, or go on to further nodes.
type PanicCase struct {
	Family string `json:"family"`
	Phase  string `json:"phase"` // prep | exec | post
	Val    string `json:"val"`   // kind of the panic value
	Shape  string `json:"shape"` // flat | nested | second-visit
}

func runPanicCase(cs *PanicCase) (fs []finding) {
	vals := map[string]any{"string": "boom", "int": 42, "struct": abortSignal{3}, "ptr": &abortSignal{4}, "bool": false, "error": errors.New("panicked error"), "stringer": time.Second, "float": 1.5, "slice": []string{"a"}}
	var after, offEmpty, offDefault int
	pn := &panicNode{BaseNode: flyt.NewBaseNode(), phase: cs.Phase, val: vals[cs.Val]}
	head := &probeNode{flyt.NewBaseNode(), new(int)}
	zE := &probeNode{flyt.NewBaseNode(), &offEmpty}
	zD := &probeNode{flyt.NewBaseNode(), &offDefault}
	zA := &probeNode{flyt.NewBaseNode(), &after}
	var root flyt.Node
	switch cs.Shape {
	case "nested":
		inner := flyt.NewFlow(pn)
		inner.Connect(pn, "", zE)
		outer := flyt.NewFlow(head)
		outer.Connect(head, flyt.DefaultAction, inner)
		outer.Connect(inner, flyt.DefaultAction, zD)
		outer.Connect(inner, "", zE)
		outer.Connect(inner, "custom", zA)
		root = outer
	default:
		f := flyt.NewFlow(head)
		f.Connect(head, flyt.DefaultAction, pn)
		f.Connect(pn, "", zE)
		f.Connect(pn, flyt.DefaultAction, zD)
		f.Connect(pn, "custom", zA)
		root = f
	}
	var err error
	escaped := func() (p bool) {
		defer func() {
			if recover() != nil {
				p = true
			}
		}()
		_, err = flyt.Run(context.Background(), root, flyt.NewSharedStore())
		return false
	}()
	if !escaped && err == nil {
		fs = append(fs, finding{"success-despite-panicking-callback:" + cs.Phase, fmt.Sprintf("the %s callback of a node on the path (%s flow) panicked with a value of kind %s; the panic did not reach the caller and the run returned a nil error: a run is a success only if every phase on its path succeeded", cs.Phase, cs.Shape, cs.Val)})
	}
	if n := after + offEmpty + offDefault; n > 0 {
		fs = append(fs, finding{"continued-after-panicking-callback:" + cs.Phase, fmt.Sprintf("the %s callback of a node (%s flow) panicked with a value of kind %s; %d further node(s) ran afterwards (behind the empty action: %d, behind the default action: %d, behind the node's own action: %d)", cs.Phase, cs.Shape, cs.Val, n, offEmpty, offDefault, after)})
	}
	return fs
}

// RouteCase: the same configuration reached through different routes (C19).
type RouteCase struct {
	Family string `json:"family"`
	Kind   string `json:"kind"`  // negative-batch-concurrency | configured-after-wiring
	Val    int    `json:"val"`   // the value (a concurrency / a budget)
	Route  string `json:"route"` // how the value is given
	Via    string `json:"via"`   // configured-after-wiring: "run" (flyt.Run on the node) or "flow" (the flow it was wired into)
}

// seqProbe runs a 6-item batch on the node and reports the highest number of items in flight and whether the items
// were processed in item order.
func seqProbe(bn *flyt.BatchNodeBuilder) (maxIn int32, inOrder bool, err error) {
	var in, hw atomic.Int32
	var mu sync.Mutex
	var order []int
	bn.WithPrepFunc(func(ctx context.Context, s *flyt.SharedStore) ([]flyt.Result, error) {
		rs := make([]flyt.Result, 6)
		for i := range rs {
			rs[i] = flyt.NewResult(i)
		}
		return rs, nil
	}).WithExecFuncAny(func(ctx context.Context, v any) (any, error) {
		n := in.Add(1)
		for {
			h := hw.Load()
			if n <= h || hw.CompareAndSwap(h, n) {
				break
			}
		}
		mu.Lock()
		order = append(order, v.(int))
		mu.Unlock()
		time.Sleep(2 * time.Millisecond)
		in.Add(-1)
		return v, nil
	})
	_, err = flyt.Run(context.Background(), bn, flyt.NewSharedStore())
	inOrder = true
	for i, v := range order {
		if v != i {
			inOrder = false
		}
	}
	return hw.Load(), inOrder && len(order) == 6, err
}

func runRouteCase(cs *RouteCase) (fs []finding) {
	add := func(key, f string, a ...any) { fs = append(fs, finding{key, fmt.Sprintf(f, a...)}) }
	defer func() {
		if p := recover(); p != nil {
			fs = append(fs, finding{"panic:" + cs.Kind, fmt.Sprint(p)})
		}
	}()
	switch cs.Kind {
	case "negative-batch-concurrency":
		// a negative concurrency is a value like any other: whatever it means, it means the same through every route, and
		// it is the last setting that counts
		ref := flyt.NewBatchNode(flyt.WithBatchConcurrency(cs.Val))
		var n *flyt.BatchNodeBuilder
		switch cs.Route {
		case "builder":
			n = flyt.NewBatchNode().WithBatchConcurrency(cs.Val)
		case "option-then-builder":
			n = flyt.NewBatchNode(flyt.WithBatchConcurrency(4)).WithBatchConcurrency(cs.Val)
		case "builder-twice":
			n = flyt.NewBatchNode().WithBatchConcurrency(5).WithBatchConcurrency(cs.Val)
		case "plain-node-builder":
			nb := flyt.NewNode().WithBatchConcurrency(cs.Val)
			if g, w := nb.GetBatchConcurrency(), ref.GetBatchConcurrency(); g != w {
				add("route-differs:negative-batch-concurrency:getter", "NewNode().WithBatchConcurrency(%d) reports %d, the option form reports %d", cs.Val, g, w)
			}
			return
		}
		if g, w := n.GetBatchConcurrency(), ref.GetBatchConcurrency(); g != w {
			add("route-differs:negative-batch-concurrency:getter", "batch concurrency %d given through route %q: GetBatchConcurrency()=%d, the constructor-option form reports %d", cs.Val, cs.Route, g, w)
		}
		// an unrelated parameter: the error handling is what it was (default, or set explicitly before / after)
		def := flyt.NewBatchNode().GetBatchErrorHandling()
		for name, nn := range map[string]*flyt.BatchNodeBuilder{
			"left at its default":              flyt.NewBatchNode(flyt.WithBatchConcurrency(cs.Val)),
			"set to continue before (builder)": flyt.NewBatchNode().WithBatchErrorHandling(true).WithBatchConcurrency(cs.Val),
			"set to continue before (options)": flyt.NewBatchNode(flyt.WithBatchErrorHandling(true), flyt.WithBatchConcurrency(cs.Val)),
		} {
			if g := nn.GetBatchErrorHandling(); g != def {
				add("negative-batch-concurrency-changes-error-handling", "batch concurrency %d with the error handling %s: GetBatchErrorHandling() = %q, an unconfigured node reports %q — unrelated parameters stay untouched", cs.Val, name, g, def)
			}
		}
		stopN := flyt.NewBatchNode().WithBatchErrorHandling(false).WithBatchConcurrency(cs.Val)
		if g, w := stopN.GetBatchErrorHandling(), flyt.NewBatchNode().WithBatchErrorHandling(false).GetBatchErrorHandling(); g != w {
			add("negative-batch-concurrency-changes-error-handling", "batch concurrency %d after stop mode was chosen: GetBatchErrorHandling() = %q, want %q", cs.Val, g, w)
		}
		mr, or, er := seqProbe(ref)
		mn, on, en := seqProbe(n)
		if er != nil || en != nil {
			add("route-differs:negative-batch-concurrency:run-error", "runs failed: option form %v, route %q %v", er, cs.Route, en)
			return
		}
		if mr == 1 && or && (mn != 1 || !on) {
			add("route-differs:negative-batch-concurrency:behaviour", "batch concurrency %d: the constructor-option form ran 6 items strictly one at a time in item order; given through route %q the same value had %d items in flight at once (in item order: %v)", cs.Val, cs.Route, mn, on)
		}
	case "user-option-factory":
		// options produced by one user helper (one function literal, different captured parameters) are separate options:
		// each one is applied, in order
		tune := tuneOption
		tuneNO := func(what string, v int) flyt.NodeOption { return flyt.NodeOption(tuneOption(what, v)) }
		type getters interface {
			GetMaxRetries() int
			GetWait() time.Duration
			GetBatchConcurrency() int
		}
		var g getters
		switch cs.Route {
		case "node-plain-funcs":
			g = flyt.NewNode(tune("retries", cs.Val), tune("wait", 7), tune("conc", 3))
		case "node-nodeoptions":
			g = flyt.NewNode(tuneNO("retries", cs.Val), tuneNO("wait", 7), tuneNO("conc", 3))
		case "batch-plain-funcs":
			g = flyt.NewBatchNode(tune("retries", cs.Val), tune("wait", 7), tune("conc", 3))
		case "batch-nodeoptions":
			g = flyt.NewBatchNode(tuneNO("wait", 7), tuneNO("conc", 3), tuneNO("retries", cs.Val))
		case "base-node":
			g = flyt.NewBaseNode(tuneNO("retries", cs.Val), tuneNO("wait", 7), tuneNO("conc", 3))
		}
		if g.GetMaxRetries() != cs.Val || g.GetWait() != 7 || g.GetBatchConcurrency() != 3 {
			add("user-option-factory:"+cs.Route, "three options made by one helper function (retries=%d, wait=7ns, concurrency=3) given to the constructor (%s): the node reports retries=%d wait=%v concurrency=%d — every option is applied, unrelated parameters stay untouched", cs.Val, cs.Route, g.GetMaxRetries(), g.GetWait(), g.GetBatchConcurrency())
		}
	case "panicking-exec":
		// an exec function that panics on one item: whatever the framework does about it, it does the same for the
		// constructor-option form and the builder-method form of the same function
		type outcome struct {
			escaped bool
			posts   int
			calls   int
			errNil  bool
		}
		runForm := func(form string) (o outcome) {
			fn := func(ctx context.Context, v any) (any, error) {
				o.calls++
				if v.(int) == 1 {
					panic("item 1 cannot be processed")
				}
				return v, nil
			}
			prep := func(ctx context.Context, s *flyt.SharedStore) ([]flyt.Result, error) {
				return []flyt.Result{flyt.NewResult(0), flyt.NewResult(1), flyt.NewResult(2)}, nil
			}
			post := func(ctx context.Context, s *flyt.SharedStore, items, results []flyt.Result) (flyt.Action, error) {
				o.posts++
				return "done", nil
			}
			var bn *flyt.BatchNodeBuilder
			if form == "option" {
				bn = flyt.NewBatchNode(flyt.WithExecFuncAny(fn), flyt.WithMaxRetries(cs.Val)).WithPrepFunc(prep).WithPostFunc(post)
			} else {
				bn = flyt.NewBatchNode().WithMaxRetries(cs.Val).WithExecFuncAny(fn).WithPrepFunc(prep).WithPostFunc(post)
			}
			func() {
				defer func() {
					if recover() != nil {
						o.escaped = true
					}
				}()
				_, err := flyt.Run(context.Background(), bn, flyt.NewSharedStore())
				o.errNil = err == nil
			}()
			return o
		}
		a, b := runForm("option"), runForm("builder")
		if a != b {
			add("route-differs:panicking-exec", "sequential batch of 3 items (budget %d) whose any-style exec function panics on item 1: given as a constructor option the panic escaped Run: %v, exec calls: %d, post calls: %d, nil error: %v; given through the builder method: escaped %v, exec calls %d, post calls %d, nil error %v", cs.Val, a.escaped, a.calls, a.posts, a.errNil, b.escaped, b.calls, b.posts, b.errNil)
		}
	case "post-after-cancel-in-exec":
		// the context is cancelled inside an exec call that still succeeds: what happens next (post runs / the run's
		// outcome) is the same for a post function given as constructor option and one given through the builder
		type outcome struct {
			posts  int
			errNil bool
			action flyt.Action
		}
		runForm := func(form string) (o outcome) {
			ctx, cancel := context.WithCancel(context.Background())
			defer cancel()
			exec := func(c context.Context, p any) (any, error) { cancel(); return "made it", nil }
			post := func(c context.Context, s *flyt.SharedStore, p, e any) (flyt.Action, error) {
				o.posts++
				return "after", nil
			}
			var n flyt.Node
			switch form {
			case "option":
				n = flyt.NewNode(flyt.WithExecFuncAny(exec), flyt.WithPostFuncAny(post))
			case "builder":
				n = flyt.NewNode().WithExecFuncAny(exec).WithPostFuncAny(post)
			case "mixed":
				n = flyt.NewNode(flyt.WithPostFuncAny(post)).WithExecFuncAny(exec)
			}
			if cs.Via == "flow" {
				n = flyt.NewFlow(n)
			}
			a, err := flyt.Run(ctx, n, flyt.NewSharedStore())
			o.errNil, o.action = err == nil, a
			return o
		}
		ref := runForm("builder")
		for _, form := range []string{"option", "mixed"} {
			if got := runForm(form); got != ref {
				add("route-differs:post-after-cancel-in-exec:"+form, "the context is cancelled inside a successful exec call (via %s): with all functions given through builder methods post ran %d times and the run returned (%q, nil error: %v); with the %s form post ran %d times and the run returned (%q, nil error: %v)", cs.Via, ref.posts, ref.action, ref.errNil, form, got.posts, got.action, got.errNil)
			}
		}
	case "exec-form-parallelism":
		// a concurrent batch whose exec calls all block: however the any-style exec function was handed over, min(c, n)
		// of them are in flight together
		for _, form := range []string{"option", "builder", "option-result-style"} {
			got, incon := formLimitRun(form, cs.Val, 2*cs.Val+1)
			if incon != "" {
				add("inconclusive:", "%s", incon)
				continue
			}
			if got != cs.Val {
				add("route-differs:exec-form-parallelism:"+form, "batch of %d blocking items with concurrency %d, exec function given as %s: %d executions are in flight when nothing moves any more, want %d", 2*cs.Val+1, cs.Val, form, got, cs.Val)
			}
		}
	case "exec-set-again-after-a-run":
		// the exec function is set again after the node has run: the last setting wins on the next run, through every route
		calls := map[string]int{}
		f1 := func(ctx context.Context, v any) (any, error) { calls["first"]++; return v, nil }
		f2 := func(ctx context.Context, v any) (any, error) { calls["second"]++; return v, nil }
		prep := func(ctx context.Context, s *flyt.SharedStore) ([]flyt.Result, error) {
			return []flyt.Result{flyt.NewResult(1), flyt.NewResult(2)}, nil
		}
		var node flyt.Node
		var reset func()
		switch cs.Route {
		case "batch-builder":
			bn := flyt.NewBatchNode().WithBatchConcurrency(cs.Val).WithPrepFunc(prep).WithExecFuncAny(f1)
			node, reset = bn, func() { bn.WithExecFuncAny(f2) }
		case "batch-option-then-builder":
			bn := flyt.NewBatchNode(flyt.WithExecFuncAny(f1), flyt.WithBatchConcurrency(cs.Val)).WithPrepFunc(prep)
			node, reset = bn, func() { bn.WithExecFuncAny(f2) }
		case "batch-builder-result-style":
			bn := flyt.NewBatchNode().WithBatchConcurrency(cs.Val).WithPrepFunc(prep).WithExecFuncAny(f1)
			node, reset = bn, func() {
				bn.WithExecFunc(func(ctx context.Context, it flyt.Result) (flyt.Result, error) { calls["second"]++; return it, nil })
			}
		case "node-builder":
			nb := flyt.NewNode().WithExecFuncAny(f1)
			node, reset = nb, func() { nb.WithExecFuncAny(f2) }
		case "node-option-then-builder":
			nb := flyt.NewNode(flyt.WithExecFuncAny(f1))
			node, reset = nb, func() { nb.WithExecFuncAny(f2) }
		}
		if _, err := flyt.Run(context.Background(), node, flyt.NewSharedStore()); err != nil {
			add("exec-set-again:first-run-failed", "%v", err)
			return
		}
		reset()
		before := calls["first"]
		if _, err := flyt.Run(context.Background(), node, flyt.NewSharedStore()); err != nil {
			add("exec-set-again:second-run-failed", "%v", err)
			return
		}
		if calls["second"] == 0 || calls["first"] != before {
			add("exec-set-again-after-a-run:"+cs.Route, "route %s: the node ran once with its first exec function, then the exec function was set again (builder method): on the next run the FIRST function was called %d more times and the second one %d times — the last setting wins", cs.Route, calls["first"]-before, calls["second"])
		}
	case "fallback-option-next-to-a-budget":
		// installing a fallback function touches no other parameter: the budget given next to it (before or after, as
		// option or through the builder) is what the getters report
		fb := func(p any, e error) (any, error) { return nil, e }
		type g interface{ GetMaxRetries() int }
		forms := map[string]g{
			"options: budget, fallback":                    flyt.NewNode(flyt.WithMaxRetries(cs.Val), flyt.WithExecFallbackFunc(fb)),
			"options: fallback, budget":                    flyt.NewNode(flyt.WithExecFallbackFunc(fb), flyt.WithMaxRetries(cs.Val)),
			"builder: budget, fallback":                    flyt.NewNode().WithMaxRetries(cs.Val).WithExecFallbackFunc(fb),
			"builder: fallback, budget":                    flyt.NewNode().WithExecFallbackFunc(fb).WithMaxRetries(cs.Val),
			"batch options: budget, fallback":              flyt.NewBatchNode(flyt.WithMaxRetries(cs.Val), flyt.WithExecFallbackFunc(fb)),
			"batch options: fallback, budget":              flyt.NewBatchNode(flyt.WithExecFallbackFunc(fb), flyt.WithMaxRetries(cs.Val)),
			"batch mixed: option fallback, builder budget": flyt.NewBatchNode(flyt.WithExecFallbackFunc(fb)).WithMaxRetries(cs.Val),
		}
		for name, n := range forms {
			if got := n.GetMaxRetries(); got != cs.Val {
				add("fallback-setting-changes-the-budget", "%s with budget %d: GetMaxRetries() = %d — the last setting of a parameter wins and unrelated settings leave it alone", name, cs.Val, got)
			}
		}
	case "configured-after-wiring":
		// the budget is (re-)configured AFTER the node has been handed to NewFlow / Connect: the setting in force when the
		// node runs is the budget — through flyt.Run on the node and through the flow alike
		attempts := 0
		var nb *flyt.NodeBuilder
		mk := func() *flyt.NodeBuilder {
			return flyt.NewNode().WithExecFuncAny(func(ctx context.Context, p any) (any, error) {
				attempts++
				return nil, errors.New("always fails")
			})
		}
		head := flyt.NewNode()
		var f *flyt.Flow
		switch cs.Route {
		case "start-node-then-builder":
			nb = mk()
			f = flyt.NewFlow(nb)
			nb.WithMaxRetries(cs.Val)
		case "connect-then-builder":
			nb = mk().WithMaxRetries(cs.Val + 3)
			f = flyt.NewFlow(head)
			f.Connect(head, flyt.DefaultAction, nb)
			nb.WithMaxRetries(cs.Val)
		case "connect-then-option":
			nb = mk().WithMaxRetries(cs.Val + 2)
			f = flyt.NewFlow(head)
			f.Connect(head, flyt.DefaultAction, nb)
			flyt.WithMaxRetries(cs.Val)(nb.BaseNode)
		case "builder-then-connect": // control: configured before wiring
			nb = mk().WithMaxRetries(cs.Val)
			f = flyt.NewFlow(head)
			f.Connect(head, flyt.DefaultAction, nb)
		}
		if g := nb.GetMaxRetries(); g != cs.Val {
			add("configured-after-wiring:getter", "route %q: GetMaxRetries()=%d, the last setting says %d", cs.Route, g, cs.Val)
		}
		var err error
		if cs.Via == "flow" {
			_, err = flyt.Run(context.Background(), f, flyt.NewSharedStore())
		} else {
			_, err = flyt.Run(context.Background(), nb, flyt.NewSharedStore())
		}
		if err == nil {
			add("configured-after-wiring:no-error", "route %q via %s: every attempt fails, the run returned nil", cs.Route, cs.Via)
		}
		if attempts != cs.Val {
			add("configured-after-wiring:attempts", "budget %d configured through route %q (the node was wired into a flow before its last setting was made), run through %s: %d exec attempts were made, want %d — the last setting of a parameter wins, whenever it is made", cs.Val, cs.Route, cs.Via, attempts, cs.Val)
		}
	}
	return fs
}

// storeHook is a payload / destination whose JSON methods use the store it is bound from (a record that keeps an
// access counter, a lazily resolved reference, ...).
type storeHook struct {
	S    *flyt.SharedStore `json:"-"`
	Mode string            `json:"-"`
	Name string            `json:"name"`
}

func (h storeHook) touch() {
	switch h.Mode {
	case "set":
		h.S.Set("side", 1)
	case "delete":
		h.S.Delete("side")
	case "merge":
		h.S.Merge(map[string]any{"side": 2})
	case "get":
		h.S.Get("side")
	case "len":
		h.S.Len()
	}
}

func (h storeHook) MarshalJSON() ([]byte, error) {
	h.touch()
	return json.Marshal(map[string]string{"name": h.Name})
}

type storeHookDest struct {
	S    *flyt.SharedStore
	Mode string
	Name string
}

func (d *storeHookDest) UnmarshalJSON(b []byte) error {
	storeHook{S: d.S, Mode: d.Mode}.touch()
	var m map[string]string
	if err := json.Unmarshal(b, &m); err != nil {
		return err
	}
	d.Name = m["name"]
	return nil
}

// bindStoreAwareHooks: the JSON methods of the value / the destination call back into the store: Result.Bind of the
// same value returns at once, so SharedStore.Bind — which gives "exactly what encoding and decoding gives" — returns too.
func bindStoreAwareHooks() (fs []finding) {
	for _, mode := range []string{"set", "delete", "merge", "get", "len"} {
		for _, side := range []string{"payload", "destination"} {
			s := flyt.NewSharedStore()
			s.Set("side", 0)
			var val any = map[string]any{"name": "n"}
			if side == "payload" {
				val = storeHook{S: s, Mode: mode, Name: "n"}
			}
			s.Set("k", val)
			mk := func() any {
				if side == "destination" {
					return &storeHookDest{S: s, Mode: mode}
				}
				return &struct{ Name string }{}
			}
			refErr := flyt.NewResult(val).Bind(mk())
			var gotErr error
			stuck, state, incon := guarded(2*time.Second, func() { gotErr = s.Bind("k", mk()) })
			switch {
			case incon:
			case stuck:
				fs = append(fs, finding{"store-bind-never-returns:" + side, fmt.Sprintf("the %s's JSON method calls %s on the store it is bound from: Result.Bind of the same value returned (error=%v), SharedStore.Bind never returned — its goroutine is parked in %s and nobody else has this store", side, mode, refErr, state)})
			case (gotErr == nil) != (refErr == nil):
				fs = append(fs, finding{"store-vs-result:hooks:" + side, fmt.Sprintf("the %s's JSON method calls %s on the store: SharedStore.Bind error=%v, Result.Bind error=%v", side, mode, gotErr, refErr)})
			}
		}
	}
	return fs
}

// bindCyclicValues: values that contain themselves (through a slice, a map, an interface): encoding/json reports an
// error for them, so Bind reports an error — it does not bring the process down. (Nothing here formats the values.)
func bindCyclicValues() (fs []finding) {
	sl := []any{1, nil}
	sl[1] = sl
	mp := map[string]any{"a": 1}
	mp["self"] = mp
	type rec struct {
		Next any `json:"next"`
	}
	rc := &rec{}
	rc.Next = []any{rc}
	nested := map[string]any{"list": sl}
	for name, v := range map[string]any{"slice-containing-itself": sl, "map-containing-itself": mp, "struct-pointing-at-itself-through-an-interface": rc, "map-holding-a-cyclic-slice": nested} {
		for _, route := range []string{"Result.Bind", "SharedStore.Bind"} {
			var dest struct{ A int }
			var err error
			panicked := func() (p bool) {
				defer func() {
					if recover() != nil {
						p = true
					}
				}()
				if route == "Result.Bind" {
					err = flyt.NewResult(v).Bind(&dest)
				} else {
					s := flyt.NewSharedStore()
					s.Set("k", v)
					err = s.Bind("k", &dest)
				}
				return false
			}()
			if panicked {
				fs = append(fs, finding{"bind-panics:cyclic:" + route, fmt.Sprintf("%s of a %s panicked; encoding/json reports an error for it", route, name)})
			} else if err == nil {
				fs = append(fs, finding{"error-missing:cyclic:" + route, fmt.Sprintf("%s of a %s returned nil; encoding/json reports an error for it", route, name)})
			}
		}
	}
	return fs
}

// tuneOption is a user-side option factory: every option it returns is a closure of the one function literal below.
//
//go:noinline
func tuneOption(what string, v int) func(*flyt.BaseNode) {
	return func(b *flyt.BaseNode) {
		switch what {
		case "retries":
			flyt.WithMaxRetries(v)(b)
		case "wait":
			flyt.WithWait(time.Duration(v))(b)
		case "conc":
			flyt.WithBatchConcurrency(v)(b)
		}
	}
}

// lifeNode / lifeLevel are node types with value receivers; lifeNode{} and lifeLevel(0) are their types' zero values.
type lifeNode struct{}
type lifeLevel int

var lifeCalls []string

func (lifeNode) Prep(ctx context.Context, s *flyt.SharedStore) (any, error) {
	lifeCalls = append(lifeCalls, "prep")
	return "p", nil
}
func (lifeNode) Exec(ctx context.Context, p any) (any, error) {
	lifeCalls = append(lifeCalls, fmt.Sprintf("exec:%v", p))
	return "e", nil
}
func (lifeNode) Post(ctx context.Context, s *flyt.SharedStore, p, e any) (flyt.Action, error) {
	lifeCalls = append(lifeCalls, fmt.Sprintf("post:%v/%v", p, e))
	return "done", nil
}
func (l lifeLevel) Prep(ctx context.Context, s *flyt.SharedStore) (any, error) {
	lifeCalls = append(lifeCalls, "prep")
	return int(l), nil
}
func (l lifeLevel) Exec(ctx context.Context, p any) (any, error) {
	lifeCalls = append(lifeCalls, fmt.Sprintf("exec:%v", p))
	return "e", nil
}
func (l lifeLevel) Post(ctx context.Context, s *flyt.SharedStore, p, e any) (flyt.Action, error) {
	lifeCalls = append(lifeCalls, fmt.Sprintf("post:%v/%v", p, e))
	return "done", nil
}

// zeroValueNodeLifecycle: a node whose Go value is the zero value of its (non-pointer) type is run like any other:
// prep once, exec with prep's value, post with both, post's action returned — on its own and as a flow's only node.
func zeroValueNodeLifecycle() (fs []finding) {
	zeroValMu.Lock()
	defer zeroValMu.Unlock()
	for _, tc := range []struct {
		name string
		node flyt.Node
		want string
	}{{"struct{}", lifeNode{}, "[prep exec:p post:p/e]"}, {"int(0)", lifeLevel(0), "[prep exec:0 post:0/e]"}, {"int(3)", lifeLevel(3), "[prep exec:3 post:3/e]"}} {
		for _, via := range []string{"run", "flow"} {
			lifeCalls = nil
			var act flyt.Action
			var err error
			func() {
				defer func() {
					if p := recover(); p != nil {
						err = fmt.Errorf("panic: %v", p)
					}
				}()
				if via == "flow" {
					act, err = flyt.Run(context.Background(), flyt.NewFlow(tc.node), flyt.NewSharedStore())
				} else {
					act, err = flyt.Run(context.Background(), tc.node, flyt.NewSharedStore())
				}
			}()
			if got := fmt.Sprint(lifeCalls); err != nil || got != tc.want || (via == "run" && act != "done") {
				fs = append(fs, finding{"zero-value-node-lifecycle:" + via, fmt.Sprintf("a value-type node %s (%s): callbacks %s, action %q, error %v; want %s, \"done\", nil — prep, exec and post are called for every node that is run", tc.name, via, got, act, err, tc.want)})
			}
		}
	}
	return fs
}

// orDefaultOnAbsentKeys: on a key that is not there the Or-variant hands back ITS default — every time, whatever
// default an earlier call was given — and the plain / Must variants keep failing: an accessor never changes what a
// later accessor sees.
func orDefaultOnAbsentKeys() (fs []finding) {
	add := func(key, f string, a ...any) { fs = append(fs, finding{key, fmt.Sprintf(f, a...)}) }
	for _, pre := range []int{0, 3} {
		s := flyt.NewSharedStore()
		for i := 0; i < pre; i++ {
			s.Set(fmt.Sprint("other", i), i)
		}
		d1, d2 := map[string]any{"d": 1}, map[string]any{"d": 2}
		if got := s.GetMapOr("m", d1); fmt.Sprint(got) != fmt.Sprint(d1) {
			add("or-default:map", "GetMapOr on an absent key returned %v, default was %v", got, d1)
		}
		if got := s.GetMapOr("m", d2); fmt.Sprint(got) != fmt.Sprint(d2) {
			add("or-default-sticks:map", "GetMapOr(\"m\", %v) on a key nobody ever set returned %v — the default of an EARLIER GetMapOr call: the Or-variant returns its own default whenever the plain variant fails", d2, got)
		}
		if got := s.GetMap("m"); got != nil {
			add("plain-after-or:map", "GetMap on a key nobody ever set returned %v after a GetMapOr call on that key", got)
		}
		s1, s2 := []any{"one"}, []any{"two", "three"}
		_ = s.GetSliceOr("s", s1)
		if got := s.GetSliceOr("s", s2); fmt.Sprint(got) != fmt.Sprint(s2) {
			add("or-default-sticks:slice", "GetSliceOr(\"s\", %v) on a key nobody ever set returned %v", s2, got)
		}
		if got := s.GetSlice("s"); got != nil {
			add("plain-after-or:slice", "GetSlice on a key nobody ever set returned %v after a GetSliceOr call on that key", got)
		}
		_ = s.GetStringOr("t", "one")
		if got := s.GetStringOr("t", "two"); got != "two" || s.GetString("t") != "" {
			add("or-default-sticks:string", "GetStringOr(\"t\", \"two\") on a key nobody ever set returned %q (GetString: %q)", got, s.GetString("t"))
		}
		_ = s.GetIntOr("i", 1)
		if got := s.GetIntOr("i", 2); got != 2 || s.GetInt("i") != 0 {
			add("or-default-sticks:int", "GetIntOr(\"i\", 2) on a key nobody ever set returned %d (GetInt: %d)", got, s.GetInt("i"))
		}
		_ = s.GetFloat64Or("f", 1.5)
		if got := s.GetFloat64Or("f", 2.5); got != 2.5 || s.GetFloat64("f") != 0 {
			add("or-default-sticks:float", "GetFloat64Or(\"f\", 2.5) on a key nobody ever set returned %v", got)
		}
		_ = s.GetBoolOr("b", true)
		if got := s.GetBoolOr("b", false); got || s.GetBool("b") {
			add("or-default-sticks:bool", "GetBoolOr(\"b\", false) on a key nobody ever set returned %v", got)
		}
		if s.Len() != pre {
			add("accessor-changed-the-store", "after Or-default lookups of six absent keys the store holds %d entries, %d were set", s.Len(), pre)
		}
		var dst map[string]any
		if err := s.Bind("m", &dst); err == nil {
			add("bind-after-or:map", "Bind on a key nobody ever set succeeded after a GetMapOr call on that key")
		}
	}
	return fs
}

// formLimitRun: see RouteCase "exec-form-parallelism".
func formLimitRun(form string, cc, n int) (parked int, incon string) {
	defer setGCOff()()
	self := quiesce.Self()
	var st quiesce.Stats
	var in atomic.Int32
	release := make(chan struct{})
	execAny := func(ctx context.Context, v any) (any, error) {
		in.Add(1)
		<-release
		return v, nil
	}
	execRes := func(ctx context.Context, it flyt.Result) (flyt.Result, error) {
		in.Add(1)
		<-release
		return it, nil
	}
	prep := func(ctx context.Context, s *flyt.SharedStore) ([]flyt.Result, error) {
		r := make([]flyt.Result, n)
		for i := range r {
			r[i] = flyt.NewResult(i)
		}
		return r, nil
	}
	var bn *flyt.BatchNodeBuilder
	switch form {
	case "option":
		bn = flyt.NewBatchNode(flyt.WithExecFuncAny(execAny), flyt.WithBatchConcurrency(cc)).WithPrepFunc(prep)
	case "option-result-style":
		bn = flyt.NewBatchNode(flyt.WithExecFunc(execRes), flyt.WithBatchConcurrency(cc)).WithPrepFunc(prep)
	default:
		bn = flyt.NewBatchNode().WithBatchConcurrency(cc).WithExecFuncAny(execAny).WithPrepFunc(prep)
	}
	done := make(chan struct{})
	go func() {
		defer close(done)
		_, _ = flyt.Run(context.Background(), bn, flyt.NewSharedStore())
	}()
	_, ok := quiesce.Wait(self, quiesceBudget, &st)
	parked = int(in.Load())
	close(release)
	select {
	case <-done:
	case <-time.After(60 * time.Second):
		return parked, "batch did not finish after the executions were released"
	}
	if !ok {
		return parked, "quiescence not reached"
	}
	return parked, ""
}

// zsA / zsB / zsC are node types without any fields, used through pointers: Go may give all such pointers the same
// address, they are different nodes all the same (an interface value is its type AND its pointer).
type zsA struct{}
type zsB struct{}
type zsC struct{}

var zsVisits []string

func (*zsA) Prep(ctx context.Context, s *flyt.SharedStore) (any, error) { return nil, nil }
func (*zsA) Exec(ctx context.Context, p any) (any, error)               { return zsVisit("A") }
func (*zsA) Post(ctx context.Context, s *flyt.SharedStore, p, e any) (flyt.Action, error) {
	return "", nil
}
func (*zsB) Prep(ctx context.Context, s *flyt.SharedStore) (any, error) { return nil, nil }
func (*zsB) Exec(ctx context.Context, p any) (any, error)               { return zsVisit("B") }
func (*zsB) Post(ctx context.Context, s *flyt.SharedStore, p, e any) (flyt.Action, error) {
	return "", nil
}
func (*zsC) Prep(ctx context.Context, s *flyt.SharedStore) (any, error) { return nil, nil }
func (*zsC) Exec(ctx context.Context, p any) (any, error)               { return zsVisit("C") }
func (*zsC) Post(ctx context.Context, s *flyt.SharedStore, p, e any) (flyt.Action, error) {
	return "stop", nil
}

// zsVisit records a visit; a run that is still going after 60 visits has left the three-node path and is ended by an error.
func zsVisit(name string) (any, error) {
	zsVisits = append(zsVisits, name)
	if len(zsVisits) > 60 {
		return nil, errors.New("harness: runaway run cut off")
	}
	return nil, nil
}

// zeroSizePointerNodes: A -default-> B -default-> C: each node's own default connection is followed.
func zeroSizePointerNodes() (fs []finding) {
	zeroValMu.Lock()
	defer zeroValMu.Unlock()
	for _, order := range []string{"forward", "backward"} {
		a, b, cN := &zsA{}, &zsB{}, &zsC{}
		f := flyt.NewFlow(a)
		if order == "forward" {
			f.Connect(a, flyt.DefaultAction, b)
			f.Connect(b, flyt.DefaultAction, cN)
		} else {
			f.Connect(b, flyt.DefaultAction, cN)
			f.Connect(a, flyt.DefaultAction, b)
		}
		zsVisits = nil
		var err error
		func() {
			defer func() {
				if p := recover(); p != nil {
					err = fmt.Errorf("panic: %v", p)
				}
			}()
			err = f.Run(context.Background(), flyt.NewSharedStore())
		}()
		if got := fmt.Sprint(zsVisits); err != nil || got != "[A B C]" {
			fs = append(fs, finding{"zero-size-pointer-nodes:" + order, fmt.Sprintf("three field-less node types used through pointers, connected A -default-> B -default-> C (%s): nodes executed %s (err %v), want [A B C] — the connection on the default action of each node is followed", order, got, err)})
		}
	}
	return fs
}
