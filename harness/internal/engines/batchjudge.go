package engines

import (
	"encoding/json"
	"fmt"
	"strings"

	"verif/harness/internal/scen"
)

func minInt(a, b int) int {
	if a < b {
		return a
	}
	return b
}

// judgeBatch evaluates the predicates of C02 (per item), C06, C07, C08, C09, C11 on one observation.
func judgeBatch(cs *BatchCase, o *BatchObs) []scen.Finding {
	var fs []scen.Finding
	add := func(prop, key, format string, a ...any) {
		fs = append(fs, scen.Finding{Prop: prop, Key: key, Detail: fmt.Sprintf(format, a...)})
	}
	mode := "continue"
	if cs.Stop {
		mode = "stop"
	}
	cc := fmt.Sprintf("c%s", map[bool]string{true: "0", false: "N"}[cs.C == 0])
	n := cs.N
	if o.Panic != "" {
		add("C06", "panic", "batch run panicked: %s", o.Panic)
		return fs
	}
	if o.Incon != "" || o.Discard {
		return fs
	}
	cancelled := cs.Cancel != nil
	// ---------------------------------------------------------------- termination
	if !o.Returned || o.Deadlock {
		if cancelled {
			add("C11", "hang:"+cc, "cancelled batch never returned: every goroutine is blocked, no exec call is parked (cancel at item %d attempt %d, wait_hour=%v)", cs.Cancel.Item, cs.Cancel.Attempt, cs.WaitHour)
		} else {
			add("C08", "deadlock:"+cc, "batch with %d items and concurrency %d stopped making progress: every goroutine is blocked and no exec call is parked", n, cs.C)
		}
		return fs
	}
	// per-item expectations from the scripts
	wantAtt := make([]int, n)
	failed := make([]bool, n) // all attempts fail
	for i := 0; i < n; i++ {
		s := ItemScript{K: 1}
		if i < len(cs.Items) {
			s = cs.Items[i]
		}
		wantAtt[i] = minInt(s.K, cs.Budget)
		failed[i] = s.K > cs.Budget
	}
	if cs.ErrResult && cs.ExecStyle == "result" {
		// a failing attempt hands back (NewErrorResult(e), nil): for the framework that is a success that carries an
		// error state — one attempt, no retry, no fallback, and the slot is an error result with attempt 1's error
		for i := 0; i < n; i++ {
			wantAtt[i], failed[i] = 1, false
		}
	}
	finalFail := func(i int) bool { // item's processing ends in an error
		if !failed[i] {
			return false
		}
		if cs.FB {
			return cs.Items[i].FBE
		}
		return true
	}
	// ---------------------------------------------------------------- C07: the item in whose LAST permitted attempt the cancellation happened
	// (an attempt that fails) has used up its budget like on any other day: its fallback is invoked, exactly as a single
	// node run does it (flyt.Run consults the fallback once the attempts are exhausted; the context is looked at before
	// an attempt, not after the last one)
	if c := cs.Cancel; c != nil && !c.DuringWait && !c.InPrep && c.DeadlineMs == 0 && !strings.HasPrefix(c.Kind, "pre-") && cs.FB && !(cs.ErrResult && cs.ExecStyle == "result") &&
		c.Item >= 0 && c.Item < n && c.Attempt == cs.Budget && failed[c.Item] && c.Item < len(o.Attempts) && o.Attempts[c.Item] == cs.Budget && c.Item < len(o.FBCalls) && o.FBCalls[c.Item] == 0 {
		add("C07", "fallback-skipped-after-last-attempt:"+cc, "the context was cancelled inside attempt %d of item %d — the item's last permitted attempt, which failed: its budget is used up, yet its fallback was never invoked (a single node run invokes it in exactly this situation)", c.Attempt, c.Item)
	}
	// ---------------------------------------------------------------- the run is over when Run returns
	if o.ParkedAtReturn > 0 {
		add("C08", "executions-outlive-the-run:"+cc, "Run returned while %d item executions of this batch (concurrency %d, %s mode) were still inside exec: they go on running next to whatever the caller starts next, so the bound of %d executions per batch node no longer holds", o.ParkedAtReturn, cs.C, mode, cs.C)
		add("C06", "returned-before-settled:"+cc, "Run returned while %d item executions were still inside exec (n=%d c=%d %s): not every item was settled", o.ParkedAtReturn, n, cs.C, mode)
	}
	if o.CallbacksAfterReturn > 0 && !o.ErrNil {
		add("C04", "callback-after-failed-run:"+cc, "the run had already returned its error (%s), yet %d further user callbacks (exec attempts / fallbacks) were invoked afterwards on behalf of that run", o.ErrText, o.CallbacksAfterReturn)
	}
	if len(o.FBEarly) > 0 {
		add("C02", "batch-fallback-before-budget-exhausted:"+cc, "%s — the fallback is owed only when all N attempts have failed (cancelled: %v)", o.FBEarly[0], cancelled)
		add("C07", "fallback-before-budget-exhausted:"+cc, "%s", o.FBEarly[0])
	}
	// a batch whose prep succeeded and whose context is alive calls post; only post's own error can fail the run
	if !cancelled && !cs.PostFail && !o.ErrNil {
		add("C06", "run-failed-without-cancellation:"+cc, "the batch's prep succeeded, the context was never cancelled and post does not fail, yet the run returned %q (post calls: %d) — item failures belong into the result slots (n=%d c=%d %s, item errors wrap a context error: %v)", o.ErrText, o.PostCalls, n, cs.C, mode, cs.CtxLike)
	}
	if o.PostCalls > 1 {
		add("C06", "post-twice:"+cc, "post was called %d times in one run (n=%d c=%d %s, cancelled=%v)", o.PostCalls, n, cs.C, mode, cancelled)
		if cancelled {
			add("C11", "post-twice:"+cc, "cancelled batch: post was called %d times (it is called exactly once, or not at all when the run returns the context's error)", o.PostCalls)
		}
	}
	// ---------------------------------------------------------------- C06: post once, after settlement, positional
	if o.ErrNil {
		if o.PostCalls != 1 {
			add("C06", "post-count:"+cc, "post called %d times in a run whose prep succeeded (n=%d c=%d %s)", o.PostCalls, n, cs.C, mode)
		}
	}
	if o.PostCalls > 0 {
		if o.PostInfl != 0 || o.PostParked != 0 {
			add("C06", "post-early:"+cc, "post entered while %d item executions were still in flight (%d parked): not every item was settled", o.PostInfl, o.PostParked)
		}
		if !o.PostItemsOK {
			add("C06", "post-items:"+cs.Shape, "items handed to post are not the %d items prep produced, in order (got %d)", n, o.PostLenI)
		}
		if o.PostLenR != o.PostLenI || o.PostLenR != n {
			add("C06", "post-len:"+cc, "post got %d items and %d results for %d prepared items", o.PostLenI, o.PostLenR, n)
		}
		for i, s := range o.Slots {
			if i >= n {
				break
			}
			if !s.IsError && s.ValOf >= 0 && s.ValOf != i {
				add("C06", "slot-foreign-value:"+cc, "result %d holds the value produced for item %d", i, s.ValOf)
			}
			if s.IsError && len(s.ErrOf) > 0 && s.ErrOf != "ctx" && s.ErrOf != "other" {
				var j, a int
				if _, err := fmt.Sscanf(s.ErrOf, "%d.", &j); err == nil && j != i {
					add("C06", "slot-foreign-error:"+cc, "result %d holds the error of item %d (%s)", i, j, s.ErrOf)
				}
				_ = a
			}
		}
	}
	// a non-error slot of an item that was executed is the outcome of a successful attempt (or a rescuing fallback) of
	// that item: an item whose every recorded attempt failed cannot have a success in its slot
	if o.PostCalls > 0 && !cs.Lean && !(cs.ErrResult && cs.ExecStyle == "result") {
		okSeen := make([]bool, n)
		for _, e := range o.Events {
			if (e.Kind == "exec-ret" || e.Kind == "fallback") && e.OK && e.Item >= 0 && e.Item < n {
				okSeen[e.Item] = true
			}
		}
		lastOK := make([]bool, n) // the item's last recorded exec / fallback return was a success
		for _, e := range o.Events {
			if (e.Kind == "exec-ret" || e.Kind == "fallback") && e.Item >= 0 && e.Item < n {
				lastOK[e.Item] = e.OK
			}
		}
		if !cancelled && !cs.Stop {
			for i, s := range o.Slots {
				if i < n && s.IsError && lastOK[i] {
					add("C06", "slot-error-without-failure:"+cc, "result %d is an error (%s), but the last thing processing item %d did was to return a success (value of type implementing error: %v): the slot is not the outcome of processing that item", i, s.ErrText, i, i < len(cs.Items) && cs.Items[i].EVal)
					break
				}
			}
		}
		if !cancelled && !cs.Stop {
			for i, s := range o.Slots {
				if i < n && s.IsError && strings.Contains(s.ErrText, "arrives as an error result") && !lastOK[i] && i < len(o.Attempts) && o.Attempts[i] == 0 {
					add("C06", "slot-is-the-item-not-its-outcome:"+cc, "item %d was an error Result when prep handed it over; result %d is that very error (%s) although exec was never called for the item: the slot repeats the input instead of holding the outcome of processing it", i, i, s.ErrText)
					break
				}
			}
		}
		for i, s := range o.Slots {
			if i < n && !s.IsError && i < len(o.Attempts) && o.Attempts[i] > 0 && !okSeen[i] {
				add("C06", "slot-success-without-success:"+cc, "result %d is a success (value nil=%v), but no attempt of item %d and no fallback ever returned a success (%d attempts were made, each failed): the slot is not the outcome of processing that item", i, s.ValNil, i, o.Attempts[i])
				break
			}
		}
	}
	// ---------------------------------------------------------------- C09(d): a slot is a real outcome or an error (any mode, cancelled or not)
	for i, s := range o.Slots {
		if i >= n || s.IsError {
			continue
		}
		if i < len(o.Attempts) && o.Attempts[i] == 0 {
			add("C09", "unprocessed-as-success:"+mode+":"+cc, "item %d was never executed, yet its slot is a non-error result (value nil=%v) — n=%d c=%d %s, cancelled=%v", i, s.ValNil, n, cs.C, mode, cancelled)
			if cancelled {
				add("C11", "unexecuted-not-error:"+mode+":"+cc, "after cancellation post was called, but item %d, which was never executed, carries a non-error result", i)
			}
			continue
		}
		if s.ValOf != i && !(s.ValNil && i < len(cs.Items) && cs.Items[i].Nil && !failed[i]) {
			add("C09", "slot-not-real-outcome:"+mode+":"+cc, "slot %d is a non-error result that is not a value item %d's execution produced (valOf=%d att=%d nil=%v)", i, i, s.ValOf, s.ValAtt, s.ValNil)
		}
	}
	anyFinalFail := false
	for i := 0; i < n; i++ {
		if finalFail(i) {
			anyFinalFail = true
		}
	}
	if !cancelled && cs.Stop && !anyFinalFail && !cs.Lean {
		for i := 0; i < n && i < len(o.Attempts); i++ {
			if o.Attempts[i] == 0 {
				add("C06", "item-not-processed-without-failure:"+cc, "stop mode, no item fails in this run, yet item %d of %d was never processed (slot: %+v) — n=%d c=%d, earlier run on the same node: %v", i, n, slotOf(o, i), n, cs.C, cs.Prelude != nil)
				add("C09", "stopped-without-failure:"+cc, "stop mode: item %d was skipped although no item of this run had failed (earlier run on the same node: %v)", i, cs.Prelude != nil)
				break
			}
		}
	}
	if !cancelled && !cs.Stop {
		// ------------------------------------------------------------ C07 / C02: exactly once, per-item budget, fallback, slot
		for i := 0; i < n; i++ {
			if o.Attempts[i] == 0 {
				add("C07", "item-skipped:"+cc, "item %d of %d was never processed (continue mode, c=%d)", i, n, cs.C)
				add("C02", "batch-item-never-attempted:"+cs.Shape, "batch item %d (continue mode, budget %d): 0 exec attempts, want min(k=%d, N=%d) — every item of a batch gets the attempts a single node run gets, whatever the item is", i, cs.Budget, cs.Items[i].K, cs.Budget)
				continue
			}
			if o.Attempts[i] != wantAtt[i] {
				k := "attempts"
				if o.Attempts[i] > wantAtt[i] && o.Attempts[i]%wantAtt[i] == 0 && !failed[i] {
					k = "item-duplicated"
				}
				add("C07", k+":"+cc, "item %d: %d exec attempts, want exactly %d (budget %d, first success at %d)", i, o.Attempts[i], wantAtt[i], cs.Budget, cs.Items[i].K)
				add("C02", "batch-attempts:"+cc, "batch item %d: %d exec attempts, want exactly min(k=%d, N=%d)", i, o.Attempts[i], cs.Items[i].K, cs.Budget)
			}
			wantFB := 0
			if failed[i] && cs.FB {
				wantFB = 1
			}
			if o.FBCalls[i] != wantFB && o.Attempts[i] == wantAtt[i] {
				add("C07", "fallback-count:"+cs.Build, "item %d: fallback invoked %d times, want %d (all attempts failed: %v, fallback installed via %s)", i, o.FBCalls[i], wantFB, failed[i], cs.Build)
				add("C02", "batch-fallback-count:"+cs.Build, "batch item %d: fallback invoked %d times, want %d", i, o.FBCalls[i], wantFB)
			}
			if o.FBCalls[i] > 0 && !o.FBErrOK[i] {
				add("C07", "fallback-err-arg:"+cc, "item %d: fallback did not receive the error of the item's last attempt", i)
				add("C02", "batch-fallback-err-arg:"+cc, "batch item %d: fallback did not receive the error of the last attempt", i)
			}
			if i < len(o.Slots) && o.Attempts[i] == wantAtt[i] && o.FBCalls[i] == wantFB {
				s := o.Slots[i]
				switch {
				case !failed[i]:
					if cs.ErrResult && cs.ExecStyle == "result" && cs.Items[i].K > 1 && !s.IsError {
						add("C06", "slot-error-state-lost:"+cc, "item %d: exec handed back an error Result (with a nil error); result %d reached post without the error state: %+v", i, i, s)
					}
					if !ownSuccess(cs, s, i) || (!cs.Items[i].Nil && !s.IsError && s.ValAtt != cs.Items[i].K) {
						if !(s.ValOf >= 0 && s.ValOf != i) { // foreign values are C06's
							add("C07", "slot-value:"+cc, "item %d succeeded at attempt %d but its slot is %+v", i, cs.Items[i].K, s)
						}
					}
				case cs.FB && !cs.Items[i].FBE:
					if s.IsError || s.ValOf != i || !s.ValFB {
						add("C07", "slot-fallback:"+cc, "item %d was rescued by its fallback but its slot is %+v", i, s)
					}
				case cs.FB:
					if !s.IsError || s.ErrOf != fmt.Sprintf("%d.fb", i) {
						add("C07", "slot-fallback-error:"+cc, "item %d: fallback failed, slot should carry the fallback's error, got %+v", i, s)
					}
				default:
					if !s.IsError || s.ErrOf != fmt.Sprintf("%d.%d", i, cs.Budget) {
						if !s.IsError {
							add("C07", "slot-error-missing:"+cc, "item %d failed all %d attempts but its slot is not an error: %+v", i, cs.Budget, s)
						} else if s.ErrOf != "other" {
							add("C07", "slot-last-error:"+cc, "item %d: slot carries error %q, want the error of its last attempt %d.%d", i, s.ErrOf, i, cs.Budget)
						} else {
							add("C07", "slot-last-error:"+cc, "item %d: slot error %q does not match the error of its last attempt", i, s.ErrText)
						}
					}
				}
			}
		}
	}
	if !cancelled && cs.Stop && !cs.ErrResult {
		// stop mode: every item that was started still gets its exact retry budget and fallback treatment (C02),
		// and the slot of a fully processed item is that item's own outcome, not something written over it (C06)
		for i := 0; i < n && i < len(o.Attempts); i++ {
			if o.Attempts[i] == 0 {
				continue
			}
			if o.Attempts[i] != wantAtt[i] {
				add("C02", "batch-attempts-stop-mode:"+cc, "stop mode: item %d was started and got %d exec attempts, want exactly min(k=%d, N=%d) — another item's failure must not cut or extend a started item's budget", i, o.Attempts[i], cs.Items[i].K, cs.Budget)
				continue
			}
			wantFB := 0
			if failed[i] && cs.FB {
				wantFB = 1
			}
			if o.FBCalls[i] != wantFB {
				add("C02", "batch-fallback-count-stop-mode:"+cs.Build, "stop mode: item %d: fallback invoked %d times, want %d (all %d attempts failed: %v)", i, o.FBCalls[i], wantFB, cs.Budget, failed[i])
				continue
			}
			if i >= len(o.Slots) {
				continue
			}
			s := o.Slots[i]
			ok := true
			switch {
			case !failed[i]:
				ok = ownSuccess(cs, s, i)
			case cs.FB && !cs.Items[i].FBE:
				ok = !s.IsError && s.ValOf == i && s.ValFB
			case cs.FB:
				ok = s.IsError && s.ErrOf == fmt.Sprintf("%d.fb", i)
			default:
				ok = s.IsError && s.ErrOf == fmt.Sprintf("%d.%d", i, cs.Budget)
			}
			if !ok && !(s.ValOf >= 0 && s.ValOf != i) {
				add("C06", "slot-not-own-outcome:stop:"+cc, "stop mode: item %d was processed completely (%d attempts, first success at %d), but result %d is %+v — not the outcome of processing that item", i, o.Attempts[i], cs.Items[i].K, i, s)
			}
		}
	}
	if cancelled && !cs.Lean && o.PostCalls > 0 {
		// an item whose exec returned a success before / despite the cancellation keeps that outcome
		for _, e := range o.Events {
			if e.Kind == "exec-ret" && e.OK && e.Item >= 0 && e.Item < len(o.Slots) && e.Item < n {
				if s := o.Slots[e.Item]; !ownSuccess(cs, s, e.Item) && !(s.ValOf >= 0 && s.ValOf != e.Item) {
					add("C06", "slot-not-own-outcome:cancel:"+cc, "item %d was executed and its exec returned a success (attempt %d, nil value: %v); after the cancellation its slot is %+v — not the outcome of processing that item", e.Item, e.Attempt, cs.Items[e.Item].Nil, s)
					break
				}
			}
		}
	}
	if len(o.KeptChanged) > 0 {
		add("C06", "earlier-results-overwritten:"+cc, "the result list handed to post in an earlier run of the same node (and kept by the caller) was modified by the later run: %s", o.KeptChanged[0])
		add("C07", "earlier-results-overwritten:"+cc, "the result list of an earlier run was modified by a later run of the same node: %s", o.KeptChanged[0])
	}
	// ---------------------------------------------------------------- C08: the limit
	if !cs.Lean {
		lim := cs.C
		if lim <= 0 {
			lim = 1
		}
		if o.HighWater > lim {
			add("C08", "over-limit:"+cc, "%d item executions were in flight at once with concurrency %d", o.HighWater, cs.C)
		}
		if cs.C == 0 {
			lastItem := -1
			for _, e := range o.Events {
				if e.Kind == "exec-start" && e.Attempt == 1 {
					if e.Item < lastItem {
						add("C08", "sequential-order", "sequential batch executed item %d after item %d", e.Item, lastItem)
					}
					lastItem = e.Item
				}
				if (e.Kind == "exec-start" && e.Attempt > 1 || e.Kind == "fallback") && e.Item >= 0 && e.Item < lastItem {
					add("C08", "sequential-item-not-finished-first", "sequential batch: %s of item %d (attempt %d) came after item %d had already been started — with concurrency 0 an item is finished, retries and fallback included, before the next one starts", e.Kind, e.Item, e.Attempt, lastItem)
					break
				}
			}
		}
		firstFail := -1 // logical time of the first item failure FOR GOOD — its last permitted attempt failed (no fallback installed) or its fallback failed (stop mode: the limit is judged before it only; an attempt that will be retried stops nothing)
		for _, e := range o.Events {
			if (e.Kind == "exec-ret" && !e.OK && (e.Attempt >= cs.Budget || (cs.ErrResult && cs.ExecStyle == "result")) && !cs.FB) || (e.Kind == "fallback" && !e.OK) || (e.Kind == "exec-ret" && !e.OK && cs.Prelude != nil) {
				firstFail = e.Seq
				break
			}
		}
		if cs.Gated && !cancelled && cs.WaitMs == 0 && cs.WaitNs == 0 && !cs.WaitHour {
			for pi, p := range o.Points {
				if p.PostCalls > 0 {
					continue
				}
				if cs.Stop && firstFail >= 0 && p.AfterSeq > firstFail {
					break
				}
				want := minInt(lim, len(p.Parked)+(n-p.Started))
				if len(p.Parked) != want {
					key := "under-use:" + cc
					if len(p.Parked) > want {
						key = "over-limit-q:" + cc
					}
					add("C08", key, "quiescent point %d: %d executions parked, want min(c=%d, unfinished=%d)=%d — the concurrency limit is not fully usable (c blocked executions must run simultaneously) [%s mode]", pi, len(p.Parked), lim, len(p.Parked)+(n-p.Started), want, mode)
					for _, k := range p.Parked {
						if k%100 == 99 && len(p.Parked) < want {
							add("C07", "fallback-holds-up-other-items:"+cc, "quiescent point %d: item %d sits in its fallback and only %d of the %d items that could be in progress are — a failing item's fallback keeps other items from being processed", pi, k/100, len(p.Parked), want)
							break
						}
					}
					break
				}
			}
		}
	}
	// ---------------------------------------------------------------- C09 (a)(b)(c): stop mode
	if cs.Stop && !cancelled && !cs.Lean && !(cs.ErrResult && cs.ExecStyle == "result") { // (an error RESULT handed back with a nil error is not a failed item)
		// time of the first final failure: return of the failing item's last attempt (or its failing fallback)
		sf, gf, itf := -1, 0, -1
		for _, e := range o.Events {
			if e.Kind == "exec-ret" && !e.OK && e.Attempt >= cs.Budget && !cs.FB && e.Item >= 0 {
				sf, gf, itf = e.Seq, e.Gid, e.Item
				break
			}
			if e.Kind == "fallback" && e.Item >= 0 && cs.FB && cs.Items[e.Item].FBE {
				sf, itf = e.Seq, e.Item
				// the fallback runs on the goroutine that ran the item's last attempt
				for _, e2 := range o.Events {
					if e2.Kind == "exec-ret" && e2.Item == e.Item && e2.Attempt == cs.Budget {
						gf = e2.Gid
					}
				}
				break
			}
		}
		if cs.C <= 1 && itf >= 0 {
			// sequential / one worker: items are taken in item order, so nothing behind the first failing item is executed at all
			for j := itf + 1; j < n && j < len(o.Attempts); j++ {
				if o.Attempts[j] > 0 {
					add("C09", "executed-behind-failing-item:c01", "stop mode, concurrency %d: item %d failed for good, yet item %d (behind it in item order) was executed — with sequential execution or one worker no item after the first failing one is executed at all (earlier run on the same node: %v)", cs.C, itf, j, cs.Prelude != nil)
					break
				}
			}
		}
		if sf >= 0 {
			for _, e := range o.Events {
				if e.Kind != "exec-start" || e.Seq < sf || e.Attempt != 1 || e.Item == itf {
					continue
				}
				switch {
				case cs.C <= 1:
					add("C09", "started-after-failure:c01", "stop mode, concurrency %d: item %d failed, yet item %d was started afterwards", cs.C, itf, e.Item)
				case e.Gid == gf:
					add("C09", "same-worker-continues", "stop mode, c=%d: the worker that observed the failure of item %d started item %d afterwards", cs.C, itf, e.Item)
				case cs.Gated:
					add("C09", "new-item-after-handled-failure", "stop mode, c=%d: all other in-flight items were parked inside exec while item %d failed; item %d was nevertheless started after the failure", cs.C, itf, e.Item)
				}
			}
		}
		_ = finalFail
	}
	// ---------------------------------------------------------------- C11: cancellation
	if cancelled && !cs.Lean {
		pre := cs.Cancel.Kind == "pre-cancel" || cs.Cancel.Kind == "pre-deadline" || cs.Cancel.InPrep
		if !o.ErrNil && !o.ErrIsCtx {
			add("C11", "error-not-ctx", "cancelled batch returned error %q, which does not match the context's error", o.ErrText)
		}
		if o.ErrNil && o.PostCalls != 1 {
			add("C11", "success-without-post", "cancelled batch returned success but post was called %d times", o.PostCalls)
		}
		if o.ErrNil && o.PostCalls == 1 && (o.PostLenR != n || o.PostLenI != n) {
			add("C11", "post-without-slots:"+cs.Shape, "cancelled batch returned success; post was given %d items and %d results for the %d items prep produced — every item that was not executed must still be there, carrying an error", o.PostLenI, o.PostLenR, n)
		}
		sc := o.CancelSeq
		if cs.Cancel.Kind == "real-deadline" {
			sc = -1 // the expiry is not tied to a callback: nothing is decided on event positions
		}
		if cs.WaitHour {
			for _, e := range o.Events {
				if e.Kind == "exec-start" && e.Attempt > 1 {
					add("C11", "retry-attempt-despite-hour-wait:"+cc, "the retry wait is one hour and the context was cancelled (%s); attempt %d of item %d was started nevertheless (context already done at its start: %v) — no new retry attempt may be made", cs.Cancel.Kind, e.Attempt, e.Item, e.CtxDone)
					break
				}
			}
		}
		if pre {
			sc = -1
			for _, e := range o.Events {
				if e.Kind == "exec-start" {
					add("C11", "exec-after-pre-cancel:"+cc, "context was done before the first item could start (cancelled before the run or inside the batch's prep), yet item %d attempt %d was executed", e.Item, e.Attempt)
					break
				}
			}
		} else if sc >= 0 {
			perGid := map[int]int{}
			for _, e := range o.Events {
				if e.Kind != "exec-start" || e.Seq < sc {
					continue
				}
				what := "item"
				if e.Attempt > 1 {
					what = "retry attempt"
				}
				switch {
				case cs.C == 0:
					add("C11", "exec-after-cancel:seq", "sequential batch: %s %d.%d started after the context was cancelled (inside item %d attempt %d)", what, e.Item, e.Attempt, cs.Cancel.Item, cs.Cancel.Attempt)
				case !cs.Cancel.DuringWait && e.Gid == o.CancelGid:
					add("C11", "exec-after-cancel:same-worker", "the worker that cancelled (inside item %d) started %s %d.%d afterwards", cs.Cancel.Item, what, e.Item, e.Attempt)
				case cs.Gated:
					add("C11", "exec-after-cancel:gated", "c=%d, all other in-flight items were parked inside exec when the context was cancelled; %s %d.%d was started afterwards", cs.C, what, e.Item, e.Attempt)
				default:
					perGid[e.Gid]++
					if perGid[e.Gid] == 2 {
						add("C11", "exec-after-cancel:free", "a worker started more than one exec call (%s %d.%d) after the context was cancelled", what, e.Item, e.Attempt)
					}
				}
			}
		}
	}
	return fs
}

// ownSuccess reports whether slot s is the successful outcome item i's own execution produced.
func ownSuccess(cs *BatchCase, s Slot, i int) bool {
	if cs.ErrResult && cs.ExecStyle == "result" && i < len(cs.Items) && cs.Items[i].K > 1 {
		return s.IsError && s.ErrOf == fmt.Sprintf("%d.1", i) // the error Result the first attempt returned
	}
	if s.IsError || s.ValFB {
		return false
	}
	if i < len(cs.Items) && cs.Items[i].Nil {
		return s.ValNil
	}
	return s.ValOf == i
}

func slotOf(o *BatchObs, i int) Slot {
	if i < len(o.Slots) {
		return o.Slots[i]
	}
	return Slot{}
}

func replayBatch(c *Cfg, prop string, spec json.RawMessage) {
	var cs BatchCase
	if err := json.Unmarshal(spec, &cs); err != nil {
		fmt.Println("cannot parse batch case:", err)
		return
	}
	o := runBatchCase(&cs)
	b, _ := json.MarshalIndent(o, "", " ")
	fmt.Println(string(b))
	for _, f := range judgeBatch(&cs, o) {
		mark := " "
		if f.Prop == prop {
			mark = "*"
			c.Rep.Violate(prop, prop+":"+f.Key, f.Detail, cs)
		}
		fmt.Printf(" %s finding %s %s: %s\n", mark, f.Prop, f.Key, f.Detail)
	}
}

// runAndJudgeBatch runs a case, reports findings of prop, and returns the observation.
func runAndJudgeBatch(c *Cfg, prop string, cs *BatchCase) *BatchObs {
	logCase(c, cs)
	o := runBatchCase(cs)
	c.Rep.Eval()
	if o.Incon != "" {
		c.Rep.Incon(o.Incon)
		return o
	}
	c.Rep.Count("quiescent_points", int64(len(o.Points)))
	c.Rep.Count("stack_snapshots", o.Snapshots)
	c.Rep.Count("exec_events", int64(countKind(o.Events, "exec-start")))
	c.Rep.HighWater("in_flight_high_water", int64(o.HighWater))
	for _, f := range judgeBatch(cs, o) {
		if f.Prop == prop {
			c.Rep.Violate(prop, prop+":"+f.Key, f.Detail, cs)
		}
	}
	return o
}

func countKind(ev []BEvent, k string) int {
	n := 0
	for _, e := range ev {
		if e.Kind == k {
			n++
		}
	}
	return n
}
