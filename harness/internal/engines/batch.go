package engines

import (
	"context"
	"encoding/json"
	"errors"
	"fmt"
	"math/rand/v2"
	"runtime"
	"sort"
	"sync"
	"sync/atomic"
	"time"

	flyt "github.com/mark3labs/flyt"

	"verif/harness/internal/quiesce"
	"verif/harness/internal/zoo"
)

// ItemScript scripts the processing of one batch item.
type ItemScript struct {
	K   int  `json:"k"`             // 1-based index of the first succeeding attempt (> budget: never)
	FBE bool `json:"fbe,omitempty"` // the fallback (if installed) fails
	Nil bool `json:"nil,omitempty"` // a successful attempt returns a nil value (a zero Result is then the item's genuine outcome)
	FBRes bool `json:"fb_res,omitempty"` // the rescuing fallback hands its value back as a flyt.Result (with a nil error) instead of a bare value
	EVal bool `json:"eval,omitempty"` // a successful attempt (or rescuing fallback) returns a value whose Go type implements error: still a value
}

// CancelSpec injects a cancellation.
type CancelSpec struct {
	Kind    string `json:"kind"` // "cancel" | "deadline" | "pre-cancel" | "pre-deadline"
	Item    int    `json:"item"`
	Attempt int    `json:"attempt"`
	// Helper: cancel from a helper goroutine while item Item is waiting for its retry after attempt Attempt (free-running only)
	DuringWait bool `json:"during_wait,omitempty"`
	InPrep     bool `json:"in_prep,omitempty"` // cancel inside the batch node's prep callback
	DeadlineMs int  `json:"deadline_ms,omitempty"` // Kind "real-deadline": a real context.WithTimeout of this length (expires while items sit in their retry wait)
}

// BatchCase is the replayable case of the batch engines.
type BatchCase struct {
	Family    string       `json:"family"`
	N         int          `json:"n"`
	C         int          `json:"c"`
	Stop      bool         `json:"stop,omitempty"`
	SetMode   bool         `json:"set_mode,omitempty"` // error handling configured explicitly
	Budget    int          `json:"budget"`
	FB        bool         `json:"fb,omitempty"`
	Items     []ItemScript `json:"items"`
	Shape     string       `json:"shape"`      // results any strings ints floats maps named ptrs single nil empty-results empty-any
	Build     string       `json:"build"`      // builder | compose | options
	ExecStyle string       `json:"exec_style"` // result | any
	Gated     bool         `json:"gated"`
	Lean      bool         `json:"lean,omitempty"` // no recording, no harness synchronisation (race variant)
	Choices   []int        `json:"choices,omitempty"`
	Policy    string       `json:"policy,omitempty"` // first | last | random | holdfail (release a failing item first, keep others parked)
	PSeed     uint64       `json:"pseed,omitempty"`
	Cancel    *CancelSpec  `json:"cancel,omitempty"`
	WaitHour  bool         `json:"wait_hour,omitempty"`
	WaitMs    int          `json:"wait_ms,omitempty"`
	Post      *string      `json:"post,omitempty"`       // action returned by post (nil: "done")
	SleepUs   int          `json:"sleep_us,omitempty"`   // free-running: upper bound of random per-call sleep
	Prelude   *Prelude     `json:"prelude,omitempty"`   // an earlier, free-running run of the SAME node object (state must not leak into the observed run)
	PostFail  bool         `json:"post_fail,omitempty"` // post returns an error
	CtxLike   bool         `json:"ctx_like,omitempty"`  // failing attempts return errors that wrap a context error although the batch's context is alive
	DwellMs   int          `json:"dwell_ms,omitempty"`   // gated: at the first two saturated quiescent points the controller waits this long before looking again (time-triggered behaviour such as submit timeouts gets its chance)
	ErrResult bool         `json:"err_result,omitempty"` // failing attempts of the Result-style exec function return (NewErrorResult(e), nil) instead of (_, e): exercised by C17 only
	GateFB    bool         `json:"gate_fb,omitempty"`    // gated: fallback calls park like exec calls (key item*100+99): c items can sit in their fallbacks together
	WaitNs    int          `json:"wait_ns,omitempty"`    // a retry wait in nanoseconds (tiny, non-zero waits)
	// PrepSets: the node is BUILT with this other concurrency / the other error-handling mode, and its own prep
	// callback re-configures it (builder methods) to the case's C / Stop: the last setting before the items run wins
	PrepSets *PrepSets `json:"prep_sets,omitempty"`
	Odd      *OddItem  `json:"odd,omitempty"`
	PostCtxAware bool `json:"post_ctx_aware,omitempty"` // post returns the context's error when it finds the context done (a well-behaved post)
	FarDeadlineMs int `json:"far_deadline_ms,omitempty"` // the context carries a deadline this far away that is NOT reached (the case is discarded if it was): it must change nothing
	AggErrs      bool `json:"agg_errs,omitempty"`      // failing attempts return errors that also wrap an empty *flyt.BatchError (an aggregate returned unconditionally): a failure like any other
	TempErrs     bool `json:"temp_errs,omitempty"`     // failing attempts return errors that report Temporary() == true (a "transient" failure is still a failure; a cancelled run is still cancelled)
}

// OddItem: item I of a "results" batch carries no payload: it is NewResult(nil) (Kind "nil") or an error Result (Kind
// "error") when prep hands it over — an item like any other: exec is called for it (the Any form sees nil), its
// retries, fallback and slot are its own.
type OddItem struct {
	I    int    `json:"i"`
	Kind string `json:"kind"`
}

type PrepSets struct {
	BuiltC int `json:"built_c"`
}

// Prelude describes the earlier run.
type Prelude struct {
	N        int          `json:"n"`
	Items    []ItemScript `json:"items"`
	PostFail bool         `json:"post_fail,omitempty"`
	// the earlier run used this configuration; afterwards the node is re-configured to the case's Budget / C
	// (ReVia: "builder" = builder methods, "option" = the public options applied to the node's BaseNode)
	Budget int    `json:"budget,omitempty"`
	C      int    `json:"c,omitempty"`
	ReVia  string `json:"re_via,omitempty"`
	// ReMode: the earlier run used the OTHER error-handling mode; afterwards the node is re-configured to the case's mode
	ReMode bool `json:"re_mode,omitempty"`
	// Cancelled: the earlier run's context is cancelled from inside the exec of its item 0 (attempt 1) — with more items
	// than workers, so that queued items are picked up after the cancellation
	Cancelled bool `json:"cancelled,omitempty"`
}

type bItem struct {
	Nonce, I int
}
type bOut struct {
	Nonce, I, Attempt int
	FB               bool
}

// bOutE is a successful outcome whose type happens to implement error (a validation finding, say).
type bOutE struct{ bOut }

func (e *bOutE) Error() string { return fmt.Sprintf("finding for item %d", e.I) }

// okVal builds the value a successful attempt / fallback of item i hands back.
func (b *batchRun) okVal(i, a int, fb bool) any {
	if b.script(i).EVal {
		return &bOutE{bOut{b.nonce, i, a, fb}}
	}
	return &bOut{b.nonce, i, a, fb}
}

// BEvent is one observation in a batch run.
type BEvent struct {
	Seq     int    `json:"seq"`
	Kind    string `json:"kind"` // prep exec-start exec-ret fallback post cancel
	Item    int    `json:"item"`
	Attempt int    `json:"attempt,omitempty"`
	Gid     int    `json:"gid,omitempty"`
	OK      bool   `json:"ok,omitempty"`       // exec-ret: attempt succeeded
	CtxDone bool   `json:"ctx_done,omitempty"` // ctx already done at entry
	ArgOK   bool   `json:"arg_ok,omitempty"`
	Note    string `json:"note,omitempty"`
	T       int64  `json:"t_ns,omitempty"` // monotonic ns since run start (C20 only)
}

// QPoint is what the controller saw at one quiescent point.
type QPoint struct {
	Parked     []int `json:"parked"` // item*100+attempt
	Started    int   `json:"started"`
	PostCalls  int   `json:"post_calls"`
	Released   int   `json:"released"`   // key released after this point (-1 none)
	Width      int   `json:"width"`      // number of options
	Goroutines int   `json:"goroutines"` // blocked goroutines seen
	AfterSeq   int   `json:"after_seq"`  // logical time of the point
}

// BatchObs is the complete observation of one batch run.
type BatchObs struct {
	Events      []BEvent `json:"events"`
	Points      []QPoint `json:"points"`
	Action      string   `json:"action"`
	ErrNil      bool     `json:"err_nil"`
	ErrText     string   `json:"err_text,omitempty"`
	ErrIsCtx    bool     `json:"err_is_ctx,omitempty"`
	Returned    bool     `json:"returned"`
	Deadlock    bool     `json:"deadlock,omitempty"`     // all goroutines blocked, nothing parked, Run not returned
	Incon       string   `json:"inconclusive,omitempty"` // quiescence not reached etc.
	Panic       string   `json:"panic,omitempty"`
	HighWater   int      `json:"high_water"`
	PostCalls   int      `json:"post_calls"`
	PostInfl    int      `json:"post_inflight"` // executions in flight when post was entered
	PostParked  int      `json:"post_parked"`
	PostItemsOK bool     `json:"post_items_ok"`
	PostLenI    int      `json:"post_len_items"`
	PostLenR    int      `json:"post_len_results"`
	Slots       []Slot   `json:"slots"`
	CancelSeq   int      `json:"cancel_seq"`
	CancelGid   int      `json:"cancel_gid,omitempty"`
	Attempts    []int    `json:"attempts"`
	FBCalls     []int    `json:"fb_calls"`
	FBArgOK     []bool   `json:"fb_arg_ok"`
	FBErrOK     []bool   `json:"fb_err_ok"`
	FBEarly     []string `json:"fb_early,omitempty"` // fallback calls made before the item's budget was used up
	KeptChanged         []string `json:"kept_changed,omitempty"` // results of an earlier run (kept by the caller) that changed during the later run
	ParkedAtReturn      int `json:"parked_at_return,omitempty"`      // exec calls still parked when Run returned
	CallbacksAfterReturn int `json:"callbacks_after_return,omitempty"` // callbacks that STARTED after Run had returned
	Snapshots   int64    `json:"snapshots"`
	Dump        string   `json:"dump,omitempty"` // goroutine dump taken when a deadlock was diagnosed
	WallNs      int64    `json:"wall_ns"`
	Discard     bool     `json:"discard,omitempty"` // not to be judged (a deadline that was not supposed to be reached was reached)
	ctxErr      error
}

// Slot describes one result slot handed to post.
type Slot struct {
	IsError bool   `json:"is_error"`
	ValOf   int    `json:"val_of"`  // item index the value belongs to (-1: none / not a tagged value)
	ValAtt  int    `json:"val_att"` // attempt that produced it
	ValFB   bool   `json:"val_fb,omitempty"`
	ValNil  bool   `json:"val_nil,omitempty"`
	ErrOf   string `json:"err_of,omitempty"` // id of the scripted error it matches ("i.a" / "i.fb"), "ctx", or "other"
	ErrText string `json:"err_text,omitempty"`
}

type parkedCall struct {
	key int
	ch  chan struct{}
}

type batchRun struct {
	cs    *BatchCase
	nonce int
	mu    sync.Mutex
	seq   int
	ev    []BEvent

	inflight atomic.Int32
	hw       atomic.Int32
	parked   map[int]*parkedCall
	started  int

	payloads []any
	prepRet  any
	attempts []int
	errs     [][]error // per item per attempt
	fbErrs   []error
	fbCalls  []int
	fbArgOK  []bool
	fbErrOK  []bool
	fbEarly  []string

	postCalls   int
	postInfl    int
	postParked  int
	postItemsOK bool
	postLenI    int
	postLenR    int
	postRes     []flyt.Result

	ctx       context.Context
	cancel    func()
	cancelSeq int
	cancelGid int
	t0        time.Time
	timed     bool
	rng       *rand.Rand
	rngMu     sync.Mutex

	// lean mode (no synchronisation): per-item arrays only
	leanAttempts []int
	leanPost     int

	builder *flyt.BatchNodeBuilder // the node as built (for re-configuration between runs)
	// results handed to the post of the earlier run, as the caller kept them, and what they looked like then
	keptRes    []flyt.Result
	keptDesc   []Slot
	keptNonce  int
	postResRaw []flyt.Result // the very slice post received (not a copy)
}

var nonceCtr atomic.Int64

func newBatchRun(cs *BatchCase) *batchRun {
	b := &batchRun{cs: cs, parked: map[int]*parkedCall{}}
	b.rng = rand.New(rand.NewPCG(cs.PSeed, 77))
	b.reset()
	return b
}

// reset prepares the observation state for a run of b.cs (a fresh nonce makes the items of different runs distinguishable).
func (b *batchRun) reset() {
	n := b.cs.N
	b.nonce = int(nonceCtr.Add(1))
	b.cancelSeq, b.cancelGid = -1, 0
	b.seq, b.ev, b.started = 0, nil, 0
	b.inflight.Store(0)
	b.hw.Store(0)
	b.attempts = make([]int, n)
	b.errs = make([][]error, n)
	b.fbErrs = make([]error, n)
	b.fbCalls = make([]int, n)
	b.fbArgOK = make([]bool, n)
	b.fbErrOK = make([]bool, n)
	b.fbEarly = nil
	b.leanAttempts = make([]int, n)
	b.postCalls, b.postInfl, b.postParked, b.postItemsOK, b.postLenI, b.postLenR, b.postRes, b.leanPost = 0, 0, 0, false, 0, 0, nil, 0
	b.mkItems()
}

func (b *batchRun) mkItems() {
	n := b.cs.N
	b.payloads = make([]any, n)
	switch b.cs.Shape {
	case "results":
		rs := make([]flyt.Result, n)
		for i := range rs {
			if o := b.cs.Odd; o != nil && o.I == i { // the one item without a payload of its own
				if o.Kind == "error" {
					rs[i] = flyt.NewErrorResult(&seedErr{b.nonce, i})
				} else {
					rs[i] = flyt.NewResult(nil)
				}
				continue
			}
			p := &bItem{b.nonce, i}
			b.payloads[i] = p
			rs[i] = flyt.NewResult(p)
		}
		b.prepRet = rs
	case "results-with-errors": // every third item already is an error Result: still an item to be processed
		rs := make([]flyt.Result, n)
		for i := range rs {
			if i%3 == 1 {
				rs[i] = flyt.NewErrorResult(&seedErr{b.nonce, i})
				continue
			}
			p := &bItem{b.nonce, i}
			b.payloads[i] = p
			rs[i] = flyt.NewResult(p)
		}
		b.prepRet = rs
	case "any":
		s := make([]any, n)
		for i := range s {
			p := &bItem{b.nonce, i}
			b.payloads[i], s[i] = p, p
		}
		b.prepRet = s
	case "strings":
		s := make([]string, n)
		for i := range s {
			s[i] = fmt.Sprintf("it-%d-%d", b.nonce, i)
			b.payloads[i] = s[i]
		}
		b.prepRet = s
	case "ints":
		s := make([]int, n)
		for i := range s {
			s[i] = b.nonce*1000 + i
			b.payloads[i] = s[i]
		}
		b.prepRet = s
	case "floats":
		s := make([]float64, n)
		for i := range s {
			s[i] = float64(b.nonce*1000+i) + 0.5
			b.payloads[i] = s[i]
		}
		b.prepRet = s
	case "maps":
		s := make([]map[string]any, n)
		for i := range s {
			s[i] = map[string]any{"i": i, "nonce": b.nonce}
			b.payloads[i] = s[i]
		}
		b.prepRet = s
	case "named":
		s := make(zoo.NamedSlice, n)
		for i := range s {
			s[i] = b.nonce*1000 + i
			b.payloads[i] = s[i]
		}
		b.prepRet = s
	case "ptrs":
		s := make([]*bItem, n)
		for i := range s {
			s[i] = &bItem{b.nonce, i}
			b.payloads[i] = s[i]
		}
		b.prepRet = s
	case "single":
		p := &bItem{b.nonce, 0}
		b.payloads = []any{p}
		b.prepRet = p
	case "single-array": // a fixed-size array is ONE value (not a list of items)
		a := [3]int{b.nonce, 1, 2}
		b.payloads = []any{a}
		b.prepRet = a
	case "single-array-16":
		a := [16]byte{byte(b.nonce), 9}
		b.payloads = []any{a}
		b.prepRet = a
	case "single-nil-ptr": // a single value that is a nil pointer / a nil map: still one value, hence one item
		var p *bItem
		b.payloads = []any{p}
		b.prepRet = p
	case "single-nil-map":
		var m map[string]any
		b.payloads = []any{m}
		b.prepRet = m
	case "nil":
		b.prepRet = nil
	case "empty-results":
		b.prepRet = []flyt.Result{}
	case "empty-any":
		b.prepRet = []any{}
	default:
		panic("shape " + b.cs.Shape)
	}
}

// indexOf identifies the item a value denotes.
func (b *batchRun) indexOf(v any) int {
	if o := b.cs.Odd; v == nil && o != nil && o.I < len(b.payloads) && b.cs.Shape == "results" {
		return o.I // the only item whose value is nil
	}
	switch x := v.(type) {
	case [3]int:
		if b.cs.Shape == "single-array" && len(b.payloads) == 1 && b.payloads[0] == any(x) {
			return 0
		}
	case [16]byte:
		if b.cs.Shape == "single-array-16" && len(b.payloads) == 1 && b.payloads[0] == any(x) {
			return 0
		}
	case *bItem:
		if x == nil && b.cs.Shape == "single-nil-ptr" {
			return 0
		}
		if x != nil && x.Nonce == b.nonce && x.I < len(b.payloads) && b.payloads[x.I] == any(x) {
			return x.I
		}
	case string:
		for i, p := range b.payloads {
			if p == any(x) {
				return i
			}
		}
	case int:
		if i := x - b.nonce*1000; i >= 0 && i < len(b.payloads) {
			return i
		}
	case float64:
		if i := int(x-0.5) - b.nonce*1000; i >= 0 && i < len(b.payloads) {
			return i
		}
	case map[string]any:
		if x == nil && b.cs.Shape == "single-nil-map" {
			return 0
		}
		if i, ok := x["i"].(int); ok && x["nonce"] == b.nonce && i < len(b.payloads) {
			return i
		}
	}
	return -1
}

func (b *batchRun) record(e BEvent) int {
	b.mu.Lock()
	e.Seq = b.seq
	b.seq++
	if b.timed {
		e.T = int64(time.Since(b.t0))
	}
	b.ev = append(b.ev, e)
	s := e.Seq
	b.mu.Unlock()
	return s
}

func (b *batchRun) prep(ctx context.Context, s *flyt.SharedStore) (any, error) {
	if !b.cs.Lean {
		b.record(BEvent{Kind: "prep", Item: -1})
	}
	if b.cs.PrepSets != nil && b.builder != nil {
		b.builder.WithBatchConcurrency(b.cs.C).WithBatchErrorHandling(!b.cs.Stop)
	}
	if c := b.cs.Cancel; c != nil && c.InPrep && b.cancel != nil {
		b.cancel()
		sq := b.record(BEvent{Kind: "cancel", Item: -1})
		b.mu.Lock()
		b.cancelSeq = sq
		b.mu.Unlock()
	}
	return b.prepRet, nil
}

func (b *batchRun) script(i int) ItemScript {
	if i < len(b.cs.Items) {
		return b.cs.Items[i]
	}
	return ItemScript{K: 1}
}

// seedErr is the error carried by an item that already IS an error Result when prep hands it over.
type seedErr struct{ Nonce, I int }

func (e *seedErr) Error() string { return fmt.Sprintf("item %d arrives as an error result", e.I) }

// exec is the per-item exec callback (Any form: receives the unwrapped item value).
func (b *batchRun) exec(ctx context.Context, item any) (any, error) {
	return b.execIdx(ctx, b.indexOf(item), item)
}

// itemIndex identifies the item a Result denotes (error-Result items carry their index in the error).
func (b *batchRun) itemIndex(it flyt.Result) int {
	if it.IsError() {
		var se *seedErr
		if errors.As(it.Error(), &se) && se.Nonce == b.nonce {
			return se.I
		}
		return -1
	}
	return b.indexOf(it.Value())
}

func (b *batchRun) execIdx(ctx context.Context, i int, item any) (any, error) {
	if b.cs.Lean {
		if i < 0 {
			return nil, errors.New("unknown item")
		}
		b.leanAttempts[i]++ // unsynchronised on purpose: only item i's processing touches it
		a := b.leanAttempts[i]
		if b.cs.SleepUs > 0 {
			time.Sleep(time.Duration((i*7+a*3)%b.cs.SleepUs) * time.Microsecond)
		}
		if a >= b.script(i).K {
			if b.script(i).Nil {
				return nil, nil
			}
			return b.okVal(i, a, false), nil
		}
		if b.cs.CtxLike {
			return nil, fmt.Errorf("per-attempt timeout (%w): %w", context.Canceled, &itemErr{b.nonce, i, a, false})
		}
		return nil, &itemErr{b.nonce, i, a, false}
	}
	in := b.inflight.Add(1)
	for {
		h := b.hw.Load()
		if in <= h || b.hw.CompareAndSwap(h, in) {
			break
		}
	}
	defer b.inflight.Add(-1)
	gid := quiesce.Self()
	if i < 0 {
		b.record(BEvent{Kind: "exec-start", Item: -1, Gid: gid, Note: "exec received a value that is not an item of this run: " + zoo.Describe(item)})
		return nil, errors.New("unknown item")
	}
	b.mu.Lock()
	b.attempts[i]++
	a := b.attempts[i]
	if a == 1 {
		b.started++
	}
	b.mu.Unlock()
	b.record(BEvent{Kind: "exec-start", Item: i, Attempt: a, Gid: gid, CtxDone: ctx.Err() != nil})
	if b.cs.Gated {
		pc := &parkedCall{key: i*100 + a, ch: make(chan struct{})}
		b.mu.Lock()
		b.parked[pc.key] = pc
		b.mu.Unlock()
		<-pc.ch
	} else if b.cs.SleepUs > 0 {
		b.rngMu.Lock()
		d := b.rng.IntN(b.cs.SleepUs + 1)
		b.rngMu.Unlock()
		time.Sleep(time.Duration(d) * time.Microsecond)
	}
	if c := b.cs.Cancel; c != nil && !c.DuringWait && !c.InPrep && c.Item == i && c.Attempt == a && b.cancel != nil {
		b.cancel()
		s := b.record(BEvent{Kind: "cancel", Item: i, Attempt: a, Gid: gid})
		b.mu.Lock()
		b.cancelSeq, b.cancelGid = s, gid
		b.mu.Unlock()
	}
	ok := a >= b.script(i).K
	var err error
	if !ok {
		err = &itemErr{b.nonce, i, a, false}
		if b.cs.CtxLike {
			err = fmt.Errorf("per-attempt timeout (%w): %w", context.DeadlineExceeded, err)
		}
		if b.cs.TempErrs {
			err = tempItemErr{&itemErr{b.nonce, i, a, false}}
		}
		if b.cs.AggErrs {
			// the attempt reports its failure together with an (empty) aggregate of sub-step errors of the library's own type
			err = fmt.Errorf("%w (sub-steps: %w)", &itemErr{b.nonce, i, a, false}, &flyt.BatchError{})
			if (i+a)%3 == 0 {
				err = fmt.Errorf("sub-steps: %w; attempt: %w", &flyt.BatchError{}, &itemErr{b.nonce, i, a, false})
			}
		}
		b.mu.Lock()
		b.errs[i] = append(b.errs[i], err)
		b.mu.Unlock()
	}
	b.record(BEvent{Kind: "exec-ret", Item: i, Attempt: a, Gid: gid, OK: ok})
	if c := b.cs.Cancel; c != nil && c.DuringWait && c.Item == i && c.Attempt == a && b.cancel != nil {
		// cancel from a helper goroutine shortly after this attempt has returned (the item is then waiting for its retry)
		go func() {
			time.Sleep(20 * time.Millisecond)
			s := b.record(BEvent{Kind: "cancel", Item: i, Attempt: a})
			b.mu.Lock()
			b.cancelSeq = s
			b.mu.Unlock()
			b.cancel()
		}()
	}
	if ok {
		if b.script(i).Nil {
			return nil, nil
		}
		return b.okVal(i, a, false), nil
	}
	if (i+a)%2 == 0 {
		// a failing attempt may hand back a (meaningless) value next to its error: it must never reach a slot
		return &bOut{b.nonce, (i + 1) % (len(b.payloads) + 1), a, false}, err
	}
	return nil, err
}

type itemErr struct {
	Nonce, I, Attempt int
	FB               bool
}

// tempItemErr is an itemErr that calls itself transient.
type tempItemErr struct{ *itemErr }

func (e tempItemErr) Temporary() bool { return true }
func (e tempItemErr) Timeout() bool   { return false }
func (e tempItemErr) Unwrap() error   { return e.itemErr }

func (e *itemErr) Error() string {
	if e.FB {
		return fmt.Sprintf("item %d fallback error", e.I)
	}
	return fmt.Sprintf("item %d attempt %d error", e.I, e.Attempt)
}

func (b *batchRun) fallback(prepRes any, err error) (any, error) {
	v := prepRes
	i := -1
	if r, ok := prepRes.(flyt.Result); ok {
		v = r.Value()
		i = b.itemIndex(r)
	} else {
		i = b.indexOf(v)
	}
	if b.cs.Lean {
		if i < 0 {
			return nil, err
		}
		b.fbCalls[i]++ // unsynchronised: only item i's processing touches slot i
		var ie *itemErr
		b.fbErrOK[i] = errors.As(err, &ie) && ie.Nonce == b.nonce && ie.I == i && ie.Attempt == b.cs.Budget && !ie.FB
		if b.script(i).FBE {
			return nil, &itemErr{b.nonce, i, 0, true}
		}
		return b.okVal(i, 0, true), nil
	}
	if i < 0 {
		b.record(BEvent{Kind: "fallback", Item: -1, Note: "fallback received a value that is not an item: " + zoo.Describe(prepRes)})
		return nil, err
	}
	var ie *itemErr
	errOK := errors.As(err, &ie) && ie.Nonce == b.nonce && ie.I == i && ie.Attempt == b.cs.Budget && !ie.FB
	b.mu.Lock()
	b.fbCalls[i]++
	b.fbArgOK[i] = true
	b.fbErrOK[i] = errOK
	if b.attempts[i] < b.cs.Budget && b.attempts[i] < b.script(i).K {
		b.fbEarly = append(b.fbEarly, fmt.Sprintf("item %d: fallback invoked after %d of %d permitted attempts (none of them succeeded), with error %v", i, b.attempts[i], b.cs.Budget, err))
	}
	b.mu.Unlock()
	note := ""
	if !errOK {
		note = fmt.Sprintf("fallback of item %d received error %v, want the error of attempt %d", i, err, b.cs.Budget)
	}
	b.record(BEvent{Kind: "fallback", Item: i, ArgOK: errOK, Note: note, OK: !b.script(i).FBE})
	if b.cs.Gated && b.cs.GateFB {
		pc := &parkedCall{key: i*100 + 99, ch: make(chan struct{})}
		b.mu.Lock()
		b.parked[pc.key] = pc
		b.mu.Unlock()
		<-pc.ch
	}
	if b.script(i).FBE {
		e := &itemErr{b.nonce, i, 0, true}
		b.mu.Lock()
		b.fbErrs[i] = e
		b.mu.Unlock()
		// a failing fallback may hand back a value next to its error (what it was given, or a partial result): the
		// error counts
		switch i % 3 {
		case 1:
			return prepRes, e
		case 2:
			return flyt.NewResult(&bOut{b.nonce, i, 0, true}), e
		}
		return nil, e
	}
	if b.script(i).FBRes {
		return flyt.NewResult(b.okVal(i, 0, true)), nil // the rescuing fallback answers with a Result of its own: that Result is the item's outcome
	}
	return b.okVal(i, 0, true), nil
}

func (b *batchRun) post(ctx context.Context, s *flyt.SharedStore, items, results []flyt.Result) (flyt.Action, error) {
	if b.cs.Lean {
		b.leanPost++
		// read what the item executions wrote, without synchronisation: the batch must have made it visible
		sum := 0
		for _, a := range b.leanAttempts {
			sum += a
		}
		_ = sum
		b.postRes = append([]flyt.Result(nil), results...)
		b.postLenI, b.postLenR = len(items), len(results)
		b.postItemsOK = len(items) == len(b.payloads)
		for i := range items {
			if b.postItemsOK && b.itemIndex(items[i]) != i {
				b.postItemsOK = false
			}
		}
		if b.cs.Post != nil {
			return flyt.Action(*b.cs.Post), nil
		}
		return "done", nil
	}
	b.mu.Lock()
	b.postCalls++
	b.postInfl = int(b.inflight.Load())
	b.postParked = len(b.parked)
	b.postLenI, b.postLenR = len(items), len(results)
	ok := len(items) == len(b.payloads)
	if ok {
		for i := range items {
			if b.itemIndex(items[i]) != i {
				ok = false
			}
		}
	}
	b.postItemsOK = ok
	b.postRes = append([]flyt.Result(nil), results...)
	b.postResRaw = results
	b.mu.Unlock()
	b.record(BEvent{Kind: "post", Item: -1})
	if b.cs.PostFail {
		return "", errPostFail
	}
	if b.cs.PostCtxAware && ctx.Err() != nil {
		return "", fmt.Errorf("post gives up: %w", ctx.Err())
	}
	if b.cs.Post != nil {
		return flyt.Action(*b.cs.Post), nil
	}
	return "done", nil
}

// build constructs the batch node for the case.
func (b *batchRun) build() flyt.Node {
	n := b.build0()
	switch x := n.(type) {
	case *flyt.BatchNodeBuilder:
		b.builder = x
	case *flyt.BatchNode:
		b.builder = &flyt.BatchNodeBuilder{BatchNode: x}
	}
	return n
}

func (b *batchRun) build0() flyt.Node {
	cs := b.cs
	if cs.Prelude != nil && (cs.Prelude.Budget > 0 || cs.Prelude.ReVia != "" || cs.Prelude.ReMode) {
		// built with the EARLIER configuration; re-configured after the earlier run
		c2 := *cs
		if cs.Prelude.Budget > 0 {
			c2.Budget = cs.Prelude.Budget
		}
		c2.C = cs.Prelude.C
		if cs.Prelude.ReMode {
			c2.Stop, c2.SetMode = !cs.Stop, true
		}
		cs = &c2
	}
	if cs.PrepSets != nil {
		c2 := *cs
		c2.C, c2.Stop, c2.SetMode = cs.PrepSets.BuiltC, !cs.Stop, true
		cs = &c2
	}
	execR := func(ctx context.Context, it flyt.Result) (flyt.Result, error) {
		v, err := b.execIdx(ctx, b.itemIndex(it), it.Value())
		if err != nil {
			if cs.ErrResult {
				return flyt.NewErrorResult(err), nil
			}
			if v != nil {
				return flyt.NewResult(v), err // a value next to the error: the error counts
			}
			return flyt.Result{}, err
		}
		return flyt.NewResult(v), nil
	}
	prepRes := func(ctx context.Context, s *flyt.SharedStore) ([]flyt.Result, error) {
		v, _ := b.prep(ctx, s)
		r, _ := v.([]flyt.Result)
		return r, nil
	}
	wait := time.Duration(cs.WaitMs) * time.Millisecond
	if cs.WaitHour {
		wait = time.Hour
	}
	if cs.WaitNs > 0 {
		wait = time.Duration(cs.WaitNs)
	}
	var nodeOpts []any
	if cs.Budget != 1 || cs.N%2 == 0 {
		nodeOpts = append(nodeOpts, flyt.WithMaxRetries(cs.Budget))
	}
	if cs.C != 0 || cs.N%3 == 0 {
		nodeOpts = append(nodeOpts, flyt.WithBatchConcurrency(cs.C))
	}
	if cs.Stop || cs.SetMode {
		nodeOpts = append(nodeOpts, flyt.WithBatchErrorHandling(!cs.Stop))
	}
	if wait > 0 {
		nodeOpts = append(nodeOpts, flyt.WithWait(wait))
	}
	switch cs.Build {
	case "option-then-builder": // a positive concurrency through the constructor, then the case's value through the builder method
		bn := flyt.NewBatchNode(flyt.WithBatchConcurrency(4), flyt.WithMaxRetries(7)).WithBatchConcurrency(cs.C).WithMaxRetries(cs.Budget)
		if cs.Stop || cs.SetMode {
			bn = bn.WithBatchErrorHandling(!cs.Stop)
		}
		bn = bn.WithPrepFunc(prepRes).WithPostFunc(b.post)
		if cs.ExecStyle == "any" {
			return bn.WithExecFuncAny(b.exec)
		}
		return bn.WithExecFunc(execR)
	case "builder-mode-first": // error handling first, THEN the concurrency (also 0) through the builder methods
		bn := flyt.NewBatchNode()
		if cs.Stop || cs.SetMode {
			if cs.N%2 == 0 {
				bn = flyt.NewBatchNode(flyt.WithBatchErrorHandling(!cs.Stop))
			} else {
				bn = bn.WithBatchErrorHandling(!cs.Stop)
			}
		}
		bn = bn.WithBatchConcurrency(cs.C).WithMaxRetries(cs.Budget)
		if wait > 0 {
			bn = bn.WithWait(wait)
		}
		bn = bn.WithPrepFunc(prepRes).WithPostFunc(b.post)
		if cs.ExecStyle == "any" {
			return bn.WithExecFuncAny(b.exec)
		}
		return bn.WithExecFunc(execR)
	case "builder": // only the []Result prep shapes
		bn := flyt.NewBatchNode().WithMaxRetries(cs.Budget).WithBatchConcurrency(cs.C)
		if cs.Stop || cs.SetMode {
			bn = bn.WithBatchErrorHandling(!cs.Stop)
		}
		if wait > 0 {
			bn = bn.WithWait(wait)
		}
		bn = bn.WithPrepFunc(prepRes).WithPostFunc(b.post)
		if cs.ExecStyle == "any" {
			bn = bn.WithExecFuncAny(b.exec)
		} else {
			bn = bn.WithExecFunc(execR)
		}
		return bn
	case "options": // base options through the constructor, functions through the builder; fallback through the constructor option
		opts := append([]any(nil), nodeOpts...)
		if cs.FB {
			opts = append(opts, flyt.WithExecFallbackFunc(b.fallback))
		}
		if cs.N%2 == 0 { // the exec function through the constructor as well
			if cs.ExecStyle == "any" {
				opts = append(opts, flyt.WithExecFuncAny(b.exec))
			} else {
				opts = append(opts, flyt.WithExecFunc(execR))
			}
			return flyt.NewBatchNode(opts...).WithPrepFunc(prepRes).WithPostFunc(b.post)
		}
		bn := flyt.NewBatchNode(opts...).WithPrepFunc(prepRes).WithPostFunc(b.post)
		if cs.ExecStyle == "any" {
			bn = bn.WithExecFuncAny(b.exec)
		} else {
			bn = bn.WithExecFunc(execR)
		}
		return bn
	case "compose": // a function-style node's CustomNode composed into a batch node: plain prep (any shape), fallback
		opts := append([]any(nil), nodeOpts...)
		opts = append(opts, flyt.WithPrepFuncAny(b.prep))
		if cs.ExecStyle == "any" {
			opts = append(opts, flyt.WithExecFuncAny(b.exec))
		} else {
			opts = append(opts, flyt.WithExecFunc(execR))
		}
		if cs.FB {
			opts = append(opts, flyt.WithExecFallbackFunc(b.fallback))
		}
		bn := flyt.NewBatchNode().WithPostFunc(b.post)
		bn.CustomNode = flyt.NewNode(opts...).CustomNode
		if cs.N%2 == 1 {
			return bn.BatchNode // Run accepts both *BatchNodeBuilder and *BatchNode
		}
		return bn
	}
	panic("build " + cs.Build)
}

var errPostFail = errors.New("scripted batch post failure")

type fakeDeadlineCtx struct {
	context.Context
	done chan struct{}
	err  atomic.Value
}

func (c *fakeDeadlineCtx) Done() <-chan struct{} { return c.done }
func (c *fakeDeadlineCtx) Err() error {
	if e, ok := c.err.Load().(error); ok {
		return e
	}
	return nil
}
func (c *fakeDeadlineCtx) trip() {
	if c.err.CompareAndSwap(nil, error(context.DeadlineExceeded)) {
		close(c.done)
	}
}

// quiesceBudget bounds how long the controller waits for one quiescent point.
const quiesceBudget = 20 * time.Second

// runBatchCase executes one case against the real library.
func runBatchCase(cs *BatchCase) *BatchObs {
	b := newBatchRun(cs)
	node := b.build()
	obs := &BatchObs{CancelSeq: -1}
	if cs.Prelude != nil {
		// an earlier run of the very same node object, free-running; nothing of it may be visible in the observed run
		pcs := *cs
		pcs.N, pcs.Items, pcs.PostFail = cs.Prelude.N, cs.Prelude.Items, cs.Prelude.PostFail
		pcs.Gated, pcs.Cancel, pcs.DwellMs, pcs.Prelude, pcs.Lean, pcs.SleepUs, pcs.WaitMs, pcs.WaitHour = false, nil, 0, nil, false, 0, 0, false
		pctx, pcancel := context.WithCancel(context.Background())
		if cs.Prelude.Cancelled {
			pcs.Cancel = &CancelSpec{Kind: "cancel", Item: 0, Attempt: 1}
			pcs.SleepUs = 200 // the other workers are busy for a moment while the cancellation happens
		}
		b.cs = &pcs
		b.reset()
		b.cancel = pcancel
		pdone := make(chan struct{})
		go func() {
			defer close(pdone)
			defer func() { recover() }()
			_, _ = flyt.Run(pctx, node, flyt.NewSharedStore())
		}()
		select {
		case <-pdone:
		case <-time.After(30 * time.Second):
			obs.Incon = "prelude run did not return"
			return obs
		}
		// the caller keeps what post was given (e.g. stores it): a later run must not touch it
		b.mu.Lock()
		b.keptRes = b.postResRaw
		for _, r := range b.keptRes {
			b.keptDesc = append(b.keptDesc, b.describeSlot(r, context.Background()))
		}
		keptNonce := b.nonce
		b.mu.Unlock()
		if cs.Prelude.ReVia != "" && b.builder != nil {
			if cs.Prelude.ReVia == "option" {
				flyt.WithMaxRetries(cs.Budget)(b.builder.BaseNode)
				flyt.WithBatchConcurrency(cs.C)(b.builder.BaseNode)
				if cs.Prelude.ReMode {
					flyt.WithBatchErrorHandling(!cs.Stop)(b.builder.BaseNode)
				}
			} else {
				b.builder.WithMaxRetries(cs.Budget).WithBatchConcurrency(cs.C)
				if cs.Prelude.ReMode {
					b.builder.WithBatchErrorHandling(!cs.Stop)
				}
			}
		}
		pcancel()
		b.cancel = nil
		b.cs = cs
		b.reset()
		b.keptNonce = keptNonce
	}
	var ctx context.Context = context.Background()
	stop := func() {}
	if cs.Cancel != nil {
		switch cs.Cancel.Kind {
		case "cause": // cancelled with a custom cause: ctx.Err() is still context.Canceled
			c, cf := context.WithCancelCause(context.Background())
			ctx, b.cancel = c, func() { cf(errors.New("custom cancellation cause")) }
			stop = b.cancel
		case "cancel-far-deadline": // explicit cancel(), on a context that also carries a deadline two hours away
			c, cf := context.WithTimeout(context.Background(), 2*time.Hour)
			ctx, b.cancel, stop = c, cf, cf
		case "real-deadline":
			c, cf := context.WithTimeout(context.Background(), time.Duration(cs.Cancel.DeadlineMs)*time.Millisecond)
			ctx, stop = c, cf
			go func() { // note when the deadline has passed (for the record only: nothing is decided on this event's position)
				<-c.Done()
				s := b.record(BEvent{Kind: "cancel", Item: -1})
				b.mu.Lock()
				if b.cancelSeq < 0 {
					b.cancelSeq = s
				}
				b.mu.Unlock()
			}()
		case "deadline", "pre-deadline":
			f := &fakeDeadlineCtx{Context: context.Background(), done: make(chan struct{})}
			ctx, b.cancel = f, f.trip
		default:
			c, cf := context.WithCancel(context.Background())
			ctx, b.cancel, stop = c, cf, cf
		}
		if cs.Cancel.Kind == "pre-cancel" || cs.Cancel.Kind == "pre-deadline" {
			b.cancel()
			b.cancelSeq = 0
		}
	}
	if cs.Cancel == nil && cs.FarDeadlineMs > 0 {
		c, cf := context.WithTimeout(context.Background(), time.Duration(cs.FarDeadlineMs)*time.Millisecond)
		ctx, stop = c, cf
	}
	defer stop()
	b.ctx = ctx
	b.t0 = time.Now()
	b.timed = cs.WaitMs > 0 || cs.WaitNs > 0
	store := flyt.NewSharedStore()
	done := make(chan struct{})
	var action flyt.Action
	var err error
	var panicked string
	go func() {
		defer close(done)
		defer func() {
			if p := recover(); p != nil {
				panicked = fmt.Sprint(p)
			}
		}()
		action, err = flyt.Run(ctx, node, store)
		b.record(BEvent{Kind: "returned", Item: -1})
	}()
	if cs.Gated {
		self := quiesce.Self()
		var st quiesce.Stats
		step := 0
		dwells := 0
		idle := 0
		prng := rand.New(rand.NewPCG(cs.PSeed, 99))
		for {
			sn, ok := quiesce.Wait(self, quiesceBudget, &st)
			if !ok {
				// Not quiescent for 20 s. If the context has been cancelled and the only goroutines that are not
				// blocked are asleep in a timer sleep, the batch is sleeping out a wait it was told to abandon:
				// that is the hang C11 forbids, not an inconclusive run.
				onlySleepers := sn.Active > 0
				for _, stt := range sn.States {
					if stt != "sleep" && !quiesce.Blocked(stt) {
						onlySleepers = false
					}
				}
				b.mu.Lock()
				cancelledAlready := b.cancelSeq >= 0
				b.mu.Unlock()
				if onlySleepers && cancelledAlready {
					obs.Deadlock = true
					dump := make([]byte, 1<<16)
					obs.Dump = string(dump[:runtime.Stack(dump, true)])
					break
				}
				obs.Incon = fmt.Sprintf("quiescence not reached within %v at step %d (states %v)", quiesceBudget, step, sn.States)
				b.releaseAll()
				break
			}
			select {
			case <-done:
			default:
			}
			finished := false
			select {
			case <-done:
				finished = true
			default:
			}
			if finished {
				break
			}
			if cs.DwellMs > 0 && dwells < 2 {
				b.mu.Lock()
				unstarted := cs.N - b.started
				b.mu.Unlock()
				if unstarted > 0 {
					dwells++
					time.Sleep(time.Duration(cs.DwellMs) * time.Millisecond)
					if sn, ok = quiesce.Wait(self, quiesceBudget, &st); !ok {
						obs.Incon = "quiescence not reached after dwell"
						b.releaseAll()
						break
					}
				}
			}
			b.mu.Lock()
			keys := make([]int, 0, len(b.parked))
			for k := range b.parked {
				keys = append(keys, k)
			}
			sort.Ints(keys)
			qp := QPoint{Parked: keys, Started: b.started, PostCalls: b.postCalls, Width: len(keys), Released: -1, Goroutines: sn.Goroutines, AfterSeq: b.seq}
			b.mu.Unlock()
			if len(keys) == 0 && idle < 3 {
				// A goroutine inside a short retry wait (a select on a timer) looks blocked although its timer is about to
				// fire. Before the verdict, give every configured finite wait ample time to elapse and look again.
				idle++
				time.Sleep(150*time.Millisecond + 20*(time.Duration(cs.WaitMs)*time.Millisecond+time.Duration(cs.WaitNs)))
				continue
			}
			if len(keys) == 0 {
				// everything is blocked, nothing is parked, Run has not returned: nothing can ever run again
				// (a goroutine waiting in a select on a 1-hour timer counts as blocked: that is the hang C11/C20 speak of)
				obs.Deadlock = true
				obs.Points = append(obs.Points, qp)
				dump := make([]byte, 1<<16)
				obs.Dump = string(dump[:runtime.Stack(dump, true)])
				break
			}
			var idx int
			switch {
			case step < len(cs.Choices):
				idx = cs.Choices[step] % len(keys)
			case cs.Policy == "last":
				idx = len(keys) - 1
			case cs.Policy == "random":
				idx = prng.IntN(len(keys))
			case cs.Policy == "hold-fallbacks":
				// release exec calls first; fallbacks stay parked until nothing else is left (then the lowest one goes)
				idx = 0
				for j, k := range keys {
					if k%100 != 99 {
						idx = j
						break
					}
				}
			case cs.Policy == "holdfail":
				// release a call that is scripted to fail (or to cancel) first, keep the others parked as long as possible
				idx = -1
				for j, k := range keys {
					it, at := k/100, k%100
					if cs.Cancel != nil && cs.Cancel.Item == it && cs.Cancel.Attempt == at {
						idx = j
						break
					}
					if idx < 0 && at < b.script(it).K {
						idx = j
					}
				}
				if idx < 0 {
					idx = 0
				}
			default:
				idx = 0
			}
			idle = 0
			qp.Released = keys[idx]
			obs.Points = append(obs.Points, qp)
			b.mu.Lock()
			pc := b.parked[keys[idx]]
			delete(b.parked, keys[idx])
			b.mu.Unlock()
			close(pc.ch)
			step++
			if step > 100000 {
				obs.Incon = "step bound"
				b.releaseAll()
				break
			}
		}
		// Run has returned: nothing of this run may still be parked inside a callback. If something is, release it
		// and watch what else the library still invokes on behalf of a run that is already over.
		b.mu.Lock()
		obs.ParkedAtReturn = len(b.parked)
		b.mu.Unlock()
		if obs.ParkedAtReturn > 0 && !obs.Deadlock && obs.Incon == "" {
			for round := 0; round < 50; round++ {
				b.mu.Lock()
				for k, pc := range b.parked {
					close(pc.ch)
					delete(b.parked, k)
				}
				b.mu.Unlock()
				if _, ok := quiesce.Wait(self, 2*time.Second, &st); !ok {
					break
				}
				b.mu.Lock()
				left := len(b.parked)
				b.mu.Unlock()
				if left == 0 {
					break
				}
			}
		}
		obs.Snapshots = st.Snapshots
		if obs.Deadlock || obs.Incon != "" {
			// leave the stuck goroutines behind; the child process handles one stuck case and then restarts
		} else {
			<-done
		}
	} else {
		t0 := time.Now()
		self := quiesce.Self()
		var st quiesce.Stats
		quiet := 0
		grace := 150*time.Millisecond + 20*(time.Duration(cs.WaitMs)*time.Millisecond+time.Duration(cs.WaitNs))
	freeWait:
		for {
			select {
			case <-done:
				break freeWait
			case <-time.After(grace):
			}
			// Not returned yet. If the whole process is blocked (nothing runnable, nothing asleep in a timer sleep) in
			// three looks a grace period apart — long enough for every configured finite retry wait to elapse — the run
			// will never return: a verdict (the hang C08 / C11 / C20 speak of), not a timeout.
			if time.Since(t0) > 2*time.Second {
				if sn, ok := quiesce.Wait(self, 300*time.Millisecond, &st); ok && sn.Sleepers == 0 {
					if quiet++; quiet >= 3 {
						select {
						case <-done:
							break freeWait
						default:
						}
						obs.Deadlock = true
						dump := make([]byte, 1<<16)
						obs.Dump = string(dump[:runtime.Stack(dump, true)])
						break freeWait
					}
				} else {
					quiet = 0
				}
			}
			if time.Since(t0) > 60*time.Second {
				obs.Incon = "free-running batch did not return within 60s"
				break freeWait
			}
		}
	}
	obs.WallNs = int64(time.Since(b.t0))
	select {
	case <-done:
		obs.Returned = true
		obs.Action = string(action)
		obs.ErrNil = err == nil
		obs.Panic = panicked
		if err != nil {
			obs.ErrText = err.Error()
			if ce := ctx.Err(); ce != nil && errors.Is(err, ce) {
				obs.ErrIsCtx = true
			}
		}
	default:
	}
	obs.ctxErr = ctx.Err()
	if cs.Cancel == nil && cs.FarDeadlineMs > 0 && ctx.Err() != nil && obs.Incon == "" && !obs.Deadlock {
		obs.Discard = true // the machine was too slow: the far deadline was reached after all
	}
	b.mu.Lock()
	defer b.mu.Unlock()
	obs.Events = append([]BEvent(nil), b.ev...)
	retSeq := -1
	for _, e := range obs.Events {
		if e.Kind == "returned" {
			retSeq = e.Seq
		}
		if retSeq >= 0 && e.Seq > retSeq && (e.Kind == "exec-start" || e.Kind == "fallback" || e.Kind == "post") {
			obs.CallbacksAfterReturn++
		}
	}
	obs.HighWater = int(b.hw.Load())
	obs.PostCalls = b.postCalls
	obs.PostInfl, obs.PostParked, obs.PostItemsOK = b.postInfl, b.postParked, b.postItemsOK
	obs.PostLenI, obs.PostLenR = b.postLenI, b.postLenR
	obs.CancelSeq, obs.CancelGid = b.cancelSeq, b.cancelGid
	obs.Attempts = append([]int(nil), b.attempts...)
	obs.FBCalls = append([]int(nil), b.fbCalls...)
	obs.FBArgOK = append([]bool(nil), b.fbArgOK...)
	obs.FBErrOK = append([]bool(nil), b.fbErrOK...)
	obs.FBEarly = append([]string(nil), b.fbEarly...)
	if cs.Lean {
		obs.PostCalls = b.leanPost
		obs.Attempts = append([]int(nil), b.leanAttempts...)
	}
	for _, r := range b.postRes {
		obs.Slots = append(obs.Slots, b.describeSlot(r, ctx))
	}
	if b.keptRes != nil {
		saved := b.nonce
		b.nonce = b.keptNonce
		for i, r := range b.keptRes {
			now := b.describeSlot(r, context.Background())
			if i < len(b.keptDesc) && now != b.keptDesc[i] {
				obs.KeptChanged = append(obs.KeptChanged, fmt.Sprintf("result %d of the earlier run was %+v when post received it and is %+v after the later run", i, b.keptDesc[i], now))
			}
		}
		b.nonce = saved
	}
	return obs
}

func (b *batchRun) releaseAll() {
	b.mu.Lock()
	for k, pc := range b.parked {
		close(pc.ch)
		delete(b.parked, k)
	}
	b.cs.Gated = false // later calls run free
	b.mu.Unlock()
}

func (b *batchRun) describeSlot(r flyt.Result, ctx context.Context) Slot {
	s := Slot{IsError: r.IsError(), ValOf: -1}
	if r.IsError() {
		e := r.Error()
		s.ErrText = e.Error()
		var ie *itemErr
		switch {
		case errors.As(e, &ie) && ie.Nonce == b.nonce:
			if ie.FB {
				s.ErrOf = fmt.Sprintf("%d.fb", ie.I)
			} else {
				s.ErrOf = fmt.Sprintf("%d.%d", ie.I, ie.Attempt)
			}
		case ctx.Err() != nil && errors.Is(e, ctx.Err()):
			s.ErrOf = "ctx"
		default:
			s.ErrOf = "other"
		}
		return s
	}
	v := r.Value()
	if v == nil {
		s.ValNil = true
		return s
	}
	if o, ok := v.(*bOut); ok && o.Nonce == b.nonce {
		s.ValOf, s.ValAtt, s.ValFB = o.I, o.Attempt, o.FB
	}
	if o, ok := v.(*bOutE); ok && o.Nonce == b.nonce {
		s.ValOf, s.ValAtt, s.ValFB = o.I, o.Attempt, o.FB
	}
	return s
}

func isBatchCase(spec json.RawMessage) bool {
	var probe struct {
		Shape string `json:"shape"`
	}
	return json.Unmarshal(spec, &probe) == nil && probe.Shape != ""
}
