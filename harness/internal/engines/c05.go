package engines

import (
	"encoding/json"
	"fmt"
	"strings"

	"verif/harness/internal/scen"
)

func init() {
	register(&Engine{Prop: "C05", Doc: "cancellation of runs and flows", Run: runC05, Replay: replayC05})
}

func keysOf(evs []scen.Event) []string {
	var k []string
	for _, e := range evs {
		if e.Phase != "anomaly" {
			k = append(k, e.Key())
		}
	}
	return k
}

// judgeC05 applies the three predicates of C05 to one injected run.
func judgeC05(c *Cfg, sc *scen.Scenario, ref []string, o *scen.Outcome, record bool) []scen.Finding {
	var fs []scen.Finding
	add := func(key, f string, a ...any) {
		fs = append(fs, scen.Finding{Prop: "C05", Key: key, Detail: fmt.Sprintf(f, a...)})
	}
	inj := sc.Inject
	if o.Panic != "" {
		add("panic", "cancelled run panicked: %s", o.Panic)
		return fs
	}
	if strings.HasPrefix(inj.Kind, "pre-") {
		if len(o.Events) > 0 {
			add("callback-after-done-context:"+inj.Kind, "context was already done (%s) when the run started, yet %d user callbacks were invoked (first: %s)", inj.Kind, len(o.Events), o.Events[0].Key())
		}
		if o.ErrNil {
			add("success-on-done-context:"+inj.Kind, "context was already done (%s) but the run reported success (action %q)", inj.Kind, o.Action)
		} else if !strings.Contains(o.ErrID, "ctx") {
			add("error-not-ctx:"+inj.Kind, "context was already done; returned error %q does not match the context's error %q", o.ErrText, o.CtxErr)
		}
		return fs
	}
	if o.CancelSeq < 0 {
		return fs // the injection point was never reached
	}
	for _, e := range o.Events {
		if e.Seq <= o.CancelSeq {
			continue
		}
		if e.Phase == "exec" {
			add("exec-after-cancel", "context cancelled inside callback #%d (%s); exec attempt %s was started afterwards", o.CancelSeq, o.Events[o.CancelSeq].Key(), e.Key())
			break
		}
		if e.Phase == "prep" {
			add("node-after-cancel", "context cancelled inside callback #%d (%s); a further node was started afterwards (%s)", o.CancelSeq, o.Events[o.CancelSeq].Key(), e.Key())
			break
		}
	}
	// batch item calls are not part of this property (C11 decides what a cancelled batch does with its items)
	noItems := func(keys []string) []string {
		var out []string
		for _, k := range keys {
			if !strings.Contains(k, ".item.") {
				out = append(out, k)
			}
		}
		return out
	}
	got := noItems(keysOf(o.Events))
	ref = noItems(ref)
	// "cut short" = the cancelled run made only some of the callbacks the un-cancelled run makes, in the same
	// order (a subsequence: a strict prefix in the usual case, but skipped retry attempts count as well)
	prefix := len(got) <= len(ref)
	if prefix {
		j := 0
		for _, k := range got {
			for j < len(ref) && ref[j] != k {
				j++
			}
			if j == len(ref) {
				prefix = false
				break
			}
			j++
		}
	}
	switch {
	case !prefix:
		if record {
			c.Rep.Count("unjudged.not_a_subsequence", 1)
		}
	case len(got) < len(ref): // cut short
		if record {
			c.Rep.Count("cut_short", 1)
		}
		if o.ErrNil {
			add("cut-short-success:"+o.Events[o.CancelSeq].Phase, "run was cut short by the cancellation in callback #%d (%d of %d callbacks ran) but reported success with action %q", o.CancelSeq, len(got), len(ref), o.Action)
		} else if !strings.Contains(o.ErrID, "ctx") {
			add("cut-short-error-not-ctx:"+o.Events[o.CancelSeq].Phase, "run was cut short by the cancellation in callback #%d but its error %q does not match the context's error %q", o.CancelSeq, o.ErrText, o.CtxErr)
		}
	default:
		if record {
			c.Rep.Count("ran_to_completion_despite_cancel", 1)
		}
	}
	return fs
}

// runC05TripAtCheck: the cancellation arrives right after one of the library's own context checks. With a retry
// wait configured the wait itself must notice it: no further exec attempt may start, and the cut-short run must
// report the context's error.
func runC05TripAtCheck(c *Cfg) {
	r := c.Rep
	n := c.Pick(200, 20000)
	parallel(c, n, func(i int) {
		rg := c.Rng("c05trip", i)
		kinds := []int{scen.KBase, scen.KBaseFB, scen.KPlainRetry, scen.KPlainRetryFB, scen.KFnOptRes, scen.KFnOptAny, scen.KFnBldRes, scen.KFnBldAny, scen.KFnMixed}
		ns := scen.NodeSpec{Kind: kinds[rg.IntN(len(kinds))], N: 2 + rg.IntN(3), WaitMs: 1 + rg.IntN(3), HasFB: rg.IntN(2) == 0}
		ns.Visits = []scen.Visit{{FirstOK: 2 + rg.IntN(ns.N), Post: "go"}}
		base := &scen.Scenario{Nodes: []scen.NodeSpec{ns}, Root: 0, Runs: 1}
		refOut := scen.NewExec(base).RunOnce()
		ref := keysOf(refOut.Events)
		r.EvalN(1)
		for k := 1; k <= 3*len(ref)+3; k++ {
			v := base.Clone()
			v.Inject = scen.Inject{Kind: "trip-at-check", At: k}
			o := scen.NewExec(v).RunOnce()
			r.EvalN(1)
			if o.CancelSeq < 0 {
				break // fewer than k checks were made
			}
			r.Count("inject.trip-at-check", 1)
			for _, e := range o.Events {
				if e.Phase == "exec" && e.Attempt >= 2 && e.Seq >= o.CancelSeq && e.CtxDone {
					r.Violate("C05", "C05:retry-attempt-after-cancel-before-wait", fmt.Sprintf("the context was cancelled right after the library's context check #%d (before the %d ms retry wait); the wait did not notice it and exec attempt %d was started with the context already done", k, ns.WaitMs, e.Attempt), ScenCase{"trip-at-check", v})
					break
				}
			}
			got := keysOf(o.Events)
			if len(got) < len(ref) && o.ErrNil {
				r.Violate("C05", "C05:cut-short-success:trip-at-check", fmt.Sprintf("run was cut short by a cancellation arriving after context check #%d (%d of %d callbacks ran) but reported success", k, len(got), len(ref)), ScenCase{"trip-at-check", v})
			} else if len(got) < len(ref) && !strings.Contains(o.ErrID, "ctx") {
				r.Violate("C05", "C05:cut-short-error-not-ctx:trip-at-check", fmt.Sprintf("run was cut short by a cancellation arriving after context check #%d but its error %q does not match the context's error", k, o.ErrText), ScenCase{"trip-at-check", v})
			}
			r.Nontrivial(fmt.Sprintf("trip %s @%d", scenSig(base), k))
		}
	})
}

// runC05FlowRetries: flows that carry a retry budget of their own, cancelled inside every callback: no further
// attempt of the flow starts a node again, and the cut-short run reports the context's error.
func runC05FlowRetries(c *Cfg) {
	r := c.Rep
	cases := flowRetryCases()
	parallel(c, len(cases), func(i int) {
		base := cases[i]
		refOut := scen.NewExec(base).RunOnce()
		ref := keysOf(refOut.Events)
		r.EvalN(1)
		for p := 0; p < len(ref); p++ {
			v := base.Clone()
			v.Inject = scen.Inject{Kind: []string{"cancel", "deadline", "cancel-cause", "cancel-far"}[(i+p)%4], At: p}
			o := scen.NewExec(v).RunOnce()
			r.EvalN(1)
			r.Count("inject.flow_with_retries", 1)
			for _, f := range judgeC05(c, v, ref, &o, true) {
				r.Violate("C05", "C05:"+f.Key, f.Detail, ScenCase{"inject-flow-with-retries", v})
			}
			if p < len(ref)-1 {
				r.Nontrivial(fmt.Sprintf("fr %s|@%d", scenSig(base), p))
			}
		}
	})
}

// runC05Getters: user-supplied settings getters (GetMaxRetries / GetWait of nodes that bring their own) are user
// callbacks too: a cancellation that happens inside one of them is a cancellation during the run — no exec attempt
// starts afterwards.
func runC05Getters(c *Cfg) {
	r := c.Rep
	var cases []*scen.Scenario
	for _, kind := range []int{scen.KPlainRetry, scen.KPlainRetryFB, scen.KBaseOverride} {
		for nb := 1; nb <= 3; nb++ {
			for k := 1; k <= nb+1; k++ {
				for _, w := range []int{0, 1} {
					for depth := 0; depth <= 1; depth++ {
						nodes := []scen.NodeSpec{{Kind: kind, N: nb, WaitMs: w, Visits: []scen.Visit{{FirstOK: k, Post: "go"}}}}
						root := 0
						if depth == 1 {
							nodes = append(nodes, scen.NodeSpec{Kind: scen.KFlow, N: 1, Flow: &scen.FlowSpec{Start: 0}})
							root = 1
						}
						cases = append(cases, &scen.Scenario{Nodes: nodes, Root: root, Runs: 1})
					}
				}
			}
		}
	}
	parallel(c, len(cases), func(i int) {
		base := cases[i]
		refOut := scen.NewExec(base).RunOnce()
		ref := keysOf(refOut.Events)
		r.EvalN(1)
		for j := 1; j <= 2*len(ref)+4; j++ {
			v := base.Clone()
			v.Inject = scen.Inject{Kind: "cancel-in-getter", At: j}
			o := scen.NewExec(v).RunOnce()
			r.EvalN(1)
			if o.CancelSeq < 0 && o.CtxErr == "" {
				break // fewer than j getter calls were made
			}
			r.Count("inject.cancel-in-getter", 1)
			for _, f := range judgeC05(c, v, ref, &o, true) {
				r.Violate("C05", "C05:"+f.Key, "cancelled inside the node's own settings getter (call #"+fmt.Sprint(j)+"): "+f.Detail, ScenCase{"cancel-in-getter", v})
			}
			r.Nontrivial(fmt.Sprintf("getter %s|%d", scenSig(base), j))
		}
	})
}

// runC05DeadlineInWait: the context's own deadline expires while the node sits in a retry wait that is ten times
// longer: the run is cut short there (no further attempt) and its error matches the context's error — which is
// DeadlineExceeded, not Canceled.
func runC05DeadlineInWait(c *Cfg) {
	r := c.Rep
	var cases []*scen.Scenario
	for kind := 0; kind < scen.NumScriptedKinds; kind++ {
		if !scen.KindHasRetry(kind) {
			continue
		}
		for depth := 0; depth <= 1; depth++ {
			nodes := []scen.NodeSpec{{Kind: kind, N: 3, WaitMs: 400, HasFB: kind%2 == 0, Visits: []scen.Visit{{FirstOK: 4, Post: "go"}}}}
			root := 0
			if depth == 1 {
				nodes = append(nodes, scen.NodeSpec{Kind: scen.KFlow, N: 1, Flow: &scen.FlowSpec{Start: 0}})
				root = 1
			}
			cases = append(cases, &scen.Scenario{Nodes: nodes, Root: root, Runs: 1, Inject: scen.Inject{Kind: "deadline-in-wait", At: 40}})
		}
	}
	parallelN(c, len(cases), 32, func(i int) {
		sc := cases[i]
		o := scen.NewExec(sc).RunOnce()
		r.EvalN(1)
		r.Count("inject.deadline-in-wait", 1)
		nExec := 0
		for _, e := range o.Events {
			if e.Phase == "exec" {
				nExec++
			}
		}
		switch {
		case o.ErrNil:
			r.Violate("C05", "C05:cut-short-success:deadline-in-wait", fmt.Sprintf("the context's 40 ms deadline expired during the 400 ms retry wait, yet the run reported success (%d attempts)", nExec), ScenCase{"deadline-in-wait", sc})
		case !strings.Contains(o.ErrID, "ctx"):
			r.Violate("C05", "C05:cut-short-error-not-ctx:deadline-in-wait", fmt.Sprintf("the context's deadline expired during the retry wait; the returned error %q does not match the context's error %q", o.ErrText, o.CtxErr), ScenCase{"deadline-in-wait", sc})
		case nExec > 1:
			r.Violate("C05", "C05:exec-after-cancel:deadline-in-wait", fmt.Sprintf("the 40 ms deadline expired during the 400 ms wait after attempt 1, yet %d attempts were made", nExec), ScenCase{"deadline-in-wait", sc})
		}
		r.Nontrivial("diw:" + scenSig(sc))
	})
}

// runC05TinyWait: a retry wait of a few nanoseconds is over the moment it is looked at; a cancellation made inside the
// failing attempt before it must still keep the next attempt from starting (every time, not half of the time).
func runC05TinyWait(c *Cfg) {
	r := c.Rep
	var cases []*scen.Scenario
	for kind := 0; kind < scen.NumScriptedKinds; kind++ {
		if !scen.KindHasRetry(kind) {
			continue
		}
		for _, wns := range []int{1, 60} {
			for _, at := range []int{1, 2} {
				for depth := 0; depth <= 1; depth++ {
					nodes := []scen.NodeSpec{{Kind: kind, N: 4, WaitNs: wns, HasFB: (kind+at)%2 == 0, Visits: []scen.Visit{{FirstOK: 5, Post: "go"}}}}
					root := 0
					if depth == 1 {
						nodes = append(nodes, scen.NodeSpec{Kind: scen.KFlow, N: 1, Flow: &scen.FlowSpec{Start: 0}})
						root = 1
					}
					cases = append(cases, &scen.Scenario{Nodes: nodes, Root: root, Runs: 1, Inject: scen.Inject{Kind: []string{"cancel", "deadline"}[(kind+wns)%2], At: at}})
				}
			}
		}
	}
	reps := c.Pick(24, 400)
	parallel(c, len(cases), func(i int) {
		base := cases[i].Clone()
		base.Inject = scen.Inject{}
		ref := keysOf(scen.NewExec(base).RunOnce().Events)
		for rep := 0; rep < reps; rep++ {
			o := scen.NewExec(cases[i]).RunOnce()
			r.EvalN(1)
			r.Count("inject.tiny-wait", 1)
			bad := false
			for _, f := range judgeC05(c, cases[i], ref, &o, rep == 0) {
				r.Violate("C05", "C05:"+f.Key, fmt.Sprintf("retry wait of %d ns: %s", cases[i].Nodes[0].WaitNs, f.Detail), ScenCase{"tiny-wait", cases[i]})
				bad = true
			}
			if bad {
				break
			}
		}
		r.Nontrivial("tw:" + scenSig(cases[i]))
	})
}

// runC05ReusedFlow: one flow object cut short twice, by contexts of different kinds (cancel, then deadline — and the
// other way round): each run reports ITS context's error.
func runC05ReusedFlow(c *Cfg) {
	r := c.Rep
	var cases []*scen.Scenario
	for kind := 0; kind < scen.NumScriptedKinds; kind++ {
		for _, kinds := range [][2]string{{"cancel", "deadline"}, {"deadline", "cancel"}, {"cancel-cause", "deadline"}} {
			for depth := 0; depth <= 1; depth++ {
				for _, at := range []int{2, 0} { // inside the first node's post (the flow notices between the nodes) / inside its prep
					mk := func(p string) scen.NodeSpec {
						return scen.NodeSpec{Kind: kind, N: 1, Visits: []scen.Visit{{FirstOK: 1, Post: p}, {FirstOK: 1, Post: p}, {FirstOK: 1, Post: p}}}
					}
					nodes := []scen.NodeSpec{mk("go"), mk("fin"),
						{Kind: scen.KFlow, N: 1, Flow: &scen.FlowSpec{Start: 0, Conns: []scen.Conn{{From: 0, Action: "go", To: 1}}}}}
					root := 2
					if depth == 1 {
						nodes = append(nodes, scen.NodeSpec{Kind: scen.KFlow, N: 1, Flow: &scen.FlowSpec{Start: 2}})
						root = 3
					}
					cases = append(cases, &scen.Scenario{Nodes: nodes, Root: root, Runs: 2, UseFlowRun: at == 0, Inject: scen.Inject{Kind: kinds[0], Alt: kinds[1], At: at}})
				}
			}
		}
	}
	// the same flow object again: its FIRST run was not cut short at all (it succeeded under a context that is still
	// alive, or a callback panicked and the caller recovered); the SECOND run's context is done before the run / is
	// cancelled inside a callback: the second run is judged like any first run
	var later []*scen.Scenario
	for kind := 0; kind < scen.NumScriptedKinds; kind++ {
		for depth := 0; depth <= 1; depth++ {
			for _, first := range []string{"success", "panic-prep", "panic-exec", "panic-post"} {
				for _, second := range []string{"pre-cancel", "pre-deadline", "cancel@0", "cancel@1", "deadline@1", "cancel-far@2"} {
					v0 := scen.Visit{FirstOK: 1, Post: "go"}
					if strings.HasPrefix(first, "panic-") {
						v0.PanicIn = strings.TrimPrefix(first, "panic-")
					}
					n := 1
					v1 := scen.Visit{FirstOK: 1, Post: "go"}
					if scen.KindHasRetry(kind) {
						n, v1.FirstOK = 3, 4 // the second run's attempts all fail: none may start after the cancellation
					}
					nodes := []scen.NodeSpec{{Kind: kind, N: n, Visits: []scen.Visit{v0, v1}},
						{Kind: scen.KPlain, N: 1, Visits: []scen.Visit{{FirstOK: 1, Post: "fin"}, {FirstOK: 1, Post: "fin"}}},
						{Kind: scen.KFlow, N: 1, Flow: &scen.FlowSpec{Start: 0, Conns: []scen.Conn{{From: 0, Action: "go", To: 1}}}}}
					root := 2
					if depth == 1 {
						nodes = append(nodes, scen.NodeSpec{Kind: scen.KFlow, N: 1, Flow: &scen.FlowSpec{Start: 2}})
						root = 3
					}
					inj := scen.Inject{Kind: second, OneRun: true, Run: 1}
					if k, at, ok := strings.Cut(second, "@"); ok {
						inj.Kind = k
						inj.At = int(at[0] - '0')
					}
					later = append(later, &scen.Scenario{Nodes: nodes, Root: root, Runs: 2, UseFlowRun: (kind+depth)%2 == 0, Inject: inj})
				}
			}
		}
	}
	parallel(c, len(later), func(i int) {
		sc := later[i]
		r.EvalN(2)
		r.Count("inject.later-run-of-a-reused-flow", 1)
		for _, f := range laterRunFindings(c, sc) {
			r.Violate("C05", "C05:"+f.Key, f.Detail, ScenCase{"later-run-of-a-reused-flow", sc})
		}
		r.Nontrivial("lr:" + scenSig(sc))
	})
	parallel(c, len(cases), func(i int) {
		sc := cases[i]
		x := scen.NewExec(sc)
		for run := 0; run < 2; run++ {
			o := x.RunOnce()
			r.EvalN(1)
			r.Count("inject.reused-flow", 1)
			kindNow := []string{sc.Inject.Kind, sc.Inject.Alt}[run]
			// the cancellation comes inside the first node (its prep or its post): the second node never starts, the
			// run is cut short, and its error is THIS run's context error
			for _, e := range o.Events {
				if e.Node == 1 {
					r.Violate("C05", "C05:node-after-cancel", fmt.Sprintf("run %d of the same flow object (context kind %s): the second node was started although the context was cancelled inside the first", run, kindNow), ScenCase{"reused-flow", sc})
					break
				}
			}
			if o.CancelSeq >= 0 {
				if o.ErrNil {
					r.Violate("C05", "C05:cut-short-success:reused-flow", fmt.Sprintf("run %d of the same flow object (context kind %s) was cut short but reported success", run, kindNow), ScenCase{"reused-flow", sc})
				} else if !strings.Contains(o.ErrID, "ctx") {
					r.Violate("C05", "C05:cut-short-error-not-ctx:reused-flow", fmt.Sprintf("run %d of the same flow object was cut short by its context (kind %s, error %q); the returned error %q does not match it (an earlier run of this flow object was cut short by a context of another kind)", run, kindNow, o.CtxErr, o.ErrText), ScenCase{"reused-flow", sc})
				}
			}
		}
		r.Nontrivial("rf:" + scenSig(sc))
	})
}

// laterRunFindings judges the SECOND run of a scenario whose first run succeeded / panicked (see runC05ReusedFlow).
func laterRunFindings(c *Cfg, sc *scen.Scenario) []scen.Finding {
	x := scen.NewExec(sc)
	_ = x.RunOnce() // the first run: succeeds or panics (recovered); not judged here
	o := x.RunOnce()
	one := sc.Clone()
	one.Inject.OneRun = false
	plain := sc.Clone() // reference: the same two runs, the second one un-cancelled
	plain.Inject = scen.Inject{}
	xr := scen.NewExec(plain)
	_ = xr.RunOnce()
	ref := keysOf(xr.RunOnce().Events)
	how := map[bool]string{true: "panicked in a callback (recovered by the caller)", false: "succeeded under a context that is still alive"}[sc.Nodes[0].Visits[0].PanicIn != ""]
	fs := judgeC05(c, one, ref, &o, false)
	for i := range fs {
		fs[i].Detail = "second run of a flow object whose first run " + how + ": " + fs[i].Detail
	}
	return fs
}

func runC05(c *Cfg) {
	runSpecial(c, "C05", "partial-func-nodes-done-ctx")
	runSpecial(c, "C05", "startless-flow-done-ctx")
	r := c.Rep
	defer runC05TripAtCheck(c)
	defer runC05ReusedFlow(c)
	defer runC05TinyWait(c)
	defer runC05DeadlineInWait(c)
	defer runC05FlowRetries(c)
	defer runC05Getters(c)
	nb := c.Pick(2000, 150000)
	parallel(c, nb, func(i int) {
		rg := c.Rng("c05", i)
		base := scen.GenFlowScenario(rg, scen.GenOpts{MaxNodes: 8, MaxActions: 4, MaxDepth: 4, Failures: true, MaxVisits: 3, Batch: true, CtxAwareErrs: true, MoreErrKinds: true})
		base.Runs = 1
		base.Rewire = nil
		if i%6 == 0 {
			base = &scen.Scenario{Nodes: []scen.NodeSpec{scen.GenNode(rg, scen.GenOpts{Failures: true, MaxVisits: 1}, 2)}, Root: 0, Runs: 1}
		}
		if i%9 == 0 { // scenarios that end in a scripted failure as well
			failSomewhere(rg.IntN(1<<30), base)
		}
		// reference: the same scenario, un-cancelled, on the real library
		refOut := scen.NewExec(base).RunOnce()
		ref := keysOf(refOut.Events)
		r.EvalN(1)
		r.Count("reference.runs", 1)
		kinds := []string{"cancel", "deadline"}
		if i%3 == 0 {
			kinds = []string{"cancel-cause", "deadline"}
		} else if i%3 == 1 {
			kinds = []string{"cancel-far", "deadline"} // cancelled by hand although the context's own deadline is hours away
		} else if i%6 == 2 {
			kinds = []string{"own-error", "cancel"} // a hand-written context that reports an error value of its own
		}
		for p := 0; p < len(ref); p++ {
			for _, k := range kinds {
				v := base.Clone()
				v.Inject = scen.Inject{Kind: k, At: p}
				o := scen.NewExec(v).RunOnce()
				r.EvalN(1)
				r.Count("inject."+k, 1)
				r.Count("inject.in."+refOut.Events[p].Phase, 1)
				for _, f := range judgeC05(c, v, ref, &o, true) {
					r.Violate("C05", "C05:"+f.Key, f.Detail, ScenCase{"inject", v})
				}
				if p < len(ref)-1 {
					r.Nontrivial(fmt.Sprintf("%s|%s@%d", scenSig(base), k, p))
				}
				if p > 3 && len(o.Events) < len(ref) && base.MaxNesting() >= 2 && r.SampleWanted("inject") {
					r.Sample("inject", map[string]any{"scenario": v, "reference_callbacks": len(ref), "events": o.Events, "err": o.ErrText, "err_matches": o.ErrID})
				}
			}
		}
		for _, k := range []string{"pre-cancel", "pre-deadline", "pre-expired", "pre-cancel-far", "pre-own-error"} {
			v := base.Clone()
			v.Inject = scen.Inject{Kind: k}
			if i%2 == 0 {
				v.UseFlowRun = !v.UseFlowRun
			}
			o := scen.NewExec(v).RunOnce()
			r.EvalN(1)
			r.Count("inject."+k, 1)
			for _, f := range judgeC05(c, v, ref, &o, true) {
				r.Violate("C05", "C05:"+f.Key, f.Detail, ScenCase{"pre", v})
			}
			r.Nontrivial(fmt.Sprintf("%s|%s", scenSig(base), k))
		}
		if c.Thorough() && i%10 == 0 && len(ref) > 1 {
			// a real context.WithTimeout whose expiry is awaited inside callback p
			p := rg.IntN(len(ref))
			v := base.Clone()
			v.Inject = scen.Inject{Kind: "real-timeout", At: p}
			for try := 0; try < 3; try++ {
				o := scen.NewExec(v).RunOnce()
				r.EvalN(1)
				if o.Discard {
					r.Count("real_timeout.discarded", 1)
					continue
				}
				r.Count("inject.real-timeout", 1)
				for _, f := range judgeC05(c, v, ref, &o, true) {
					r.Violate("C05", "C05:"+f.Key, f.Detail, ScenCase{"real-timeout", v})
				}
				break
			}
		}
	})
}

func replayC05(c *Cfg, spec json.RawMessage) {
	var cs ScenCase
	if err := json.Unmarshal(spec, &cs); err != nil || cs.Scenario == nil {
		fmt.Println("cannot parse case:", err)
		return
	}
	if cs.Family == "later-run-of-a-reused-flow" {
		for _, f := range laterRunFindings(c, cs.Scenario) {
			fmt.Printf(" * finding %s: %s\n", f.Key, f.Detail)
			c.Rep.Violate("C05", "C05:"+f.Key, f.Detail, cs)
		}
		return
	}
	if cs.Family == "reused-flow" {
		x := scen.NewExec(cs.Scenario)
		for run := 0; run < 2; run++ {
			o := x.RunOnce()
			fmt.Printf("run %d: errNil=%v err=%q matches=%q ctx=%q\n", run, o.ErrNil, o.ErrText, o.ErrID, o.CtxErr)
			if o.CancelSeq >= 0 && (o.ErrNil || !strings.Contains(o.ErrID, "ctx")) {
				c.Rep.Violate("C05", "C05:cut-short-error-not-ctx:reused-flow", "the returned error does not match this run's context error", cs)
			}
		}
		return
	}
	if cs.Scenario.Inject.Kind == "deadline-in-wait" {
		o := scen.NewExec(cs.Scenario).RunOnce()
		fmt.Printf("observed: errNil=%v err=%q matches=%q ctx=%q events=%v\n", o.ErrNil, o.ErrText, o.ErrID, o.CtxErr, keysOf(o.Events))
		if o.ErrNil || !strings.Contains(o.ErrID, "ctx") {
			c.Rep.Violate("C05", "C05:cut-short-error-not-ctx:deadline-in-wait", "error does not match the context's error", cs)
		}
		return
	}
	if cs.Scenario.Inject.Kind == "trip-at-check" {
		o := scen.NewExec(cs.Scenario).RunOnce()
		fmt.Printf("inject %+v\nobserved: action=%q errNil=%v err=%q matches=%q next-callback-ordinal-at-trip=%d\n", cs.Scenario.Inject, o.Action, o.ErrNil, o.ErrText, o.ErrID, o.CancelSeq)
		for _, e := range o.Events {
			b, _ := json.Marshal(e)
			fmt.Println("   ", string(b))
			if e.Phase == "exec" && e.Attempt >= 2 && e.Seq >= o.CancelSeq && e.CtxDone && o.CancelSeq >= 0 {
				c.Rep.Violate("C05", "C05:retry-attempt-after-cancel-before-wait", "exec attempt started with the context already done", cs)
			}
		}
		return
	}
	base := cs.Scenario.Clone()
	base.Inject = scen.Inject{}
	refOut := scen.NewExec(base).RunOnce()
	ref := keysOf(refOut.Events)
	fmt.Println("reference (un-cancelled) callbacks:", ref)
	o := scen.NewExec(cs.Scenario).RunOnce()
	fmt.Printf("inject %+v\nobserved: action=%q errNil=%v err=%q matches=%q cancelSeq=%d\n", cs.Scenario.Inject, o.Action, o.ErrNil, o.ErrText, o.ErrID, o.CancelSeq)
	for _, e := range o.Events {
		b, _ := json.Marshal(e)
		fmt.Println("   ", string(b))
	}
	for _, f := range judgeC05(c, cs.Scenario, ref, &o, false) {
		fmt.Printf(" * finding %s: %s\n", f.Key, f.Detail)
		c.Rep.Violate("C05", "C05:"+f.Key, f.Detail, cs)
	}
}
