package engines

import (
	"context"
	"encoding/json"
	"errors"
	"fmt"
	"runtime"
	"runtime/debug"
	"strings"
	"sync"
	"sync/atomic"
	"time"

	flyt "github.com/mark3labs/flyt"

	"verif/harness/internal/scen"
)

func init() {
	register(&Engine{Prop: "C06", Doc: "batch results positional, post once after settlement", Gated: true, Run: runC06, Replay: func(c *Cfg, s json.RawMessage) { replayBatch(c, "C06", s) }})
	register(&Engine{Prop: "C07", Doc: "batch items exactly once with per-item retry/fallback", Gated: true, Run: runC07, Replay: func(c *Cfg, s json.RawMessage) { replayBatch(c, "C07", s) }})
	register(&Engine{Prop: "C09", Doc: "stop-on-error; unprocessed never success", Gated: true, Run: runC09, Replay: func(c *Cfg, s json.RawMessage) { replayBatch(c, "C09", s) }})
	register(&Engine{Prop: "C11", Doc: "batch cancellation", Gated: true, Run: runC11, Replay: func(c *Cfg, s json.RawMessage) { replayBatch(c, "C11", s) }})
}

// scheduleCount returns Π_{d<n} min(c, n-d).
func scheduleCount(n, c int) int {
	t := 1
	for d := 0; d < n; d++ {
		t *= minInt(c, n-d)
	}
	return t
}

// decodeSchedule turns a leaf index into the mixed-radix choice sequence.
func decodeSchedule(n, c, idx int) []int {
	ch := make([]int, n)
	for d := n - 1; d >= 0; d-- {
		w := minInt(c, n-d)
		ch[d] = idx % w
		idx /= w
	}
	return ch
}

func altItems(n int) []ItemScript {
	it := make([]ItemScript, n)
	for i := range it {
		it[i].K = 1 + i%2 // odd items fail their only attempt
	}
	return it
}

func completionOrder(o *BatchObs) string {
	var sb strings.Builder
	for _, p := range o.Points {
		fmt.Fprintf(&sb, "%d,", p.Released)
	}
	return sb.String()
}

// gatedLoop runs cases one at a time; it stops after an inconclusive case
// (a goroutine that never blocks would poison every later quiescence decision).
func gatedLoop(c *Cfg, n int, gen func(i int) *BatchCase, each func(i int, cs *BatchCase, o *BatchObs), prop string) {
	// The collector is switched off while gated cases run (a goroutine that wants to start a GC cycle
	// waits on a runtime semaphore and would look blocked); it is run by hand between cases.
	defer debug.SetGCPercent(debug.SetGCPercent(-1))
	ran := 0
	for i := 0; i < n; i++ {
		if !c.Mine(i) {
			continue
		}
		if ran++; ran%256 == 0 {
			runtime.GC()
		}
		cs := gen(i)
		if cs == nil {
			continue
		}
		o := runAndJudgeBatch(c, prop, cs)
		if o.Incon != "" {
			c.Rep.Note(fmt.Sprintf("stopped shard after inconclusive case %d", i))
			return
		}
		if each != nil {
			each(i, cs, o)
		}
		if o.Deadlock {
			b, _ := json.Marshal(cs)
			c.Rep.Note(fmt.Sprintf("stopped shard after deadlocked case %d (stuck goroutines left behind): %s\n%s", i, b, o.Dump))
			mine := false
			for _, f := range judgeBatch(cs, o) {
				if f.Prop == prop {
					mine = true
				}
			}
			if !mine {
				// the stuck case is another property's finding, but the rest of this shard's cases were not run
				c.Rep.Incon(fmt.Sprintf("shard stopped after case %d got stuck (a finding of another property); the remaining cases of the shard were not run", i))
			}
			return
		}
	}
}

func runC06(c *Cfg) {
	runSpecial(c, "C06", "nested-stop-mode-batches")
	runSpecial(c, "C06", "typed-lists-with-nil-entries")
	runSpecial(c, "C06", "typed-struct-slice-items")
	r := c.Rep
	if RaceEnabled {
		runBatchRace(c, "C06")
		return
	}
	// 1. exhaustive enumeration of completion orders
	maxN, maxC := 8, 4
	if c.Thorough() {
		maxN, maxC = 10, 5
	}
	type cell struct{ n, c, base, cnt int }
	var cells []cell
	total := 0
	for n := 1; n <= maxN; n++ {
		for cc := 1; cc <= maxC; cc++ {
			k := scheduleCount(n, cc)
			cells = append(cells, cell{n, cc, total, k})
			total += k
		}
	}
	widthMismatch := 0
	gatedLoop(c, total, func(i int) *BatchCase {
		var ce cell
		for _, x := range cells {
			if i >= x.base && i < x.base+x.cnt {
				ce = x
			}
		}
		style := "result"
		if i%2 == 1 {
			style = "any"
		}
		return &BatchCase{Family: "enum", N: ce.n, C: ce.c, Budget: 1, Items: altItems(ce.n), Shape: "results", Build: "builder", ExecStyle: style, Gated: true, Choices: decodeSchedule(ce.n, ce.c, i-ce.base)}
	}, func(i int, cs *BatchCase, o *BatchObs) {
		// the schedule tree must have the predicted shape, otherwise the enumeration is not the one claimed
		ok := len(o.Points) == cs.N
		if ok {
			for d, p := range o.Points {
				if p.Width != minInt(cs.C, cs.N-d) {
					ok = false
				}
			}
		}
		if !ok {
			widthMismatch++
		}
		r.Count("enum.schedules", 1)
		if cs.N > 1 && cs.C > 1 {
			r.Nontrivial(fmt.Sprintf("enum %d %d %s", cs.N, cs.C, completionOrder(o)))
		}
		if cs.N >= 5 && cs.C >= 3 && r.SampleWanted("enum") {
			r.Sample("enum", map[string]any{"case": cs, "points": o.Points, "slots": o.Slots})
		}
	}, "C06")
	r.Count("enum.width_mismatch", int64(widthMismatch))
	if widthMismatch == 0 && r.Inconclusive == 0 {
		r.Exhaustive = true
		r.Note(fmt.Sprintf("all %d completion orders of the grid n<=%d x c<=%d enumerated (this shard ran its share); every run had the predicted branching min(c, n-d)", total, maxN, maxC))
	} else if widthMismatch > 0 {
		r.Note(fmt.Sprintf("%d runs did not have the predicted branching: enumeration not claimed exhaustive", widthMismatch))
	}
	if r.Inconclusive > 0 {
		return
	}
	// 2. randomised large batches
	nr := c.Pick(300, 20000)
	gatedLoop(c, nr, func(i int) *BatchCase {
		rg := c.Rng("c06rand", i)
		n := 1 + rg.IntN(64)
		cc := 1 + rg.IntN(16)
		it := make([]ItemScript, n)
		for j := range it {
			it[j].K = 1 + rg.IntN(2)
			it[j].EVal = rg.IntN(7) == 0 // a successful value whose type implements error is still a value
		}
		cs := &BatchCase{Family: "random", N: n, C: cc, Budget: 1 + i%3, Items: it, Shape: "results", Build: []string{"builder", "option-then-builder"}[(i/2)%2], ExecStyle: []string{"result", "any"}[i%2], Gated: true, Policy: "random", PSeed: rg.Uint64()}
		if i%16 == 7 {
			// far beyond 64 items (size-dependent code paths: chunking, ranges), a few failing items among them
			cs.Family = "random-large"
			cs.N = 128 + rg.IntN(200)
			cs.C = 1 + rg.IntN(8)
			cs.Budget = 1
			cs.Items = make([]ItemScript, cs.N)
			for j := range cs.Items {
				cs.Items[j].K = 1
				if rg.IntN(24) == 0 {
					cs.Items[j].K = 2
				}
			}
			cs.Items[rg.IntN(cs.N-1)].K = 2
			cs.Build = "builder"
		}
		if i%6 == 1 && cs.Build == "builder" {
			cs.Shape, cs.ExecStyle = "results-with-errors", "result" // error Results among the items: still items, in prep's order
		}
		if i%6 == 3 && cs.Shape == "results" {
			cs.Odd = &OddItem{I: rg.IntN(cs.N), Kind: []string{"nil", "error"}[(i/6)%2]} // one item without a payload: exec is still called for it, slot i is what exec made of it
			cs.Items[cs.Odd.I].EVal = false
		}
		cs.CtxLike = i%5 == 2 // failing items report a per-item timeout (an error that wraps a context error): an item failure like any other
		if i%4 == 0 {
			cs.ErrResult = true // failures reported as (NewErrorResult(e), nil): the error state must reach the slot as it is
			cs.C = rg.IntN(5)
		}
		return cs
	}, func(i int, cs *BatchCase, o *BatchObs) {
		r.Count("random.runs", 1)
		if cs.N > 1 && cs.C > 1 {
			r.Nontrivial(fmt.Sprintf("rand %d %d %s", cs.N, cs.C, completionOrder(o)))
		}
	}, "C06")
	// 2b. stop mode and cancellation under gated random schedules: post still sees every executed item's own outcome,
	// once, after everything that was started has settled
	ns := c.Pick(1500, 80000)
	gatedLoop(c, ns, func(i int) *BatchCase {
		rg := c.Rng("c06stop", i)
		n := 2 + rg.IntN(10)
		cc := 2 + rg.IntN(3)
		budget := 1 + rg.IntN(2)
		it := make([]ItemScript, n)
		for j := range it {
			it[j].K = 1 + rg.IntN(budget+1)
			it[j].Nil = rg.IntN(3) == 0 // a nil value is a legitimate success
		}
		cs := &BatchCase{Family: "stop-random", N: n, C: cc, Stop: true, SetMode: true, Budget: budget, Items: it, Shape: "results", Build: "builder", ExecStyle: []string{"result", "any"}[i%2], Gated: true, Policy: []string{"random", "last", "random", "first"}[i%4], PSeed: rg.Uint64(), CtxLike: i%7 == 3}
		if i%5 == 4 {
			cs.C = rg.IntN(2) // sequential / one worker as well
		}
		if i%3 == 0 {
			cs.Family = "cancel-random"
			if rg.IntN(2) == 0 { // more items than workers plus queue can hold: the submitter is blocked when the cancellation comes
				cs.N = 3*cc + 1 + rg.IntN(6)
				cs.Items = make([]ItemScript, cs.N)
				for j := range cs.Items {
					cs.Items[j].K = 1 + rg.IntN(budget+1)
				}
				n = cs.N
			}
			cs.Stop = rg.IntN(2) == 0
			cs.Cancel = &CancelSpec{Kind: []string{"cancel", "deadline", "cause"}[i%3], Item: rg.IntN(n), Attempt: 1}
		}
		if i%3 == 1 {
			// the same node object has been run before: a stopped / failed earlier run must leave no trace
			cs.Family = "after-earlier-run"
			pn := 1 + rg.IntN(6)
			pit := make([]ItemScript, pn)
			for j := range pit {
				pit[j].K = 1 + rg.IntN(budget+1)
			}
			pit[rg.IntN(pn)].K = budget + 1
			cs.Prelude = &Prelude{N: pn, Items: pit, PostFail: rg.IntN(2) == 0}
			if rg.IntN(2) == 0 {
				for j := range cs.Items {
					cs.Items[j].K = 1 // nothing fails in the observed run
				}
			}
		}
		return cs
	}, func(i int, cs *BatchCase, o *BatchObs) {
		r.Count("stop_cancel.runs", 1)
		r.Count("stop_cancel."+cs.Family, 1)
		r.Nontrivial(fmt.Sprintf("%s %d %d %s", cs.Family, cs.N, cs.C, completionOrder(o)))
	}, "C06")
	// 2c. retries with a wait: an item sitting in its retry wait is not settled — post comes after its last attempt
	var rw []*BatchCase
	for _, cc := range []int{1, 2, 3} {
		for _, n := range []int{1, cc, cc + 2} {
			for budget := 2; budget <= 3; budget++ {
				for _, pat := range []int{0, 1, 2} {
					it := make([]ItemScript, n)
					for j := range it {
						it[j].K = 1
					}
					switch pat {
					case 0:
						it[n-1].K = budget // the last item succeeds on its last permitted attempt
					case 1:
						it[n-1].K = budget + 1 // ... or fails all of them
						it[0].K = 2
					case 2:
						for j := range it {
							it[j].K = 2
						}
					}
					rw = append(rw, &BatchCase{Family: "retry-wait-settlement", N: n, C: cc, Budget: budget, Items: it, Shape: "results", Build: []string{"builder", "options"}[pat%2], ExecStyle: []string{"result", "any"}[(n+budget)%2], WaitMs: 2 + pat})
					rw = append(rw, &BatchCase{Family: "retry-wait-settlement", N: n, C: cc, Budget: budget, Items: it, Shape: "results", Build: "builder", ExecStyle: "any", WaitMs: 3, Gated: true, Policy: "holdfail"})
				}
			}
		}
	}
	gatedLoop(c, len(rw), func(i int) *BatchCase { return rw[i] }, func(i int, cs *BatchCase, o *BatchObs) {
		r.Count("retry_wait_settlement.runs", 1)
		r.Nontrivial(fmt.Sprintf("rw %d %d %d %v %s", cs.N, cs.C, cs.Budget, cs.Gated, completionOrder(o)))
	}, "C06")
	// items whose exec returns a typed-nil error (a non-nil error interface): the item failed, its slot is an error
	for _, cc := range []int{0, 1, 3} {
		if !c.Mine(cc) {
			continue
		}
		n, bad := 12, map[int]bool{5: true, 8: true, 11: true}
		es, _, err := typedNilItemRun(cc, false, n, bad)
		r.Eval()
		r.Count("typed_nil_items.runs", 1)
		if err == nil {
			for i := 0; i < n && i < len(es); i++ {
				if es[i] != bad[i] {
					r.Violate("C06", "C06:slot-success-for-typed-nil-error", fmt.Sprintf("continue mode, concurrency %d: exec of item %d returned (value, error) with error != nil: %v (a typed nil pointer inside the error interface counts as an error, as everywhere in Go); result %d IsError() = %v — the slot is not the outcome of processing that item", cc, i, bad[i], i, es[i]), map[string]any{"family": "typed-nil-item-errors", "c": cc, "stop": false})
					break
				}
			}
		}
		r.Nontrivial(fmt.Sprintf("tn %d", cc))
	}
	// 3. prep shapes, sequential and concurrent, free-running
	shapes := []string{"results", "any", "strings", "ints", "floats", "maps", "named", "ptrs"}
	var sc []*BatchCase
	for _, sh := range shapes {
		for _, n := range []int{0, 1, 2, 5, 17, 64} {
			for _, cc := range []int{0, 1, 3, 16} {
				b := "compose"
				if sh == "results" && n%2 == 0 {
					b = "builder"
				}
				sc = append(sc, &BatchCase{Family: "shape", N: n, C: cc, Budget: 1, Items: altItems(n), Shape: sh, Build: b, ExecStyle: []string{"result", "any"}[(n+cc)%2], SleepUs: 30})
			}
		}
	}
	for _, sh := range []string{"single", "single-nil-ptr", "single-nil-map", "single-array", "single-array-16", "nil", "empty-results", "empty-any"} {
		for _, cc := range []int{0, 2} {
			n := 0
			if strings.HasPrefix(sh, "single") {
				n = 1
			}
			b := "compose"
			if sh == "empty-results" {
				b = "builder"
			}
			sc = append(sc, &BatchCase{Family: "shape", N: n, C: cc, Budget: 1, Items: altItems(n), Shape: sh, Build: b, ExecStyle: "result"})
			for _, pa := range []string{"", "default", "custom"} { // whatever post returns, it is asked once
				pa := pa
				sc = append(sc, &BatchCase{Family: "shape-post-action", N: n, C: cc, Budget: 1, Items: altItems(n), Shape: sh, Build: b, ExecStyle: "any", Post: &pa})
			}
		}
	}
	// a batch of exactly one item, which fails: an item failure is an outcome for post to look at, not the end of the run
	for _, cc := range []int{0, 1, 3} {
		for _, stop := range []bool{false, true} {
			for _, budget := range []int{1, 2} {
				for bi, b := range []string{"builder", "options", "compose"} {
					sc = append(sc, &BatchCase{Family: "single-failing-item", N: 1, C: cc, Budget: budget, Stop: stop, SetMode: true, FB: bi == 1 && budget == 2, Items: []ItemScript{{K: budget + 1, FBE: true}}, Shape: "results", Build: b, ExecStyle: []string{"result", "any"}[(cc+bi)%2]})
				}
			}
		}
	}
	// stop mode with item lists that are not []Result (plain lists through the constructor-option prep): post still
	// receives every item prep produced, in order — also the ones behind the stop
	for _, sh := range []string{"any", "ints", "strings", "maps", "ptrs", "named"} {
		for _, cc := range []int{0, 1, 3} {
			for _, n := range []int{4, 9} {
				it := make([]ItemScript, n)
				for j := range it {
					it[j].K = 1
				}
				it[1+cc%2].K = 2
				sc = append(sc, &BatchCase{Family: "shape-stop-mode", N: n, C: cc, Budget: 1, Stop: true, SetMode: true, Items: it, Shape: sh, Build: "compose", ExecStyle: []string{"result", "any"}[(n+cc)%2]})
			}
		}
	}
	// a failing post is still called once per run, whatever retry budget the node carries for its items
	for _, budget := range []int{2, 3, 5} {
		for _, cc := range []int{0, 2} {
			for bi, b := range []string{"builder", "options", "compose", "builder-mode-first"} {
				n := 1 + (budget+cc+bi)%4
				sc = append(sc, &BatchCase{Family: "failing-post-with-item-retries", N: n, C: cc, Budget: budget, FB: b == "options" || b == "compose", Items: altItems(n), Shape: "results", Build: b, ExecStyle: []string{"result", "any"}[bi%2], PostFail: true, SetMode: bi%2 == 0, Stop: bi == 2})
			}
		}
	}
	for _, n := range []int{128, 200, 300, 1000} { // far beyond 64 items, free-running, failing items among them
		for _, cc := range []int{0, 2, 8, 16} {
			it := make([]ItemScript, n)
			for j := range it {
				it[j].K = 1
				if j%37 == 5 || j == n-2 {
					it[j].K = 2
				}
			}
			sc = append(sc, &BatchCase{Family: "large", N: n, C: cc, Budget: 1, Items: it, Shape: []string{"results", "any"}[cc%3%2], Build: []string{"builder", "compose"}[cc%3%2], ExecStyle: []string{"any", "result"}[(n/100)%2]})
		}
	}
	for n := 0; n <= 64; n++ { // sequential, every size
		sc = append(sc, &BatchCase{Family: "sequential", N: n, C: 0, Budget: 1, Items: altItems(n), Shape: "results", Build: "builder", ExecStyle: "result"})
	}
	// items with identical payloads are still separate items: each is executed, each slot holds its own outcome
	for _, cc := range []int{0, 1, 3} {
		for _, kind := range []string{"ints", "strings", "results", "any"} {
			if !c.Mine(cc) {
				continue
			}
			n, calls, distinct, lenR := dupPayloadRun(kind, cc)
			r.Eval()
			r.Count("dup_payload.runs", 1)
			dc := map[string]any{"family": "duplicate-payloads", "kind": kind, "c": cc, "n": n}
			if calls != n || distinct != n || lenR != n {
				r.Violate("C06", "C06:duplicate-payloads", fmt.Sprintf("%d items of which several carry the same payload (%s, concurrency %d): exec ran %d times, post got %d results holding %d distinct outcomes — every item is processed and has its own outcome", n, kind, cc, calls, lenR, distinct), dc)
			}
			r.Nontrivial(fmt.Sprintf("dup %s %d", kind, cc))
		}
	}
	gatedLoop(c, len(sc), func(i int) *BatchCase { return sc[i] }, func(i int, cs *BatchCase, o *BatchObs) {
		r.Count("shape.runs", 1)
		r.Count("shape."+cs.Shape, 1)
		r.Nontrivial(fmt.Sprintf("shape %s %d %d %s", cs.Shape, cs.N, cs.C, cs.Build))
		if cs.N == 0 && r.SampleWanted("empty") {
			r.Sample("empty", map[string]any{"case": cs, "post_calls": o.PostCalls, "len_items": o.PostLenI, "len_results": o.PostLenR})
		}
	}, "C06")
}

// runBatchRace is the race-detector variant shared by C06/C07/C08/C09/C11: free-running, no harness synchronisation.
func runBatchRace(c *Cfg, prop string) {
	r := c.Rep
	nr := c.Pick(150, 1500)
	gatedLoop(c, nr, func(i int) *BatchCase {
		rg := c.Rng("race"+prop, i)
		n := 1 + rg.IntN(64)
		cc := 1 + rg.IntN(16)
		budget := 1 + rg.IntN(3)
		it := make([]ItemScript, n)
		for j := range it {
			it[j].K = 1 + rg.IntN(budget+1)
			it[j].FBE = rg.IntN(2) == 0
		}
		cs := &BatchCase{Family: "race-lean", N: n, C: cc, Budget: budget, Items: it, Shape: "results", Build: "options", ExecStyle: []string{"result", "any"}[i%2], Lean: true, SleepUs: 40, FB: rg.IntN(2) == 0}
		if prop == "C09" || (prop != "C07" && rg.IntN(3) == 0) {
			cs.Stop = true
		}
		if i%3 == 0 { // also with the recording harness (its mutex only adds edges between callbacks)
			cs.Lean = false
			cs.Family = "race-recorded"
		}
		if prop == "C11" && !cs.Lean {
			cs.Cancel = &CancelSpec{Kind: "cancel", Item: rg.IntN(n), Attempt: 1}
		}
		return cs
	}, func(i int, cs *BatchCase, o *BatchObs) {
		r.Count("race.runs", 1)
		ex := 0
		for _, a := range o.Attempts {
			ex += a
		}
		r.Count("race.exec_calls", int64(ex))
		if cs.C > 1 && cs.N > 1 {
			r.Nontrivial(fmt.Sprintf("race %d %d %d %v %v", cs.N, cs.C, cs.Budget, cs.Stop, cs.Lean))
		}
	}, prop)
}

func genItems(rnd interface{ IntN(int) int }, n, budget int, pattern int) []ItemScript {
	it := make([]ItemScript, n)
	for j := range it {
		switch pattern {
		case 0: // random
			it[j].K = 1 + rnd.IntN(budget+1)
		case 1: // all fail
			it[j].K = budget + 1
		case 2: // only first fails
			it[j].K = 1
			if j == 0 {
				it[j].K = budget + 1
			}
		case 3: // only last fails
			it[j].K = 1
			if j == n-1 {
				it[j].K = budget + 1
			}
		case 4: // alternating
			it[j].K = 1 + (j%2)*budget
		case 5: // all succeed on the last permitted attempt
			it[j].K = budget
		default:
			it[j].K = 1 + rnd.IntN(budget+1)
		}
		it[j].FBE = rnd.IntN(2) == 0
		it[j].Nil = rnd.IntN(5) == 0
		it[j].EVal = !it[j].Nil && rnd.IntN(6) == 0
		it[j].FBRes = !it[j].FBE && rnd.IntN(3) == 0
	}
	return it
}

func runC07(c *Cfg) {
	runSpecial(c, "C07", "batch-attempts-see-live-context")
	runSpecial(c, "C07", "typed-lists-with-nil-entries")
	runSpecial(c, "C07", "fallback-rescues-with-nil")
	r := c.Rep
	if RaceEnabled {
		runBatchRace(c, "C07")
		return
	}
	// a continue-mode batch run from inside the items of a STOP-mode batch: its failing item prevents nothing — neither
	// its own siblings nor (the inner run succeeds) anything in the surrounding batch
	for _, oc := range []int{0, 1, 2} {
		for _, ic := range []int{0, 1, 2, 3} {
			for _, n := range []int{4, 7} {
				for f := 0; f < n; f += 2 {
					if !c.Mine(oc + ic + n + f) {
						continue
					}
					var ex [][]int
					var errSlots []int
					var outerOK int
					var outerErr error
					dead, incon := runOrDeadlock(func() { ex, errSlots, outerOK, outerErr = nestedContinueRun(oc, ic, n, f) })
					r.Eval()
					r.Count("nested_continue.runs", 1)
					nc := map[string]any{"family": "continue-batch-inside-stop-batch", "outer_c": oc, "inner_c": ic, "n": n, "fail_at": f}
					if incon != "" {
						r.Incon(incon)
						continue
					}
					if dead {
						r.Violate("C07", "C07:nested-batches-never-finish", fmt.Sprintf("a continue-mode batch (concurrency %d, %d items) run from every item of a batch with concurrency %d: nothing moves any more and the run has not returned — the inner items are never processed", ic, n, oc), nc)
						continue
					}
					for o, items := range ex {
						if len(items) != n {
							r.Violate("C07", "C07:nested-continue-batch-items-skipped", fmt.Sprintf("a continue-mode batch (concurrency %d, %d items, item %d fails) run from item %d of a stop-mode batch (concurrency %d): %d of its %d items were executed (%v) — a failing item never prevents another item's processing", ic, n, f, o, oc, len(items), n, items), nc)
							break
						}
						if errSlots[o] != 1 {
							r.Violate("C07", "C07:nested-continue-batch-slots", fmt.Sprintf("continue-mode batch inside a stop-mode batch: %d of its %d result slots are errors, exactly item %d failed", errSlots[o], n, f), nc)
							break
						}
					}
					if outerErr == nil && outerOK != 3 {
						r.Violate("C07", "C07:nested-continue-batch-stops-the-outer-batch", fmt.Sprintf("every item of the surrounding stop-mode batch ran a continue-mode batch to its (successful) end, yet only %d of its 3 slots are successes", outerOK), nc)
					}
					r.Nontrivial(fmt.Sprintf("nc %d %d %d %d", oc, ic, n, f))
				}
			}
		}
	}
	// a pipeline of two batches: what the first one hands on (rescued items included) is processed by the second like
	// any freshly made item
	for _, cc := range []int{0, 1, 4} {
		for _, budget := range []int{1, 2, 3} {
			if !c.Mine(cc + budget + 1) {
				continue
			}
			n, bad := 5, 2
			att, ok, err := chainedBatchRun(cc, budget, n, bad)
			r.Eval()
			r.Count("chained_batches.runs", 1)
			cb := map[string]any{"family": "chained-batches", "c": cc, "budget": budget, "n": n, "bad": bad}
			if err == nil {
				for i := 0; i < n; i++ {
					if att[i] != 1 {
						r.Violate("C07", "C07:chained-batch-item-not-processed-once", fmt.Sprintf("two batches in a row (concurrency %d, budget %d): item %d of the second batch (in the first batch item %d failed every attempt and its fallback handed the item back) was executed %d times, want exactly once; %d of %d slots hold what exec returned", cc, budget, i, bad, att[i], ok, n), cb)
						break
					}
				}
			}
			r.Nontrivial(fmt.Sprintf("cb %d %d", cc, budget))
		}
	}
	// all failures are the same error VALUE (a shared sentinel): an item whose budget is exhausted says nothing about
	// another item's budget
	for _, cc := range []int{0, 1, 2, 4} {
		for _, budget := range []int{2, 3, 5} {
			if !c.Mine(cc + budget) {
				continue
			}
			n := 5
			att, ok, err := sharedSentinelRun(cc, budget, n)
			r.Eval()
			r.Count("shared_sentinel.runs", 1)
			sc := map[string]any{"family": "shared-sentinel-error", "c": cc, "budget": budget, "n": n}
			for i := 1; i < n && err == nil; i++ {
				if int(att[i]) != budget {
					r.Violate("C07", "C07:shared-error-value-shortens-a-sibling's-budget", fmt.Sprintf("%d items, budget %d, concurrency %d, every failure is the same sentinel error value; item 0 fails for good, item %d is scripted to succeed on attempt %d: it got %d attempts (success slots: %d of %d expected) — a failing item never alters another item's processing", n, budget, cc, i, budget, att[i], ok, n-1), sc)
					break
				}
			}
			r.Nontrivial(fmt.Sprintf("ss %d %d", cc, budget))
		}
	}
	// the context is cancelled inside an item's last permitted (failing) attempt: the item still gets its fallback
	var lastAtt []*BatchCase
	for _, cc := range []int{0, 1, 3} {
		for _, budget := range []int{1, 2, 4} {
			for _, fbe := range []bool{false, true} {
				n := 4
				it := make([]ItemScript, n)
				for j := range it {
					it[j].K, it[j].FBE = budget+1, fbe
				}
				lastAtt = append(lastAtt, &BatchCase{Family: "cancel-inside-the-last-permitted-attempt", N: n, C: cc, SetMode: true, Budget: budget, FB: true, Items: it, Shape: "results", Build: []string{"options", "compose"}[budget%2], ExecStyle: []string{"result", "any"}[cc%2], Gated: true, Policy: "holdfail", Cancel: &CancelSpec{Kind: []string{"cancel", "deadline"}[budget%2], Item: cc % 2, Attempt: budget}})
			}
		}
	}
	gatedLoop(c, len(lastAtt), func(i int) *BatchCase { return lastAtt[i] }, func(i int, cs *BatchCase, o *BatchObs) {
		r.Count("cancel_in_last_attempt.runs", 1)
		r.Nontrivial(fmt.Sprintf("cla %d %d %v", cs.C, cs.Budget, cs.Items[0].FBE))
	}, "C07")
	// items that carry equal payloads are still separate items: each one is processed, also while an equal one is in flight
	for _, cc := range []int{0, 2, 3, 8} {
		for _, kind := range []string{"ints", "strings", "results", "any"} {
			if !c.Mine(cc) {
				continue
			}
			for rep := 0; rep < 3; rep++ {
				n, calls, distinct, lenR := dupPayloadRun(kind, cc)
				r.Eval()
				r.Count("dup_payload.runs", 1)
				if calls != n || distinct != n || lenR != n {
					r.Violate("C07", "C07:equal-items-not-processed-individually", fmt.Sprintf("%d items of which several carry the same payload (%s, concurrency %d): exec ran %d times, %d distinct outcomes in %d slots — every item is processed exactly once, none is skipped because an equal one is being processed", n, kind, cc, calls, distinct, lenR), map[string]any{"family": "duplicate-payloads", "kind": kind, "c": cc, "n": n})
					break
				}
			}
			r.Nontrivial(fmt.Sprintf("dup %s %d", kind, cc))
		}
	}
	// the same batch node object run three times with its work list refilled in place: every run processes THIS run's items
	for v := 0; v < 16; v++ {
		if !c.Mine(v) {
			continue
		}
		rc := &ReuseCase{Family: "batch-node-reused-with-refilled-list", PrepAny: v&1 != 0, ExecR: v&2 != 0, C: []int{0, 3}[v>>2&1], ViaFlowLoop: v&8 != 0}
		for _, f := range runReuseCase(rc) {
			r.Violate("C07", "C07:reused-node:"+f.key, "every item of this run is processed exactly once — "+f.detail, rc)
		}
		r.Eval()
		r.Count("reused_node.cases", 1)
		r.Nontrivial(fmt.Sprintf("reuse %d", v))
	}
	// a context deadline that lies beyond an item's next attempt, but before the end of its whole worst-case retry
	// schedule: the item still gets the attempts that fit (budget 4, wait 100 ms, success on attempt 2, deadline 350 ms)
	var dw []*BatchCase
	for _, cc := range []int{0, 2} {
		for _, fb := range []bool{false, true} {
			it := []ItemScript{{K: 2}, {K: 1}, {K: 2}}
			dw = append(dw, &BatchCase{Family: "deadline-inside-the-retry-schedule", N: 3, C: cc, Budget: 4, FB: fb, Items: it, Shape: map[bool]string{true: "any", false: "results"}[fb], Build: map[bool]string{true: "compose", false: "builder"}[fb], ExecStyle: "any", WaitMs: 100, FarDeadlineMs: 350 + cc*100})
		}
	}
	gatedLoop(c, len(dw), func(i int) *BatchCase { return dw[i] }, func(i int, cs *BatchCase, o *BatchObs) {
		if o.Discard {
			r.Count("deadline_inside_schedule.discarded", 1)
			return
		}
		r.Count("deadline_inside_schedule.runs", 1)
		r.Nontrivial(fmt.Sprintf("dw %d %v", cs.C, cs.FB))
	}, "C07")
	nr := c.Pick(6000, 300000)
	gatedLoop(c, nr, func(i int) *BatchCase {
		rg := c.Rng("c07", i)
		n := 1 + rg.IntN(32)
		cc := rg.IntN(9)
		budget := 1 + rg.IntN(4)
		cs := &BatchCase{Family: "scripts", N: n, C: cc, Budget: budget, Items: genItems(rg, n, budget, rg.IntN(8)), Shape: "results", ExecStyle: []string{"result", "any"}[rg.IntN(2)], PSeed: rg.Uint64(), SetMode: rg.IntN(2) == 0}
		switch rg.IntN(3) {
		case 0:
			cs.Build = "builder"
		case 1:
			cs.Build, cs.FB = "options", rg.IntN(3) != 0
		default:
			cs.Build, cs.FB = "compose", rg.IntN(3) != 0
			cs.Shape = []string{"any", "strings", "ints", "ptrs", "maps"}[rg.IntN(5)]
		}
		if i%2 == 0 && cc > 0 {
			cs.Gated, cs.Policy = true, "random"
		} else {
			cs.SleepUs = 20
		}
		cs.CtxLike = rg.IntN(4) == 0 // per-attempt timeouts: ordinary failures as far as the batch is concerned
		cs.TempErrs = !cs.CtxLike && rg.IntN(5) == 0
		cs.AggErrs = !cs.CtxLike && !cs.TempErrs && i%4 == 1
		if i%14 == 9 && budget >= 2 && !cs.Gated && cs.Prelude == nil {
			// the context carries a deadline that is far enough away for every item's whole retry schedule: it changes nothing
			cs.WaitMs, cs.SleepUs = 2, 0
			cs.FarDeadlineMs = 40 * (budget + 2) * (n/maxInt(1, cc) + 2)
			cs.Family = "scripts-under-a-far-deadline"
		}
		if i%10 == 3 && budget >= 2 && !cs.Gated {
			cs.WaitMs, cs.SleepUs = 1+rg.IntN(2), 300 // items sit in retry waits while siblings fail for good: every item still gets its whole budget and its fallback
			cs.Family = "scripts-with-retry-wait"
		}
		if i%9 == 5 && cs.Shape == "results" {
			cs.Shape, cs.ExecStyle = "results-with-errors", "result" // items that arrive as error Results are processed like any other
		}
		if i%9 == 7 && cs.Shape == "results" && cs.Prelude == nil {
			cs.Odd = &OddItem{I: rg.IntN(cs.N), Kind: []string{"nil", "error"}[(i/9)%2]} // one item without a payload of its own (both exec forms): processed like any other
		}
		if i%11 == 6 && cs.Build != "compose" {
			// the node ran before with another budget (and possibly the other error-handling mode) and was then
			// re-configured: every item of the later run is treated according to the settings in force now
			pb := 1 + rg.IntN(4)
			for pb == budget {
				pb = 1 + rg.IntN(4)
			}
			cs.Prelude = &Prelude{N: 1 + rg.IntN(4), Budget: pb, C: cc, ReVia: []string{"option", "builder"}[rg.IntN(2)], ReMode: rg.IntN(2) == 0}
			cs.Prelude.Items = genItems(rg, cs.Prelude.N, pb, rg.IntN(3))
			cs.SetMode = true
			cs.Family = "scripts-reconfigured-after-run"
		}
		if i%13 == 8 {
			cs.N = 128 + rg.IntN(150) // far beyond 64 items
			cs.Items = genItems(rg, cs.N, budget, 0)
			cs.Family = "scripts-large"
			cs.Gated, cs.SleepUs = false, 0
		}
		if i%17 == 9 && cs.FB && cc >= 2 {
			// fallbacks are gated too and held as long as possible: a failing item sitting in its fallback keeps nobody else from being processed
			cs.Gated, cs.GateFB, cs.Policy, cs.SleepUs, cs.Family = true, true, "hold-fallbacks", 0, "scripts-fallbacks-held"
		}
		if i%23 == 11 && cs.Prelude == nil {
			// the earlier run of this node had the same number of items and its post failed: every item of the later run is
			// processed again from scratch
			cs.Prelude = &Prelude{N: n, Items: genItems(rg, n, budget, 0), PostFail: true}
			cs.Family = "scripts-after-earlier-failed-post"
		}
		if i%19 == 4 && cs.Prelude == nil && cc >= 1 {
			pn := 4*cc + 3 + rg.IntN(8)
			cs.Prelude = &Prelude{N: pn, Items: make([]ItemScript, pn), Cancelled: true}
			cs.Family = "scripts-after-earlier-cancelled-run"
		}
		if i%7 == 3 && cs.Prelude == nil {
			// the same node object was run before on a larger batch and the caller kept that run's result list
			pn := n + 1 + rg.IntN(8)
			cs.Prelude = &Prelude{N: pn, Items: genItems(rg, pn, budget, 0)}
			cs.Family = "scripts-after-earlier-run"
		}
		return cs
	}, func(i int, cs *BatchCase, o *BatchObs) {
		r.Count("runs", 1)
		if cs.Gated {
			r.Count("runs.gated", 1)
		}
		multi, fb := 0, 0
		for j, a := range o.Attempts {
			if a > 1 {
				multi++
			}
			fb += o.FBCalls[j]
		}
		r.Count("items", int64(cs.N))
		r.Count("items.retried", int64(multi))
		r.Count("fallback_calls", int64(fb))
		if multi > 0 || fb > 0 {
			b, _ := json.Marshal(cs.Items)
			r.Nontrivial(fmt.Sprintf("%d %d %d %v %s %s %s", cs.N, cs.C, cs.Budget, cs.FB, cs.Build, b, completionOrder(o)))
		}
		if cs.Gated && multi > 1 && cs.N <= 6 && r.SampleWanted("gated") {
			r.Sample("gated", map[string]any{"case": cs, "attempts": o.Attempts, "fb_calls": o.FBCalls, "slots": o.Slots, "released": completionOrder(o)})
		}
	}, "C07")
}

// runC02Batch: per-item retry/fallback exactness on small batches (every item of a batch).
func runC02Batch(c *Cfg) {
	r := c.Rep
	nr := c.Pick(8000, 250000)
	gatedLoop(c, nr, func(i int) *BatchCase {
		rg := c.Rng("c02b", i)
		n := 1 + rg.IntN(6)
		cc := rg.IntN(4)
		budget := 1 + rg.IntN(8)
		cs := &BatchCase{Family: "c02-batch", N: n, C: cc, Budget: budget, Items: genItems(rg, n, budget, 0), Shape: "results", ExecStyle: []string{"result", "any"}[rg.IntN(2)], PSeed: rg.Uint64()}
		switch rg.IntN(3) {
		case 0:
			cs.Build = "builder"
		case 1:
			cs.Build, cs.FB = "options", rg.IntN(3) != 0
		default:
			cs.Build, cs.FB = "compose", rg.IntN(3) != 0
		}
		cs.CtxLike = rg.IntN(4) == 0
		if i%9 == 4 && cs.Build != "compose" {
			cs.Shape, cs.ExecStyle = "results-with-errors", "result" // items that arrive as error Results get the same budget and fallback as any other item
		}
		if i%7 == 3 && cs.ExecStyle == "result" && !cs.CtxLike {
			cs.ErrResult = true // a "failing" attempt hands back (NewErrorResult(e), nil): a nil error is a successful attempt — one attempt, no fallback
		}
		if i%5 == 1 && cs.Build != "compose" {
			// the node ran before with another budget and was then re-configured (builder method / option on its BaseNode)
			pb := 1 + rg.IntN(8)
			for pb == budget {
				pb = 1 + rg.IntN(8)
			}
			cs.Prelude = &Prelude{N: 1 + rg.IntN(4), Budget: pb, C: cc, ReVia: []string{"option", "builder"}[rg.IntN(2)]}
			cs.Prelude.Items = genItems(rg, cs.Prelude.N, pb, 0)
			cs.Family = "c02-batch-reconfigured"
		}
		if i%16 == 5 {
			// a fallback is installed and the context is cancelled while item 0 sits in its (hour-long) retry wait after a
			// failed attempt: fewer than N attempts were made, so no fallback is owed
			cs = &BatchCase{Family: "c02-batch-cancel-in-wait-with-fallback", N: n, C: cc, Budget: 2 + rg.IntN(3), FB: true, Shape: []string{"results", "any"}[rg.IntN(2)], ExecStyle: []string{"result", "any"}[rg.IntN(2)], PSeed: rg.Uint64(), WaitHour: true,
				Cancel: &CancelSpec{Kind: "cancel", Item: 0, Attempt: 1, DuringWait: true}}
			cs.Build = map[string]string{"results": "options", "any": "compose"}[cs.Shape]
			cs.Items = make([]ItemScript, n)
			for j := range cs.Items {
				cs.Items[j].K = 1
			}
			cs.Items[0].K = cs.Budget + 1
			return cs
		}
		if i%3 == 0 && cc >= 2 {
			// stop mode, gated, adversarial release order: an item is mid-retry while another one fails for good
			cs.Stop, cs.SetMode, cs.Gated, cs.Policy, cs.SleepUs = true, true, true, "random", 0
			cs.Budget = 2 + rg.IntN(3)
			cs.Items = genItems(rg, n, cs.Budget, 0)
			cs.Family = "c02-batch-stop-gated"
		}
		return cs
	}, func(i int, cs *BatchCase, o *BatchObs) {
		r.Count("batch.runs", 1)
		if cs.Stop {
			r.Count("batch.runs.stop_mode_gated", 1)
		}
		ex := 0
		for _, a := range o.Attempts {
			ex += a
		}
		r.Count("batch.exec_attempts", int64(ex))
		b, _ := json.Marshal(cs.Items)
		r.Nontrivial(fmt.Sprintf("b %d %d %d %v %s %s", cs.N, cs.C, cs.Budget, cs.FB, cs.Build, b))
		if ex > cs.N+2 && r.SampleWanted("batch") {
			r.Sample("batch", map[string]any{"case": cs, "attempts": o.Attempts, "fb_calls": o.FBCalls, "slots": o.Slots})
		}
	}, "C02")
}

// nestedStopRun: an outer continue-mode batch (concurrency oc) whose every item runs an inner STOP-mode batch
// (concurrency ic <= 1, n items, item f fails) with the context it was given. Returns, per outer item, the inner items executed.
func nestedStopRun(oc, ic, n, f int) (executed [][]int, successBehind int) {
	outerN := 3
	executed = make([][]int, outerN)
	var mu sync.Mutex
	inner := func(o int) flyt.Node {
		return flyt.NewBatchNode().WithBatchConcurrency(ic).WithBatchErrorHandling(false).
			WithPrepFunc(func(ctx context.Context, s *flyt.SharedStore) ([]flyt.Result, error) {
				r := make([]flyt.Result, n)
				for i := range r {
					r[i] = flyt.NewResult(i)
				}
				return r, nil
			}).
			WithExecFuncAny(func(ctx context.Context, v any) (any, error) {
				i := v.(int)
				mu.Lock()
				executed[o] = append(executed[o], i)
				mu.Unlock()
				if i == f {
					return nil, fmt.Errorf("inner item %d fails", i)
				}
				return i, nil
			}).
			WithPostFunc(func(ctx context.Context, s *flyt.SharedStore, items, results []flyt.Result) (flyt.Action, error) {
				for i := f + 1; i < len(results); i++ {
					if !results[i].IsError() {
						mu.Lock()
						successBehind++
						mu.Unlock()
					}
				}
				return "done", nil
			})
	}
	outer := flyt.NewBatchNode().WithBatchConcurrency(oc).
		WithPrepFunc(func(ctx context.Context, s *flyt.SharedStore) ([]flyt.Result, error) {
			r := make([]flyt.Result, outerN)
			for i := range r {
				r[i] = flyt.NewResult(i)
			}
			return r, nil
		}).
		WithExecFuncAny(func(ctx context.Context, v any) (any, error) {
			_, err := flyt.Run(ctx, inner(v.(int)), flyt.NewSharedStore())
			return v, err
		})
	func() {
		defer func() { recover() }()
		_, _ = flyt.Run(context.Background(), outer, flyt.NewSharedStore())
	}()
	return
}

// nestedContinueRun: the other way round — every item of a STOP-mode batch (3 items, concurrency oc) runs a
// CONTINUE-mode batch of n items (concurrency ic) whose item f fails for good. The inner batches still process every
// item, their runs succeed, so the outer batch has no failing item and stops nowhere.
func nestedContinueRun(oc, ic, n, f int) (innerExec [][]int, innerErrSlots []int, outerOK int, outerErr error) {
	outerN := 3
	innerExec = make([][]int, outerN)
	innerErrSlots = make([]int, outerN)
	var mu sync.Mutex
	inner := func(o int) flyt.Node {
		return flyt.NewBatchNode().WithBatchConcurrency(ic).
			WithPrepFunc(func(ctx context.Context, s *flyt.SharedStore) ([]flyt.Result, error) {
				r := make([]flyt.Result, n)
				for i := range r {
					r[i] = flyt.NewResult(i)
				}
				return r, nil
			}).
			WithExecFuncAny(func(ctx context.Context, v any) (any, error) {
				i := v.(int)
				mu.Lock()
				innerExec[o] = append(innerExec[o], i)
				mu.Unlock()
				if i == f {
					return nil, fmt.Errorf("inner item %d fails", i)
				}
				return i, nil
			}).
			WithPostFunc(func(ctx context.Context, s *flyt.SharedStore, items, results []flyt.Result) (flyt.Action, error) {
				for i := range results {
					if results[i].IsError() {
						mu.Lock()
						innerErrSlots[o]++
						mu.Unlock()
					}
				}
				return "done", nil
			})
	}
	outer := flyt.NewBatchNode().WithBatchConcurrency(oc).WithBatchErrorHandling(false).
		WithPrepFunc(func(ctx context.Context, s *flyt.SharedStore) ([]flyt.Result, error) {
			r := make([]flyt.Result, outerN)
			for i := range r {
				r[i] = flyt.NewResult(i)
			}
			return r, nil
		}).
		WithExecFuncAny(func(ctx context.Context, v any) (any, error) {
			_, err := flyt.Run(ctx, inner(v.(int)), flyt.NewSharedStore())
			return v, err
		}).
		WithPostFunc(func(ctx context.Context, s *flyt.SharedStore, items, results []flyt.Result) (flyt.Action, error) {
			for _, r := range results {
				if !r.IsError() {
					outerOK++
				}
			}
			return "done", nil
		})
	func() {
		defer func() {
			if p := recover(); p != nil {
				outerErr = fmt.Errorf("panic: %v", p)
			}
		}()
		_, outerErr = flyt.Run(context.Background(), outer, flyt.NewSharedStore())
	}()
	return
}

// sharedSentinelRun: every failing attempt of every item returns the SAME error value (a package-level sentinel, as
// real code does). Item 0 never succeeds; the others succeed on their last permitted attempt. They wait in their first
// attempt until item 0 is through (its fallback opens the gate), so item 0's exhausted budget is history when their
// own failures happen. Returns the attempts made per item and the number of success slots.
func sharedSentinelRun(cc, budget, n int) (attempts []int32, okSlots int, err error) {
	sentinel := errors.New("backend unavailable")
	attempts = make([]int32, n)
	gate := make(chan struct{})
	var once sync.Once
	bn := flyt.NewBatchNode(flyt.WithExecFallbackFunc(func(p any, e error) (any, error) {
		once.Do(func() { close(gate) })
		return nil, e
	})).WithBatchConcurrency(cc).WithMaxRetries(budget).
		WithPrepFunc(func(ctx context.Context, s *flyt.SharedStore) ([]flyt.Result, error) {
			r := make([]flyt.Result, n)
			for i := range r {
				r[i] = flyt.NewResult(i)
			}
			return r, nil
		}).
		WithExecFuncAny(func(ctx context.Context, v any) (any, error) {
			i := v.(int)
			a := atomic.AddInt32(&attempts[i], 1)
			if i == 0 {
				return nil, sentinel
			}
			if a == 1 && cc > 1 {
				select {
				case <-gate:
				case <-time.After(5 * time.Second):
				}
			}
			if int(a) < budget {
				return nil, sentinel
			}
			return i, nil
		}).
		WithPostFunc(func(ctx context.Context, s *flyt.SharedStore, items, results []flyt.Result) (flyt.Action, error) {
			for _, r := range results {
				if !r.IsError() {
					okSlots++
				}
			}
			return "done", nil
		})
	_, err = flyt.Run(context.Background(), bn, flyt.NewSharedStore())
	return
}

// dupStopRun: a stop-mode batch over string / int items of which several are EQUAL; the item at index f fails. Returns
// the indices that were executed and the slots that came back as successes.
func dupStopRun(cc int, kind string, f int) (executed []int, okSlots []int, n int, err error) {
	words := []string{"alpha", "boom", "alpha", "beta", "alpha", "beta", "gamma"}
	n = len(words)
	var mu sync.Mutex
	calls := 0
	prep := func(ctx context.Context, s *flyt.SharedStore) (any, error) {
		if kind == "ints" {
			l := make([]int, n)
			for i, w := range words {
				l[i] = len(w) // 5 4 5 4 5 4 5: many equal ints
			}
			return l, nil
		}
		return append([]string(nil), words...), nil
	}
	bn := flyt.NewBatchNode(flyt.WithPrepFuncAny(prep), flyt.WithBatchConcurrency(cc), flyt.WithBatchErrorHandling(false)).
		WithExecFuncAny(func(ctx context.Context, v any) (any, error) {
			mu.Lock()
			i := calls // sequential / one worker: the k-th call is item k
			calls++
			executed = append(executed, i)
			mu.Unlock()
			if i == f {
				return nil, fmt.Errorf("item %d fails", i)
			}
			return v, nil
		}).
		WithPostFunc(func(ctx context.Context, s *flyt.SharedStore, items, results []flyt.Result) (flyt.Action, error) {
			for i, r := range results {
				if !r.IsError() {
					okSlots = append(okSlots, i)
				}
			}
			return "done", nil
		})
	_, err = flyt.Run(context.Background(), bn, flyt.NewSharedStore())
	return
}

// chainedBatchRun: the result list of one batch is the item list of the next (a two-stage pipeline). In stage 1 item
// `bad` fails every attempt and its fallback hands back the item it was given, unchanged. Stage 2 must process every
// item exactly like a freshly made one: attempts[i] counts stage 2's exec calls per item.
func chainedBatchRun(cc, budget, n, bad int) (attempts []int32, slotsOK int, err error) {
	var stage1 []flyt.Result
	mk := func() *flyt.BatchNodeBuilder {
		return flyt.NewBatchNode(flyt.WithExecFallbackFunc(func(p any, e error) (any, error) { return p, nil })).WithBatchConcurrency(cc).WithMaxRetries(budget)
	}
	s1 := mk().
		WithPrepFunc(func(ctx context.Context, s *flyt.SharedStore) ([]flyt.Result, error) {
			r := make([]flyt.Result, n)
			for i := range r {
				r[i] = flyt.NewResult(i)
			}
			return r, nil
		}).
		WithExecFunc(func(ctx context.Context, it flyt.Result) (flyt.Result, error) {
			if it.Value() == any(bad) {
				return flyt.Result{}, fmt.Errorf("stage 1: item %d fails", bad)
			}
			return it, nil
		}).
		WithPostFunc(func(ctx context.Context, s *flyt.SharedStore, items, results []flyt.Result) (flyt.Action, error) {
			stage1 = append([]flyt.Result(nil), results...)
			return "next", nil
		})
	if _, err = flyt.Run(context.Background(), s1, flyt.NewSharedStore()); err != nil {
		return
	}
	attempts = make([]int32, n)
	s2 := mk().
		WithPrepFunc(func(ctx context.Context, s *flyt.SharedStore) ([]flyt.Result, error) { return stage1, nil }).
		WithExecFunc(func(ctx context.Context, it flyt.Result) (flyt.Result, error) {
			if i, ok := it.Value().(int); ok && i >= 0 && i < n {
				atomic.AddInt32(&attempts[i], 1)
			}
			return flyt.NewResult("processed"), nil
		}).
		WithPostFunc(func(ctx context.Context, s *flyt.SharedStore, items, results []flyt.Result) (flyt.Action, error) {
			for _, r := range results {
				if !r.IsError() && r.Value() == any("processed") {
					slotsOK++
				}
			}
			return "done", nil
		})
	_, err = flyt.Run(context.Background(), s2, flyt.NewSharedStore())
	return
}

// typedNilItemRun: some items' exec returns a NON-NIL error interface holding a nil pointer (the typed-nil gotcha): in
// Go that is an error, so the item failed. Returns which slots are errors and which items were executed.
func typedNilItemRun(cc int, stop bool, n int, bad map[int]bool) (errSlots []bool, executed []bool, err error) {
	executed = make([]bool, n)
	var mu sync.Mutex
	bn := flyt.NewBatchNode().WithBatchConcurrency(cc).WithBatchErrorHandling(!stop).
		WithPrepFunc(func(ctx context.Context, s *flyt.SharedStore) ([]flyt.Result, error) {
			r := make([]flyt.Result, n)
			for i := range r {
				r[i] = flyt.NewResult(i)
			}
			return r, nil
		}).
		WithExecFuncAny(func(ctx context.Context, v any) (any, error) {
			i := v.(int)
			mu.Lock()
			executed[i] = true
			mu.Unlock()
			if bad[i] {
				var e *scen.NilableErr
				return "leftover", e
			}
			return i, nil
		}).
		WithPostFunc(func(ctx context.Context, s *flyt.SharedStore, items, results []flyt.Result) (flyt.Action, error) {
			errSlots = make([]bool, len(results))
			for i, r := range results {
				errSlots[i] = r.IsError()
			}
			return "done", nil
		})
	_, err = flyt.Run(context.Background(), bn, flyt.NewSharedStore())
	return
}

func runC09(c *Cfg) {
	runSpecial(c, "C09", "panicking-batch-item")
	runSpecial(c, "C09", "stop-mode-batch-inside-flows")
	r := c.Rep
	if RaceEnabled {
		runBatchRace(c, "C09")
		return
	}
	// the first failing item fails with a typed-nil error: it still stops the batch and its slot is an error
	for _, cc := range []int{0, 1} {
		if !c.Mine(cc + 1) {
			continue
		}
		n, bad := 9, map[int]bool{3: true}
		es, ex, err := typedNilItemRun(cc, true, n, bad)
		r.Eval()
		r.Count("typed_nil_stop.runs", 1)
		if err == nil && len(es) == n {
			tc := map[string]any{"family": "typed-nil-item-errors", "c": cc, "stop": true}
			if !es[3] {
				r.Violate("C09", "C09:failed-item-as-success:typed-nil", fmt.Sprintf("stop mode, concurrency %d: item 3 failed with a typed-nil error (err != nil); its slot is presented as a success", cc), tc)
			}
			for i := 4; i < n; i++ {
				if ex[i] {
					r.Violate("C09", "C09:executed-behind-failing-item:typed-nil", fmt.Sprintf("stop mode, concurrency %d: item 3 failed (typed-nil error), yet item %d behind it was executed", cc, i), tc)
					break
				}
			}
		}
		r.Nontrivial(fmt.Sprintf("tns %d", cc))
	}
	// equal items are separate items also in stop mode: the ones behind the failing item are not executed and are not
	// presented as successes (because an equal item in front of it succeeded, say)
	for _, cc := range []int{0, 1} {
		for _, kind := range []string{"strings", "ints"} {
			for _, f := range []int{1, 3} {
				if !c.Mine(cc + f) {
					continue
				}
				ex, ok, n, err := dupStopRun(cc, kind, f)
				r.Eval()
				r.Count("dup_stop.runs", 1)
				dc := map[string]any{"family": "stop-mode-equal-items", "kind": kind, "c": cc, "fail_at": f}
				if err == nil {
					for _, i := range ok {
						if i > f {
							r.Violate("C09", "C09:unprocessed-as-success:equal-items", fmt.Sprintf("stop mode, concurrency %d, %d %s items of which several are equal, item %d fails: slot %d (behind the failing item, never executed: %d exec calls were made) is presented as a success", cc, n, kind, f, i, len(ex)), dc)
							break
						}
						if i == f {
							r.Violate("C09", "C09:failed-item-as-success:equal-items", fmt.Sprintf("stop mode, concurrency %d, %d %s items of which several are equal: item %d failed, its slot is presented as a success", cc, n, kind, f), dc)
							break
						}
					}
					if len(ex) > f+1 {
						r.Violate("C09", "C09:executed-behind-failing-item:equal-items", fmt.Sprintf("stop mode, concurrency %d, item %d fails: %d exec calls were made, want %d", cc, f, len(ex), f+1), dc)
					}
				}
				r.Nontrivial(fmt.Sprintf("ds %d %s %d", cc, kind, f))
			}
		}
	}
	// a stop-mode batch halts also when it runs inside an item of another (continue-mode) batch
	for _, oc := range []int{0, 2} {
		for _, ic := range []int{0, 1} {
			for _, n := range []int{3, 6} {
				for f := 0; f < n-1; f++ {
					if !c.Mine(oc + ic + n + f) {
						continue
					}
					var ex [][]int
					var sb int
					if dead, incon := runOrDeadlock(func() { ex, sb = nestedStopRun(oc, ic, n, f) }); incon != "" {
						r.Incon(incon)
						continue
					} else if dead {
						r.Violate("C09", "C09:nested-batches-never-finish", fmt.Sprintf("a stop-mode batch (concurrency %d, %d items) run from every item of a batch with concurrency %d: nothing moves any more and the run has not returned", ic, n, oc), map[string]any{"family": "stop-batch-inside-continue-batch", "outer_c": oc, "inner_c": ic, "n": n, "fail_at": f})
						continue
					}
					r.Eval()
					r.Count("nested_stop.runs", 1)
					nc := map[string]any{"family": "stop-batch-inside-continue-batch", "outer_c": oc, "inner_c": ic, "n": n, "fail_at": f}
					for o, items := range ex {
						for _, it := range items {
							if it > f {
								r.Violate("C09", "C09:nested-stop-batch-does-not-halt", fmt.Sprintf("a stop-mode batch (concurrency %d, %d items, item %d fails) run from item %d of a continue-mode batch (concurrency %d): inner item %d, behind the failing one, was executed (executed: %v)", ic, n, f, o, oc, it, items), nc)
								break
							}
						}
					}
					if sb > 0 {
						r.Violate("C09", "C09:nested-stop-batch-success-behind-failure", fmt.Sprintf("stop-mode batch inside a continue-mode batch: %d slots behind the failing item %d are reported as successes", sb, f), nc)
					}
					r.Nontrivial(fmt.Sprintf("ns %d %d %d %d", oc, ic, n, f))
				}
			}
		}
	}
	ns := []int{1, 2, 5, 16}
	if c.Thorough() {
		ns = nil
		for n := 1; n <= 16; n++ {
			ns = append(ns, n)
		}
	}
	var cases []*BatchCase
	idx := 0
	for _, n := range ns {
		for cc := 0; cc <= 4; cc++ {
			for f := 0; f < n; f++ { // position of the first failing item
				for _, stop := range []bool{true, false} {
					for variant := 0; variant < 5; variant++ {
						// variant 0: only f fails; 1: f and a later item fail; 2: retries (budget 2, f fails both); 3: fallback installed, fails for f
						// 4: fallback installed and it RESCUES f (and f+2): nothing has failed, nothing stops
						it := make([]ItemScript, n)
						budget := 1
						fb := false
						for j := range it {
							it[j].K = 1
						}
						for j := 0; j < f; j++ {
							it[j].Nil = (j+idx)%3 == 0 // earlier items may legitimately succeed with a nil value: still successes after the stop
						}
						switch variant {
						case 0:
							it[f].K = 2
						case 1:
							it[f].K = 2
							if f+1 < n {
								it[(f+1+idx%3)%n].K = 2
								it[f].K = 2
							}
						case 2:
							budget = 2
							it[f].K = 3
							if f > 0 {
								it[f-1].K = 2 // an earlier item needs its retry
							}
						case 3:
							fb = true
							it[f].K, it[f].FBE = 2, true
							if f+1 < n {
								it[f+1].K = 2 // rescued by the fallback: not a failure
							}
						case 4:
							fb = true
							it[f].K = 2
							if f+2 < n {
								it[f+2].K = 2
							}
						}
						build := "builder"
						if fb {
							build = "compose"
						}
						pols := []string{"holdfail", "first", "last", "random"}
						cs := &BatchCase{Family: "stop-grid", N: n, C: cc, Stop: stop, SetMode: true, Budget: budget, FB: fb, Items: it, Shape: "results", Build: build, ExecStyle: []string{"result", "any"}[idx%2], Gated: true, Policy: pols[idx%4], PSeed: uint64(c.Seed)*1000003 + uint64(idx)}
						if variant == 1 && cc > 1 {
							cs.Policy = "holdfail"
						}
						if idx%7 == 2 && build == "builder" {
							cs.PrepSets = &PrepSets{BuiltC: []int{0, 1, 3}[idx/7%3]} // the node is built in the other mode (and with another concurrency); its prep chooses this run's mode
						}
						if idx%5 == 3 {
							cs.Odd = &OddItem{I: f, Kind: []string{"nil", "error"}[(idx/5)%2]} // the failing item is one without a payload of its own: its failure counts like any other
						}
						cs.CtxLike = idx%5 == 0 // a per-item timeout is an ordinary failure: it stops the batch like any other
						cs.AggErrs = !cs.CtxLike && idx%6 == 4 // so is a failure that wraps an (empty) aggregate of the library's own error type
						cases = append(cases, cs)
						idx++
					}
				}
			}
		}
	}
	// the context carries a deadline that is nearer than ONE retry wait (but far enough for the work at hand, which needs
	// no retry at all): every item is executed, nothing is presented as a success that never ran
	for _, cc := range []int{0, 1, 3} {
		for _, stop := range []bool{true, false} {
			for _, budget := range []int{2, 4} {
				n := 4
				it := make([]ItemScript, n)
				for j := range it {
					it[j].K = 1
				}
				cases = append(cases, &BatchCase{Family: "deadline-nearer-than-one-retry-wait", N: n, C: cc, Stop: stop, SetMode: true, Budget: budget, Items: it, Shape: "results", Build: []string{"builder", "builder-mode-first"}[budget/2%2], ExecStyle: []string{"result", "any"}[cc%2], WaitMs: 6000, FarDeadlineMs: 2500})
			}
		}
	}
	// the failing item is slow (the controller dwells at the saturated points, well beyond any submit timeout one might
	// think of): the items queued behind it are still not started by anything but the c workers
	for _, cc := range []int{1, 2} {
		for _, n := range []int{8, 12} {
			it := make([]ItemScript, n)
			for j := range it {
				it[j].K = 1
			}
			it[0].K = 2
			cases = append(cases, &BatchCase{Family: "stop-with-slow-failing-item", N: n, C: cc, Stop: true, SetMode: true, Budget: 1, Items: it, Shape: "results", Build: "builder", ExecStyle: []string{"result", "any"}[cc%2], Gated: true, Policy: "first", DwellMs: 350})
		}
	}
	// large stop-mode batches (64 items and more) on a node that has already run a large batch to its end: what the
	// earlier run left behind does not turn never-executed items into successes
	for _, n := range []int{64, 96, 130} {
		for _, cc := range []int{0, 1, 3} {
			for _, f := range []int{0, 7} {
				it := make([]ItemScript, n)
				for j := range it {
					it[j].K = 1
				}
				it[f].K = 2
				pre := make([]ItemScript, n+8)
				for j := range pre {
					pre[j].K = 1
				}
				cases = append(cases, &BatchCase{Family: "stop-large-after-earlier-large-run", N: n, C: cc, Stop: true, SetMode: true, Budget: 1, Items: it, Shape: "results", Build: "builder", ExecStyle: []string{"result", "any"}[(n+cc)%2], Gated: true, Policy: "holdfail", Prelude: &Prelude{N: n + 8, Items: pre}})
			}
		}
	}
	gatedLoop(c, len(cases), func(i int) *BatchCase { return cases[i] }, func(i int, cs *BatchCase, o *BatchObs) {
		r.Count("runs", 1)
		unexec := 0
		for _, a := range o.Attempts {
			if a == 0 {
				unexec++
			}
		}
		r.Count("items.never_executed", int64(unexec))
		if cs.Stop {
			r.Count("runs.stop", 1)
			if unexec > 0 {
				r.Count("runs.stop.with_unexecuted_items", 1)
			}
		}
		b, _ := json.Marshal(cs.Items)
		r.Nontrivial(fmt.Sprintf("%d %d %v %d %v %s %s", cs.N, cs.C, cs.Stop, cs.Budget, cs.FB, b, completionOrder(o)))
		if cs.Stop && unexec > 0 && cs.C > 1 && r.SampleWanted("stop") {
			r.Sample("stop", map[string]any{"case": cs, "attempts": o.Attempts, "slots": o.Slots, "released": completionOrder(o)})
		}
	}, "C09")
	// the same node object has been run before (a stop-mode run that hit a failure): the later run halts the same
	// way and its skipped items still carry errors; and the error handling chosen BEFORE the concurrency
	var ca []*BatchCase
	for _, n := range []int{3, 6, 16} {
		for cc := 0; cc <= 4; cc++ {
			for _, f := range []int{0, 1, n - 2} {
				it := make([]ItemScript, n)
				for j := range it {
					it[j].K = 1
				}
				it[f].K = 2
				pit := make([]ItemScript, 4)
				for j := range pit {
					pit[j].K = 1
				}
				pit[1].K = 2
				ca = append(ca, &BatchCase{Family: "stop-after-earlier-stopped-run", N: n, C: cc, Stop: true, SetMode: true, Budget: 1, Items: it, Shape: "results", Build: []string{"builder", "options"}[f%2], ExecStyle: []string{"result", "any"}[cc%2], Gated: true, Policy: "holdfail", Prelude: &Prelude{N: 4, Items: pit}})
				for _, stop := range []bool{true, false} {
					ca = append(ca, &BatchCase{Family: "mode-then-concurrency", N: n, C: cc, Stop: stop, SetMode: true, Budget: 1, Items: it, Shape: "results", Build: "builder-mode-first", ExecStyle: []string{"result", "any"}[(cc+f)%2], Gated: true, Policy: []string{"holdfail", "first", "random"}[(n+cc)%3], PSeed: uint64(n*100 + cc)})
				}
			}
		}
	}
	// the node ran before with MORE workers and was then re-configured: one worker / sequential means exactly that now
	for _, c2 := range []int{0, 1, 2} {
		for _, via := range []string{"builder", "option"} {
			n := 8
			it := make([]ItemScript, n)
			for j := range it {
				it[j].K = 1
			}
			it[0].K = 2
			ca = append(ca, &BatchCase{Family: "stop-after-lowering-concurrency", N: n, C: c2, Stop: true, SetMode: true, Budget: 1, Items: it, Shape: "results", Build: "builder", ExecStyle: "result", Gated: true, Policy: "holdfail",
				Prelude: &Prelude{N: 6, Items: make([]ItemScript, 6), Budget: 1, C: 4, ReVia: via}})
		}
	}
	// cancellation in the middle of a batch whose fallback turns every error into a value: what was never executed
	// still is not a success
	for _, cc := range []int{0, 1, 2, 3} {
		for _, stop := range []bool{false, true} {
			for _, at := range []int{0, 3} {
				n := 7
				it := make([]ItemScript, n)
				for j := range it {
					it[j].K = 1
				}
				ca = append(ca, &BatchCase{Family: "cancel-with-rescuing-fallback", N: n, C: cc, Stop: stop, SetMode: true, Budget: 1, FB: true, Items: it, Shape: []string{"results", "any"}[cc%2], Build: []string{"options", "compose"}[cc%2], ExecStyle: []string{"result", "any"}[at%2], Gated: true, Policy: "holdfail", Cancel: &CancelSpec{Kind: []string{"cancel", "deadline"}[cc%2], Item: at, Attempt: 1}})
			}
		}
	}
	// one worker (or none) in stop mode with retries and a wait: the item that is retried occupies the worker; nothing behind it runs before it is settled
	for _, cc := range []int{0, 1} {
		for _, f := range []int{0, 2} {
			for _, budget := range []int{2, 3} {
				n := 6
				it := make([]ItemScript, n)
				for j := range it {
					it[j].K = 1
				}
				it[f].K = budget + 1
				ca = append(ca, &BatchCase{Family: "stop-one-worker-retry-wait", N: n, C: cc, Stop: true, SetMode: true, Budget: budget, Items: it, Shape: "results", Build: []string{"builder", "options"}[f/2], ExecStyle: []string{"result", "any"}[cc], WaitMs: 3})
			}
		}
	}
	// exec reports failures as error RESULTS with a nil error (for the framework: successes carrying an error state):
	// a stop-mode batch does not stop for them, and whatever it does, nothing unexecuted looks like a success
	for _, cc := range []int{0, 1, 3} {
		for _, f := range []int{0, 3} {
			n := 7
			it := make([]ItemScript, n)
			for j := range it {
				it[j].K = 1
			}
			it[f].K = 2
			ca = append(ca, &BatchCase{Family: "stop-mode-error-results", N: n, C: cc, Stop: true, SetMode: true, Budget: 1, Items: it, Shape: "results", Build: "builder", ExecStyle: "result", ErrResult: true, Gated: true, Policy: "holdfail"})
		}
	}
	// batches far beyond 64 items in both modes, the first failure early and near the end
	for _, n := range []int{128, 300} {
		for _, cc := range []int{0, 1, 3, 8} {
			for _, f := range []int{5, n - 3} {
				for _, stop := range []bool{true, false} {
					it := make([]ItemScript, n)
					for j := range it {
						it[j].K = 1
					}
					it[f].K = 2
					ca = append(ca, &BatchCase{Family: "stop-grid-large", N: n, C: cc, Stop: stop, SetMode: true, Budget: 1, Items: it, Shape: "results", Build: "builder", ExecStyle: []string{"result", "any"}[(cc+f)%2], Gated: true, Policy: []string{"holdfail", "random"}[cc%2], PSeed: uint64(n + cc)})
				}
			}
		}
	}
	gatedLoop(c, len(ca), func(i int) *BatchCase { return ca[i] }, func(i int, cs *BatchCase, o *BatchObs) {
		r.Count("runs."+cs.Family, 1)
		r.Nontrivial(fmt.Sprintf("%s %d %d %v %s", cs.Family, cs.N, cs.C, cs.Stop, completionOrder(o)))
	}, "C09")
	// cancellation with the other in-flight items held parked and a 150 ms dwell: whatever post is given for items
	// that are still inside exec, or were never started, must not look like a success
	var cd []*BatchCase
	for _, cc := range []int{1, 2, 3} {
		for _, stop := range []bool{false, true} {
			n := 3*cc + 3
			it := make([]ItemScript, n)
			for j := range it {
				it[j].K = 1
			}
			cd = append(cd, &BatchCase{Family: "cancel-dwell", N: n, C: cc, Stop: stop, SetMode: true, Budget: 1, Items: it, Shape: "results", Build: "builder", ExecStyle: "result", Gated: true, Policy: "holdfail", DwellMs: 150, Cancel: &CancelSpec{Kind: "cancel", Item: 0, Attempt: 1}})
		}
	}
	gatedLoop(c, len(cd), func(i int) *BatchCase { return cd[i] }, func(i int, cs *BatchCase, o *BatchObs) {
		r.Count("cancel_dwell.runs", 1)
		r.Nontrivial(fmt.Sprintf("cd %d %d %v", cs.N, cs.C, cs.Stop))
	}, "C09")
	// free-running stop-mode runs with many failures
	nr := c.Pick(300, 20000)
	gatedLoop(c, nr, func(i int) *BatchCase {
		rg := c.Rng("c09free", i)
		n := 1 + rg.IntN(32)
		it := make([]ItemScript, n)
		for j := range it {
			it[j].K = 1 + rg.IntN(2)
		}
		return &BatchCase{Family: "stop-free", N: n, C: rg.IntN(6), Stop: true, Budget: 1, Items: it, Shape: "results", Build: "builder", ExecStyle: "result", SleepUs: 50, PSeed: rg.Uint64()}
	}, func(i int, cs *BatchCase, o *BatchObs) {
		r.Count("free.runs", 1)
	}, "C09")
}

func runC11(c *Cfg) {
	runSpecial(c, "C11", "cancel-inside-a-short-retry-wait")
	if c.Shard == 0 {
		c.Rep.Count("cancel_in_short_wait.rounds_decided", cancelShortWaitDecided.Load())
		c.Rep.Count("cancel_in_short_wait.rounds_canceller_too_late", cancelShortWaitLate.Load())
	}
	r := c.Rep
	if RaceEnabled {
		runBatchRace(c, "C11")
		return
	}
	ns := []int{1, 3, 16}
	if c.Thorough() {
		ns = []int{1, 2, 3, 4, 5, 8, 11, 16}
	}
	var cases []*BatchCase
	idx := 0
	for _, n := range ns {
		for cc := 0; cc <= 4; cc++ {
			for _, stop := range []bool{false, true} {
				for _, budget := range []int{1, 3} {
					for _, hour := range []bool{false, true} {
						if hour && budget == 1 {
							continue
						}
						// before the run
						for _, k := range []string{"pre-cancel", "pre-deadline"} {
							it := make([]ItemScript, n)
							for j := range it {
								it[j].K = 1
							}
							cases = append(cases, &BatchCase{Family: "pre", N: n, C: cc, Stop: stop, SetMode: true, Budget: budget, Items: it, Shape: "results", Build: "builder", ExecStyle: "result", Gated: true, Policy: "first", WaitHour: hour, Cancel: &CancelSpec{Kind: k}})
						}
						if !hour {
							it := make([]ItemScript, n)
							for j := range it {
								it[j].K = 1
							}
							cases = append(cases, &BatchCase{Family: "in-prep", N: n, C: cc, Stop: stop, SetMode: true, Budget: budget, Items: it, Shape: "results", Build: []string{"builder", "options"}[idx%2], ExecStyle: "result", Gated: true, Policy: "first", Cancel: &CancelSpec{Kind: []string{"cancel", "deadline", "cause"}[idx%3], InPrep: true}})
						}
						for item := 0; item < n; item++ {
							for att := 1; att <= budget; att++ {
								if !c.Thorough() && n == 16 && item%5 != 0 {
									continue
								}
								if hour && att > 1 {
									continue // the cancelling item itself would sleep an hour before attempt 2
								}
								it := make([]ItemScript, n)
								for j := range it {
									// everything keeps failing, so that a missing check shows as a new attempt
									it[j].K = budget + 1
									if (j+idx)%3 == 0 {
										it[j].K = 1
									}
								}
								it[item].K = budget + 1
								if hour {
									for j := 0; j < item; j++ {
										it[j].K = 1 // earlier items must not occupy the workers for an hour before the cancelling item starts
									}
								}
								kind := []string{"cancel", "deadline", "cause"}[idx%3]
								pol := []string{"holdfail", "random", "first", "last"}[idx%4]
								if hour {
									pol = []string{"random", "first", "last"}[idx%3]
								}
								cases = append(cases, &BatchCase{Family: "in-exec", N: n, C: cc, Stop: stop, SetMode: true, Budget: budget, Items: it, Shape: "results", Build: "builder", ExecStyle: []string{"result", "any"}[idx%2], Gated: true, Policy: pol, PSeed: uint64(c.Seed)*7919 + uint64(idx), WaitHour: hour, Cancel: &CancelSpec{Kind: kind, Item: item, Attempt: att}, PostCtxAware: idx%3 == 1, TempErrs: idx%4 == 2})
								idx++
							}
						}
					}
				}
			}
		}
	}
	gatedLoop(c, len(cases), func(i int) *BatchCase { return cases[i] }, func(i int, cs *BatchCase, o *BatchObs) {
		r.Count("runs", 1)
		r.Count("runs."+cs.Family, 1)
		if o.ErrNil {
			r.Count("outcome.post_called", 1)
		} else {
			r.Count("outcome.ctx_error", 1)
		}
		after := 0
		for _, e := range o.Events {
			if e.Kind == "exec-ret" && o.CancelSeq >= 0 && e.Seq > o.CancelSeq {
				after++
			}
		}
		r.Count("exec_returns_after_cancel", int64(after))
		unexec := 0
		for _, a := range o.Attempts {
			if a == 0 {
				unexec++
			}
		}
		r.Count("items.never_executed", int64(unexec))
		if cs.WaitHour {
			r.Count("runs.wait_hour", 1)
		}
		r.Nontrivial(fmt.Sprintf("%d %d %v %d %v %+v %s", cs.N, cs.C, cs.Stop, cs.Budget, cs.WaitHour, *cs.Cancel, completionOrder(o)))
		if cs.C > 1 && unexec > 0 && cs.N <= 5 && r.SampleWanted("cancel") {
			r.Sample("cancel", map[string]any{"case": cs, "attempts": o.Attempts, "slots": o.Slots, "err": o.ErrText, "post_calls": o.PostCalls, "released": completionOrder(o)})
		}
	}, "C11")
	// tiny non-zero retry waits (the wait is over at once: the cancellation must still be noticed), batches of 64 and
	// more items, and a real deadline that expires while items sit in an hour-long retry wait
	var cx []*BatchCase
	for rep := 0; rep < c.Pick(6, 60); rep++ {
		for _, n := range []int{1, 3} {
			for cc := 0; cc <= 3; cc++ {
				for _, stop := range []bool{false, true} {
					for item := 0; item < n; item++ {
						for att := 1; att <= 2; att++ {
							it := make([]ItemScript, n)
							for j := range it {
								it[j].K = 4
							}
							cx = append(cx, &BatchCase{Family: "in-exec-tiny-wait", N: n, C: cc, Stop: stop, SetMode: true, Budget: 3, Items: it, Shape: "results", Build: "builder", ExecStyle: []string{"result", "any"}[(rep+att)%2], Gated: true, Policy: []string{"holdfail", "random", "first"}[rep%3], PSeed: uint64(rep*1000 + len(cx)), WaitNs: 1 + (rep%2)*999, Cancel: &CancelSpec{Kind: []string{"cancel", "deadline", "cause"}[rep%3], Item: item, Attempt: att}})
						}
					}
				}
			}
		}
	}
	for _, n := range []int{64, 100, 257} {
		for _, cc := range []int{1, 3, 8} {
			for _, stop := range []bool{true, false} {
				it := make([]ItemScript, n)
				for j := range it {
					it[j].K = 1
				}
				cx = append(cx, &BatchCase{Family: "large-pre", N: n, C: cc, Stop: stop, SetMode: true, Budget: 1, Items: it, Shape: "results", Build: "builder", ExecStyle: "result", Gated: true, Policy: "first", Cancel: &CancelSpec{Kind: "pre-cancel"}})
				cx = append(cx, &BatchCase{Family: "large-in-exec", N: n, C: cc, Stop: stop, SetMode: true, Budget: 1, Items: it, Shape: "results", Build: "builder", ExecStyle: "any", Gated: true, Policy: "holdfail", Cancel: &CancelSpec{Kind: "cancel", Item: 2, Attempt: 1}})
			}
		}
	}
	for _, cc := range []int{0, 1, 2} { // the same node ran before, successfully, with at least as many items: nothing of that run survives into a cancelled one
		for _, n := range []int{4, 9} {
			for _, at := range []int{0, 2} {
				it := make([]ItemScript, n)
				for j := range it {
					it[j].K = 1
				}
				cx = append(cx, &BatchCase{Family: "in-exec-after-earlier-successful-run", N: n, C: cc, SetMode: true, Stop: at == 2, Budget: 1, Items: it, Shape: "results", Build: "builder", ExecStyle: "any", Gated: true, Policy: "holdfail", Cancel: &CancelSpec{Kind: "cancel", Item: at, Attempt: 1}, Prelude: &Prelude{N: n + 2, Items: make([]ItemScript, n+2)}})
			}
		}
	}
	for _, cc := range []int{0, 1, 3} { // a fallback that rescues everything is installed: cancellation is not an exec failure to be rescued
		for _, stop := range []bool{false, true} {
			for _, budget := range []int{1, 2} {
				n := 6
				it := make([]ItemScript, n)
				for j := range it {
					it[j].K = budget + 1
				}
				cx = append(cx, &BatchCase{Family: "in-exec-with-rescuing-fallback", N: n, C: cc, Stop: stop, SetMode: true, Budget: budget, FB: true, Items: it, Shape: "results", Build: "options", ExecStyle: "result", Gated: true, Policy: "holdfail", Cancel: &CancelSpec{Kind: "cancel", Item: 1, Attempt: 1}})
			}
		}
	}
	for _, sh := range []string{"any", "ints", "strings", "ptrs", "maps", "named"} { // prep given as a constructor option, items of other shapes
		for _, cc := range []int{0, 2} {
			for _, n := range []int{1, 5} {
				it := make([]ItemScript, n)
				for j := range it {
					it[j].K = 1
				}
				cx = append(cx, &BatchCase{Family: "pre-other-shapes", N: n, C: cc, SetMode: true, Stop: cc == 2, Budget: 1, Items: it, Shape: sh, Build: "compose", ExecStyle: []string{"result", "any"}[n%2], Gated: true, Policy: "first", Cancel: &CancelSpec{Kind: []string{"pre-cancel", "pre-deadline"}[n%2]}})
				cx = append(cx, &BatchCase{Family: "in-prep-other-shapes", N: n, C: cc, SetMode: true, Stop: cc == 0, Budget: 1, Items: it, Shape: sh, Build: "compose", ExecStyle: []string{"any", "result"}[n%2], Gated: true, Policy: "first", Cancel: &CancelSpec{Kind: "cancel", InPrep: true}})
			}
		}
	}
	for _, cc := range []int{0, 1, 3} { // cancel() while items sit in an hour-long wait, on a context that also carries a far deadline
		for _, n := range []int{1, 3} {
			it := make([]ItemScript, n)
			for j := range it {
				it[j].K = 1
			}
			it[0].K = 3
			cx = append(cx, &BatchCase{Family: "cancel-during-hour-wait-far-deadline", N: n, C: cc, Budget: 2, Items: it, Shape: "results", Build: "builder", ExecStyle: "result", WaitHour: true, Cancel: &CancelSpec{Kind: "cancel-far-deadline", Item: 0, Attempt: 1, DuringWait: true}})
		}
	}
	for _, cc := range []int{0, 1, 3} {
		for _, stop := range []bool{false, true} {
			for _, n := range []int{1, 4} {
				it := make([]ItemScript, n)
				for j := range it {
					it[j].K = 4
				}
				cx = append(cx, &BatchCase{Family: "real-deadline-during-hour-wait", N: n, C: cc, Stop: stop, SetMode: true, Budget: 3, Items: it, Shape: "results", Build: "builder", ExecStyle: "result", WaitHour: true, Cancel: &CancelSpec{Kind: "real-deadline", DeadlineMs: 60}})
			}
		}
	}
	// the context's deadline passes while every worker sits inside an exec call that goes on for a long while (the
	// controller dwells at the saturated points) and a few items are still queued: the run ends only when what was
	// started has settled, and every item that never ran carries an error
	for _, cc := range []int{1, 2, 3, 4} {
		for _, stop := range []bool{false, true} {
			for _, n := range []int{2*cc + 1, 3 * cc} {
				it := make([]ItemScript, n)
				for j := range it {
					it[j].K = 1
				}
				cx = append(cx, &BatchCase{Family: "deadline-while-all-workers-are-busy", N: n, C: cc, Stop: stop, SetMode: true, Budget: 1, Items: it, Shape: "results", Build: "builder", ExecStyle: []string{"result", "any"}[n%2], Gated: true, Policy: "first", DwellMs: 300, Cancel: &CancelSpec{Kind: "real-deadline", DeadlineMs: 60}})
			}
		}
	}
	gatedLoop(c, len(cx), func(i int) *BatchCase { return cx[i] }, func(i int, cs *BatchCase, o *BatchObs) {
		r.Count("runs."+cs.Family, 1)
		r.Nontrivial(fmt.Sprintf("%s %d %d %v %+v %s", cs.Family, cs.N, cs.C, cs.Stop, *cs.Cancel, completionOrder(o)))
	}, "C11")
	// free-running: cancel inside exec and from a helper goroutine during the 1-hour wait
	nr := c.Pick(120, 2000)
	gatedLoop(c, nr, func(i int) *BatchCase {
		rg := c.Rng("c11free", i)
		n := 1 + rg.IntN(16)
		budget := 1 + rg.IntN(3)
		it := make([]ItemScript, n)
		for j := range it {
			it[j].K = 1 + rg.IntN(budget+1)
		}
		cs := &BatchCase{Family: "free", N: n, C: rg.IntN(5), Stop: rg.IntN(2) == 0, SetMode: true, Budget: budget, Items: it, Shape: "results", Build: "builder", ExecStyle: "result", SleepUs: 100, PSeed: rg.Uint64(), Cancel: &CancelSpec{Kind: []string{"cancel", "deadline"}[i%2], Item: rg.IntN(n), Attempt: 1}}
		if budget > 1 && i%4 == 0 {
			cs.WaitHour = true
			for j := range cs.Items {
				cs.Items[j].K = 1
			}
			cs.Items[cs.Cancel.Item].K = budget + 1
			cs.Cancel.DuringWait = true
			cs.Family = "free-during-wait"
		}
		return cs
	}, func(i int, cs *BatchCase, o *BatchObs) {
		r.Count("free.runs", 1)
		if cs.WaitHour {
			r.Count("free.cancelled_during_1h_wait", 1)
			r.HighWater("free.during_wait_return_ms", o.WallNs/1e6)
		}
	}, "C11")
}

// dupPayloadRun runs a batch whose items repeat payload values; every exec call returns a fresh outcome.
func dupPayloadRun(kind string, cc int) (n, calls, distinct, lenR int) {
	vals := []int{0, 1, 0, 2, 1, 0, 3, 3}
	n = len(vals)
	var callCtr atomic.Int64
	var got []flyt.Result
	var inflight atomic.Int32
	exec := func(ctx context.Context, v any) (any, error) {
		// stay inside exec until another item's exec overlaps (or 3 ms have passed): equal items are then in flight together
		inflight.Add(1)
		for t0 := time.Now(); inflight.Load() < 2 && time.Since(t0) < 3*time.Millisecond; {
			runtime.Gosched()
		}
		defer inflight.Add(-1)
		return int(callCtr.Add(1)), nil
	}
	post := func(ctx context.Context, s *flyt.SharedStore, items, results []flyt.Result) (flyt.Action, error) {
		got = append([]flyt.Result(nil), results...)
		return "done", nil
	}
	var node flyt.Node
	switch kind {
	case "results":
		node = flyt.NewBatchNode().WithBatchConcurrency(cc).WithExecFuncAny(exec).WithPostFunc(post).
			WithPrepFunc(func(ctx context.Context, s *flyt.SharedStore) ([]flyt.Result, error) {
				r := make([]flyt.Result, n)
				for i, v := range vals {
					r[i] = flyt.NewResult(v)
				}
				return r, nil
			})
	default:
		prep := func(ctx context.Context, s *flyt.SharedStore) (any, error) {
			switch kind {
			case "ints":
				return append([]int(nil), vals...), nil
			case "strings":
				o := make([]string, n)
				for i, v := range vals {
					o[i] = fmt.Sprint("p", v)
				}
				return o, nil
			}
			o := make([]any, n)
			for i, v := range vals {
				o[i] = v
			}
			return o, nil
		}
		bn := flyt.NewBatchNode(flyt.WithPrepFuncAny(prep), flyt.WithExecFuncAny(exec), flyt.WithBatchConcurrency(cc)).WithPostFunc(post)
		node = bn
	}
	func() {
		defer func() { recover() }()
		_, _ = flyt.Run(context.Background(), node, flyt.NewSharedStore())
	}()
	seen := map[int]bool{}
	for _, r := range got {
		if v, ok := r.Value().(int); ok && !r.IsError() {
			seen[v] = true
		}
	}
	return n, int(callCtr.Load()), len(seen), len(got)
}

func maxInt(a, b int) int {
	if a > b {
		return a
	}
	return b
}
