package engines

// Dedicated scenarios added in round 18 (registered in init below; see special.go for the wiring).

import (
	"context"
	"errors"
	"fmt"
	"reflect"
	"sync"
	"sync/atomic"
	"time"

	"github.com/mark3labs/flyt"
)

func init() {
	specials["fallback-rescues-with-nil"] = fallbackRescuesWithNil
	specials["typed-struct-slice-items"] = typedStructSliceItems
	specials["half-retry-interface"] = halfRetryInterface
	specials["negative-wait-after-positive"] = negativeWaitAfterPositive
	specials["embedded-flow-rescued-by-fallback"] = embeddedFlowRescuedByFallback
}

type r18ItemErr struct {
	item, attempt int
	fb            bool
}

func (e *r18ItemErr) Error() string {
	return fmt.Sprintf("r18 item %d attempt %d (fallback: %v)", e.item, e.attempt, e.fb)
}

// fallbackRescuesWithNil (C07, C02): the fallback's outcome replaces the exec outcome whatever it is — also when the
// fallback rescues the item with a nil value and a nil error (the pattern of the library's own documentation). Items
// i%4 == 0 succeed at once, == 1 fail every attempt and are rescued with (nil, nil), == 2 are rescued with a value,
// == 3 have a failing fallback. Reference: a single function node with the same exec / fallback pair, which the same
// library runs; whatever it hands to post (a nil exec value after a (nil, nil) rescue) the batch item must carry too.
func fallbackRescuesWithNil() (fs []finding) {
	add := func(key, f string, a ...any) { fs = append(fs, finding{key, fmt.Sprintf(f, a...)}) }
	// reference: single node
	for budget := 1; budget <= 3; budget++ {
		attempts, fbCalls, postCalls := 0, 0, 0
		var postSaw any = "unset"
		nd := flyt.NewNode(flyt.WithMaxRetries(budget),
			flyt.WithExecFuncAny(func(context.Context, any) (any, error) {
				attempts++
				return nil, &r18ItemErr{0, attempts, false}
			}),
			flyt.WithExecFallbackFunc(func(p any, err error) (any, error) { fbCalls++; return nil, nil }),
			flyt.WithPostFuncAny(func(_ context.Context, _ *flyt.SharedStore, p, e any) (flyt.Action, error) {
				postCalls++
				postSaw = e
				return "done", nil
			}))
		act, err := flyt.Run(context.Background(), nd, flyt.NewSharedStore())
		if err != nil || act != "done" || attempts != budget || fbCalls != 1 || postCalls != 1 || postSaw != nil {
			add("single-node-nil-rescue", "single function node, budget %d, every attempt fails, fallback returns (nil, nil): run returned (%q, %v) after %d attempts, %d fallback calls, %d post calls (post saw exec value %v) — want (\"done\", nil), %d attempts, 1 fallback call, post once with a nil value", budget, act, err, attempts, fbCalls, postCalls, postSaw, budget)
		}
	}
	for _, build := range []string{"options", "compose"} {
		for _, c := range []int{0, 1, 3} {
			for budget := 1; budget <= 3; budget++ {
				for _, style := range []string{"any", "result"} {
					const n = 9
					var mu sync.Mutex
					attempts := make([]int, n)
					fbCalls := make([]int, n)
					fbErrOK := make([]bool, n)
					fbErrs := make([]error, n)
					itemOf := func(v any) int {
						if r, ok := v.(flyt.Result); ok {
							v = r.Value()
						}
						i, ok := v.(int)
						if !ok || i < 0 || i >= n {
							return -1
						}
						return i
					}
					exec := func(_ context.Context, v any) (any, error) {
						i := itemOf(v)
						if i < 0 {
							return nil, errors.New("exec received a value that is not an item")
						}
						mu.Lock()
						attempts[i]++
						a := attempts[i]
						mu.Unlock()
						if i%4 == 0 {
							return 1000 + i, nil
						}
						return nil, &r18ItemErr{i, a, false}
					}
					fallback := func(p any, err error) (any, error) {
						i := itemOf(p)
						if i < 0 {
							return nil, errors.New("fallback received a value that is not an item")
						}
						var ie *r18ItemErr
						mu.Lock()
						fbCalls[i]++
						fbErrOK[i] = errors.As(err, &ie) && ie.item == i && ie.attempt == budget && !ie.fb
						mu.Unlock()
						switch i % 4 {
						case 1:
							return nil, nil
						case 2:
							return 2000 + i, nil
						}
						e := &r18ItemErr{i, 0, true}
						mu.Lock()
						fbErrs[i] = e
						mu.Unlock()
						return nil, e
					}
					var gotResults []flyt.Result
					postCalls := 0
					post := func(_ context.Context, _ *flyt.SharedStore, items, results []flyt.Result) (flyt.Action, error) {
						postCalls++
						gotResults = append([]flyt.Result(nil), results...)
						return "done", nil
					}
					prep := func(context.Context, *flyt.SharedStore) ([]flyt.Result, error) {
						items := make([]flyt.Result, n)
						for i := range items {
							items[i] = flyt.NewResult(i)
						}
						return items, nil
					}
					execOpt := flyt.WithExecFuncAny(exec)
					if style == "result" {
						execOpt = flyt.WithExecFunc(func(ctx context.Context, r flyt.Result) (flyt.Result, error) {
							v, err := exec(ctx, r.Value())
							if err != nil {
								return flyt.Result{}, err
							}
							return flyt.NewResult(v), nil
						})
					}
					var node flyt.Node
					if build == "options" {
						node = flyt.NewBatchNode(flyt.WithMaxRetries(budget), flyt.WithBatchConcurrency(c), execOpt, flyt.WithExecFallbackFunc(fallback)).WithPrepFunc(prep).WithPostFunc(post)
					} else {
						bn := flyt.NewBatchNode().WithPrepFunc(prep).WithPostFunc(post)
						inner := flyt.NewNode(flyt.WithMaxRetries(budget), flyt.WithBatchConcurrency(c), execOpt, flyt.WithExecFallbackFunc(fallback),
							flyt.WithPrepFuncAny(func(ctx context.Context, s *flyt.SharedStore) (any, error) { return prep(ctx, s) })).CustomNode
						bn.CustomNode = inner
						node = bn
					}
					act, err := flyt.Run(context.Background(), node, flyt.NewSharedStore())
					tag := fmt.Sprintf("%s c=%d budget=%d exec-style=%s", build, c, budget, style)
					if err != nil || act != "done" || postCalls != 1 || len(gotResults) != n {
						add("nil-rescue-batch-run:"+build, "%s: run returned (%q, %v), post called %d times with %d results (want \"done\", nil, once, %d)", tag, act, err, postCalls, len(gotResults), n)
						continue
					}
					for i := 0; i < n; i++ {
						wantAtt, wantFB := budget, 1
						if i%4 == 0 {
							wantAtt, wantFB = 1, 0
						}
						if attempts[i] != wantAtt || fbCalls[i] != wantFB {
							add("nil-rescue-batch-counts:"+build, "%s: item %d: %d attempts, %d fallback calls (want %d, %d)", tag, i, attempts[i], fbCalls[i], wantAtt, wantFB)
							continue
						}
						if wantFB == 1 && !fbErrOK[i] {
							add("nil-rescue-batch-fallback-arg:"+build, "%s: item %d: the fallback did not receive the error of the item's last attempt", tag, i)
						}
						s := gotResults[i]
						switch i % 4 {
						case 0:
							if s.IsError() || s.Value() != 1000+i {
								add("nil-rescue-batch-slot:"+build, "%s: item %d succeeded at once; its slot is value=%v error=%v", tag, i, s.Value(), s.Error())
							}
						case 1:
							if s.IsError() || s.Value() != nil {
								add("slot-fallback-nil-rescue:"+build, "%s: item %d failed %d attempt(s) and was rescued by its fallback with (nil, nil); its slot should be that outcome (a nil-valued success, as for a single node run), got value=%v error=%v", tag, i, budget, s.Value(), s.Error())
							}
						case 2:
							if s.IsError() || s.Value() != 2000+i {
								add("nil-rescue-batch-slot:"+build, "%s: item %d was rescued by its fallback with a value; its slot is value=%v error=%v", tag, i, s.Value(), s.Error())
							}
						case 3:
							if !s.IsError() || !errors.Is(s.Error(), fbErrs[i]) {
								add("nil-rescue-batch-slot:"+build, "%s: item %d: the fallback failed; its slot should carry the fallback's error, got value=%v error=%v", tag, i, s.Value(), s.Error())
							}
						}
					}
				}
			}
		}
	}
	return fs
}

type r18Point struct {
	X, Y int
	Tag  string
}

// typedStructSliceItems (C17, C06): a batch whose prep function (option style, Any or Result form) returns a typed
// slice: every exec call receives element i itself — same dynamic type, same value, never a pointer into prep's array
// or any other re-packaging — and post's item list holds the same values in the same order.
func typedStructSliceItems() (fs []finding) {
	add := func(key, f string, a ...any) { fs = append(fs, finding{key, fmt.Sprintf(f, a...)}) }
	lists := map[string]func() (any, []any){
		"[]struct": func() (any, []any) {
			l := []r18Point{{1, 2, "a"}, {3, 4, "b"}, {5, 6, "c"}, {7, 8, "d"}, {}}
			var e []any
			for _, v := range l {
				e = append(e, v)
			}
			return l, e
		},
		"[]*struct": func() (any, []any) {
			l := []*r18Point{{1, 2, "a"}, {3, 4, "b"}, {5, 6, "c"}}
			var e []any
			for _, v := range l {
				e = append(e, v)
			}
			return l, e
		},
		"[]struct{}": func() (any, []any) {
			l := []struct{}{{}, {}, {}}
			return l, []any{struct{}{}, struct{}{}, struct{}{}}
		},
		"[][2]int": func() (any, []any) {
			l := [][2]int{{1, 2}, {3, 4}, {5, 6}, {7, 8}}
			var e []any
			for _, v := range l {
				e = append(e, v)
			}
			return l, e
		},
		"[]string": func() (any, []any) {
			return []string{"x", "", "z"}, []any{"x", "", "z"}
		},
		"[]map": func() (any, []any) {
			l := []map[string]int{{"a": 1}, nil, {"c": 3}}
			var e []any
			for _, v := range l {
				e = append(e, v)
			}
			return l, e
		},
	}
	r18e := errors.New("an error result as payload")
	lists["[]any-holding-Results"] = func() (any, []any) {
		l := []any{flyt.NewResult("a"), flyt.NewErrorResult(r18e), "plain", flyt.NewResult(nil)}
		return l, append([]any(nil), l...)
	}
	names := []string{"[]struct", "[]*struct", "[]struct{}", "[][2]int", "[]string", "[]map", "[]any-holding-Results"}
	for _, name := range names {
		for _, c := range []int{0, 2} {
			for _, style := range []string{"any", "result"} {
				list, want := lists[name]()
				n := len(want)
				var mu sync.Mutex
				var got []any // what exec received, by call
				exec := func(_ context.Context, v any) (any, error) {
					mu.Lock()
					got = append(got, v)
					mu.Unlock()
					return v, nil
				}
				var postItems, postResults []any
				postCalls := 0
				post := func(_ context.Context, _ *flyt.SharedStore, items, results []flyt.Result) (flyt.Action, error) {
					postCalls++
					for _, it := range items {
						postItems = append(postItems, it.Value())
					}
					for _, r := range results {
						postResults = append(postResults, r.Value())
					}
					return "done", nil
				}
				opts := []any{flyt.WithBatchConcurrency(c), flyt.WithPrepFuncAny(func(context.Context, *flyt.SharedStore) (any, error) { return list, nil })}
				if style == "any" {
					opts = append(opts, flyt.WithExecFuncAny(exec))
				} else {
					opts = append(opts, flyt.WithExecFunc(func(ctx context.Context, r flyt.Result) (flyt.Result, error) {
						v, _ := exec(ctx, r.Value())
						return flyt.NewResult(v), nil
					}))
				}
				node := flyt.NewBatchNode(opts...).WithPostFunc(post)
				act, err := flyt.Run(context.Background(), node, flyt.NewSharedStore())
				tag := fmt.Sprintf("prep returns %s (%d elements), c=%d, exec style %s", name, n, c, style)
				if err != nil || act != "done" || postCalls != 1 {
					add("typed-slice-run", "%s: run returned (%q, %v), post called %d times", tag, act, err, postCalls)
					continue
				}
				same := func(a, b any) bool {
					return reflect.TypeOf(a) == reflect.TypeOf(b) && reflect.DeepEqual(a, b) && (reflect.TypeOf(a) == nil || reflect.TypeOf(a).Kind() != reflect.Ptr || a == b)
				}
				if len(got) != n {
					add("typed-slice-exec-count", "%s: exec was called %d times", tag, len(got))
					continue
				}
				// every element received exactly once (calls of a concurrent batch come in any order)
				used := make([]bool, n)
				for _, g := range got {
					found := false
					for i, w := range want {
						if !used[i] && same(g, w) {
							used[i], found = true, true
							break
						}
					}
					if !found {
						add("typed-slice-exec-arg:"+name, "%s: exec received %T %+v, which is not (one of the remaining) elements of the list prep returned (element type %T)", tag, g, g, want[0])
						break
					}
				}
				if len(postItems) != n || len(postResults) != n {
					add("typed-slice-post-len", "%s: post received %d items and %d results", tag, len(postItems), len(postResults))
					continue
				}
				for i := range want {
					if !same(postItems[i], want[i]) {
						add("typed-slice-post-item:"+name, "%s: post's item %d is %T %+v, want element %d of prep's list: %T %+v", tag, i, postItems[i], postItems[i], i, want[i], want[i])
						break
					}
					if _, isRes := want[i].(flyt.Result); isRes {
						continue // an exec outcome that already is a Result is stored as it is (not wrapped again): its payload is not the element
					}
					if !same(postResults[i], want[i]) { // exec echoes its argument
						add("typed-slice-post-result:"+name, "%s: exec echoes its argument; post's result %d is %T %+v, want %T %+v", tag, i, postResults[i], postResults[i], want[i], want[i])
						break
					}
				}
			}
		}
	}
	return fs
}

// r18HalfNode is a plain Node implementation (no BaseNode) that has ONE of the two methods of flyt.RetryableNode:
// it does not implement that interface, which is how the library's documentation defines "exposes retry settings".
type r18HalfNode struct {
	prep, exec, post *int
	failFirst        int
}

func (n *r18HalfNode) Prep(context.Context, *flyt.SharedStore) (any, error) { *n.prep++; return "p", nil }
func (n *r18HalfNode) Exec(context.Context, any) (any, error) {
	*n.exec++
	if *n.exec <= n.failFirst {
		return nil, &r18ItemErr{-1, *n.exec, false}
	}
	return "e", nil
}
func (n *r18HalfNode) Post(context.Context, *flyt.SharedStore, any, any) (flyt.Action, error) {
	*n.post++
	return "done", nil
}

type r18BudgetOnly struct{ r18HalfNode }

func (n *r18BudgetOnly) GetMaxRetries() int { return 3 }

type r18WaitOnly struct{ r18HalfNode }

func (n *r18WaitOnly) GetWait() time.Duration { return time.Hour }

// halfRetryInterface (C02, C01): a node that does not implement RetryableNode (here: it has only GetMaxRetries, or only
// GetWait) does not expose retry settings: exactly one attempt; when that attempt fails the run fails, without a
// second attempt, without post and without sleeping.
func halfRetryInterface() (fs []finding) {
	for _, kind := range []string{"only-GetMaxRetries", "only-GetWait"} {
		for failFirst := 0; failFirst <= 1; failFirst++ {
			for _, inFlow := range []bool{false, true} {
				var p, e, po int
				h := r18HalfNode{&p, &e, &po, failFirst}
				var node flyt.Node = &r18BudgetOnly{h}
				if kind == "only-GetWait" {
					node = &r18WaitOnly{h}
				}
				if _, ok := node.(flyt.RetryableNode); ok {
					continue // (cannot happen: guards the premise)
				}
				run := node
				if inFlow {
					run = flyt.NewFlow(node)
				}
				type res struct {
					act flyt.Action
					err error
				}
				ch := make(chan res, 1)
				go func() {
					a, err := flyt.Run(context.Background(), run, flyt.NewSharedStore())
					ch <- res{a, err}
				}()
				var r res
				select {
				case r = <-ch:
				case <-time.After(20 * time.Second):
					fs = append(fs, finding{"half-retry-interface-sleeps:" + kind, fmt.Sprintf("plain node with %s (not a RetryableNode), first %d attempt(s) fail, in a flow: %v — the run had not returned after 20 s (a retry wait taken from the node?)", kind, failFirst, inFlow)})
					continue
				}
				wantErr := failFirst > 0
				if e != 1 || p != 1 || (r.err != nil) != wantErr || (po != 0) == wantErr {
					fs = append(fs, finding{"half-retry-interface:" + kind, fmt.Sprintf("plain node with %s (it does not implement RetryableNode, so it exposes no retry settings), first %d attempt(s) fail, in a flow: %v — prep x%d, exec x%d, post x%d, run returned (%q, %v); want exactly one attempt, and %s", kind, failFirst, inFlow, p, e, po, r.act, r.err, map[bool]string{true: "a failed run without post", false: "a successful run with post once"}[wantErr])})
				}
			}
		}
	}
	return fs
}

// r18RescuingFlow embeds a *flyt.Flow and rescues a failed run of it through its own fallback.
type r18RescuingFlow struct {
	*flyt.Flow
	rescue  any
	fbCalls *int
}

func (f *r18RescuingFlow) ExecFallback(p any, err error) (any, error) { *f.fbCalls++; return f.rescue, nil }

// embeddedFlowRescuedByFallback (C04): a node type that embeds a flow and whose fallback rescues the failed inner run
// with a nil error (a nil value, a string, an Action): every phase on the path succeeded after retries and fallback,
// so the run returns a nil error and the outer flow goes on — whatever action the rescued step reports.
func embeddedFlowRescuedByFallback() (fs []finding) {
	for ri, rescue := range []any{nil, "rescued", flyt.Action("rescued"), 7} {
		for _, depth := range []int{0, 1, 2} {
			innerCalls, fbCalls, after := 0, 0, 0
			sentinel := errors.New("inner node fails")
			x := flyt.NewNode().WithExecFuncAny(func(context.Context, any) (any, error) { innerCalls++; return nil, sentinel })
			emb := &r18RescuingFlow{Flow: flyt.NewFlow(x), rescue: rescue, fbCalls: &fbCalls}
			probe := flyt.NewNode().WithExecFuncAny(func(context.Context, any) (any, error) { after++; return nil, nil })
			var run flyt.Node = emb
			if depth > 0 {
				outer := flyt.NewFlow(emb)
				for _, a := range []flyt.Action{flyt.DefaultAction, "rescued"} {
					outer.Connect(emb, a, probe)
				}
				run = outer
				if depth > 1 {
					run = flyt.NewFlow(outer)
				}
			}
			act, err := flyt.Run(context.Background(), run, flyt.NewSharedStore())
			if innerCalls != 1 || fbCalls != 1 {
				continue // (another property's subject: the attempts / the fallback hand-off)
			}
			if err != nil {
				fs = append(fs, finding{"rescued-embedded-flow-fails", fmt.Sprintf("a node type embedding *flyt.Flow whose fallback rescues the failed inner run with (%T %v, nil), %d flow level(s) around it (rescue value #%d): every phase on the path succeeded after the fallback, yet the run returned error %q", rescue, rescue, depth, ri, err)})
			} else if act == "" {
				fs = append(fs, finding{"rescued-embedded-flow-empty-action", fmt.Sprintf("rescued embedded flow (rescue %T %v, depth %d): run succeeded with the empty action", rescue, rescue, depth)})
			}
		}
	}
	return fs
}

// negativeWaitAfterPositive (C19): the last setting of the wait wins also when it is a negative duration (which means
// "no wait", like zero): after WithWait(1h) followed by WithWait(-1ms), in every mixture of option and builder form,
// the earlier hour is no longer in force — GetWait() is not positive and a retry starts without the hour's sleep.
// (Whether the library stores the negative value or clamps it to zero is not prescribed.)
func negativeWaitAfterPositive() (fs []finding) {
	type built struct {
		name string
		node flyt.Node
		get  func() time.Duration
	}
	mk := func(exec func(context.Context, any) (any, error)) []built {
		var out []built
		// plain node builder
		n1 := flyt.NewNode(flyt.WithMaxRetries(2), flyt.WithWait(time.Hour), flyt.WithWait(-time.Millisecond), flyt.WithExecFuncAny(exec))
		out = append(out, built{"NewNode(option 1h, option -1ms)", n1, n1.GetWait})
		n2 := flyt.NewNode(flyt.WithMaxRetries(2), flyt.WithWait(time.Hour), flyt.WithExecFuncAny(exec)).WithWait(-time.Millisecond)
		out = append(out, built{"NewNode(option 1h).WithWait(-1ms)", n2, n2.GetWait})
		n3 := flyt.NewNode(flyt.WithExecFuncAny(exec)).WithMaxRetries(2).WithWait(time.Hour).WithWait(-time.Millisecond)
		out = append(out, built{"NewNode().WithWait(1h).WithWait(-1ms)", n3, n3.GetWait})
		n4 := flyt.NewNode(flyt.WithExecFuncAny(exec)).WithMaxRetries(2).WithWait(time.Hour)
		flyt.WithWait(-time.Millisecond)(n4.BaseNode)
		out = append(out, built{"NewNode().WithWait(1h) then option -1ms applied to its BaseNode", n4, n4.GetWait})
		// batch node builder (one item)
		b1 := flyt.NewBatchNode(flyt.WithMaxRetries(2), flyt.WithWait(time.Hour), flyt.WithExecFuncAny(exec)).WithWait(-time.Millisecond).
			WithPrepFunc(func(context.Context, *flyt.SharedStore) ([]flyt.Result, error) { return []flyt.Result{flyt.NewResult(1)}, nil })
		out = append(out, built{"NewBatchNode(option 1h).WithWait(-1ms)", b1, b1.GetWait})
		b2 := flyt.NewBatchNode(flyt.WithExecFuncAny(exec)).WithMaxRetries(2).WithWait(time.Hour).WithWait(-time.Millisecond).
			WithPrepFunc(func(context.Context, *flyt.SharedStore) ([]flyt.Result, error) { return []flyt.Result{flyt.NewResult(1)}, nil })
		out = append(out, built{"NewBatchNode().WithWait(1h).WithWait(-1ms)", b2, b2.GetWait})
		return out
	}
	probe := mk(func(context.Context, any) (any, error) { return nil, nil })
	for i := range probe {
		var calls int32
		exec := func(context.Context, any) (any, error) {
			if atomic.AddInt32(&calls, 1) == 1 {
				return nil, errors.New("first attempt fails")
			}
			return "ok", nil
		}
		b := mk(exec)[i]
		if w := b.get(); w > 0 {
			fs = append(fs, finding{"negative-wait-does-not-replace-earlier-wait:getter", fmt.Sprintf("%s: GetWait() = %v — the earlier setting is still in force although a later one replaced it", b.name, w)})
			continue // (running it would sleep)
		}
		done := make(chan error, 1)
		go func() { _, err := flyt.Run(context.Background(), b.node, flyt.NewSharedStore()); done <- err }()
		select {
		case err := <-done:
			if err != nil || atomic.LoadInt32(&calls) != 2 {
				fs = append(fs, finding{"negative-wait-run", fmt.Sprintf("%s, budget 2, first attempt fails: run returned %v after %d attempts (want nil, 2)", b.name, err, atomic.LoadInt32(&calls))})
			}
		case <-time.After(20 * time.Second):
			fs = append(fs, finding{"negative-wait-does-not-replace-earlier-wait:sleeps", fmt.Sprintf("%s, budget 2, first attempt fails: GetWait() reports no wait, yet the retry had not started after 20 s", b.name)})
		}
	}
	return fs
}
