package engines

import (
	"encoding/json"
	"fmt"
	"math"
	"os"

	"verif/harness/internal/scen"
	"verif/harness/internal/zoo"
)

// standaloneProduct enumerates kind × N × first-success index × fallback × prep × post.
func standaloneProduct(maxN int, visit func(idx int, sc *scen.Scenario, sig string)) int {
	idx := 0
	for kind := 0; kind < scen.NumScriptedKinds; kind++ {
		for n := 1; n <= maxN; n++ {
			for k := 1; k <= n+1; k++ {
				for fb := 0; fb < 3; fb++ { // 0 absent, 1 ok, 2 err
					canFB := scen.KindCanFB(kind)
					if !canFB && fb != 0 {
						continue
					}
					if canFB && kind < scen.KFnOptRes && fb == 0 {
						continue // struct kinds with an ExecFallback method always have it
					}
					for prep := 0; prep < 2; prep++ {
						for post := 0; post < 4; post++ { // 0 action, 1 empty, 2 err, 3 an action that consists of white space only (still post's action)
							ns := scen.NodeSpec{Kind: kind, N: n, HasFB: fb != 0, ErrKind: scen.AllErrKinds[idx%len(scen.AllErrKinds)]} // incl. errors that wrap a context error, uncomparable error values, joined errors
							v := scen.Visit{PrepErr: prep == 1, FirstOK: k, FBErr: fb == 2, Post: "go", PostErr: post == 2}
							if post == 1 {
								v.Post = ""
							}
							if post == 3 {
								v.Post = []string{" ", "\t", "\n", "\u00a0", "  "}[idx%5]
							}
							if idx%3 == 1 {
								v.Payload = 1 + (idx*7)%160
							}
							if fb == 1 && idx%4 == 0 {
								v.FBNil = true // the rescuing fallback returns (nil, nil)
							}
							if idx%5 == 2 {
								ns.Conc = 1 + idx%3 // a batch concurrency configured on a plain node must change nothing
							}
							ns.Visits = []scen.Visit{v}
							sc := &scen.Scenario{Nodes: []scen.NodeSpec{ns}, Root: 0, Runs: 1}
							if idx%11 == 7 {
								sc.NilStore = true // "the very store given to the run" — also when that is a nil *SharedStore
							}
							sig := fmt.Sprintf("k%d n%d k%d fb%d p%d q%d", kind, n, k, fb, prep, post)
							visit(idx, sc, sig)
							idx++
						}
					}
				}
			}
		}
	}
	return idx
}

func init() {
	register(&Engine{Prop: "C01", Doc: "node lifecycle", Run: runC01, Replay: func(c *Cfg, s json.RawMessage) {
		var fc FnCase
		if json.Unmarshal(s, &fc) == nil && fc.Family == "fallback-hands-back-an-error-result" {
			for _, f := range runFnCase(&fc) {
				fmt.Printf(" * finding %s: %s\n", f.key, f.detail)
				c.Rep.Violate("C01", "C01:fallback-error-result:"+f.key, f.detail, fc)
			}
			return
		}
		replayScenario(c, "C01", s)
	}})
	register(&Engine{Prop: "C02", Doc: "retry budget and fallback", Run: runC02, Replay: replayC02})
}

func runC01(c *Cfg) {
	r := c.Rep
	runSpecial(c, "C01", "same-name-node-types")
	runSpecial(c, "C01", "zero-value-node-lifecycle")
	runSpecial(c, "C01", "half-retry-interface")
	// 1. exhaustive standalone product
	var cases []*scen.Scenario
	var sigs []string
	standaloneProduct(8, func(idx int, sc *scen.Scenario, sig string) { cases = append(cases, sc); sigs = append(sigs, sig) })
	parallel(c, len(cases), func(i int) {
		outs, _ := judgeFor(c, "C01", "standalone", cases[i])
		r.Nontrivial("sa:" + sigs[i])
		r.Count("standalone.cases", 1)
		if len(outs[0].Events) >= 4 && r.SampleWanted("standalone") {
			r.Sample("standalone", map[string]any{"scenario": cases[i], "events": outs[0].Events, "action": outs[0].Action, "err": outs[0].ErrText})
		}
		// the lifecycle must also hold when the context is cancelled inside any callback: in particular post runs
		// iff the exec phase produced a result, whatever happened to the context meanwhile
		if i%2 == 0 {
			for p := range outs[0].Events {
				v := cases[i].Clone()
				v.Inject = scen.Inject{Kind: []string{"cancel", "deadline"}[p%2], At: p}
				vo, _ := judgeFor(c, "C01", "standalone-cancel", v)
				r.Count("standalone.cancel_injections", 1)
				if vo[0].CancelSeq >= 0 {
					r.Nontrivial(fmt.Sprintf("sa-cancel:%s@%d", sigs[i], p))
				}
			}
		}
	})
	// with a retry wait configured (all attempts failing, or a late success): the lifecycle is what it is without a wait —
	// in particular no post after an exec phase that failed
	var ww []*scen.Scenario
	for kind := 0; kind < scen.NumScriptedKinds; kind++ {
		if !scen.KindHasRetry(kind) {
			continue
		}
		for n := 2; n <= 3; n++ {
			for _, k := range []int{n, n + 1} {
				for _, fb := range []int{0, 1, 2} {
					if fb > 0 && !scen.KindCanFB(kind) || (fb == 0 && scen.KindCanFB(kind) && kind < scen.KFnOptRes) {
						continue
					}
					ns := scen.NodeSpec{Kind: kind, N: n, HasFB: fb > 0, WaitMs: 1, ErrKind: scen.AllErrKinds[(kind+n+k)%len(scen.AllErrKinds)], Visits: []scen.Visit{{FirstOK: k, FBErr: fb == 2, Post: "go"}}}
					ww = append(ww, &scen.Scenario{Nodes: []scen.NodeSpec{ns}, Root: 0, Runs: 1})
					ww = append(ww, &scen.Scenario{Nodes: []scen.NodeSpec{ns, {Kind: scen.KPlain, N: 1, Visits: []scen.Visit{{FirstOK: 1, Post: "fin"}}}, {Kind: scen.KFlow, N: 1, Flow: &scen.FlowSpec{Start: 0, Conns: []scen.Conn{{From: 0, Action: "go", To: 1}}}}}, Root: 2, Runs: 1})
				}
			}
		}
	}
	for kind := 0; kind < scen.NumScriptedKinds; kind++ { // waits of a few nanoseconds
		if !scen.KindHasRetry(kind) {
			continue
		}
		for _, wn := range []int{1, 3, 7, 9, 10, 11} {
			ns := scen.NodeSpec{Kind: kind, N: 3, HasFB: scen.KindCanFB(kind), WaitNs: wn, Visits: []scen.Visit{{FirstOK: 2 + wn%3, FBErr: wn%2 == 0, Post: "go"}}}
			ww = append(ww, &scen.Scenario{Nodes: []scen.NodeSpec{ns}, Root: 0, Runs: 1})
		}
	}
	// a Result-style prep function that succeeds with an error RESULT (nil error): prep has not failed — exec and post follow
	for _, kind := range []int{scen.KFnOptRes, scen.KFnBldRes} {
		for n := 1; n <= 2; n++ {
			for k := 1; k <= n+1; k++ {
				ns := scen.NodeSpec{Kind: kind, N: n, HasFB: k%2 == 0, Visits: []scen.Visit{{FirstOK: k, Post: "go", PrepErrRes: true}}}
				ww = append(ww, &scen.Scenario{Nodes: []scen.NodeSpec{ns}, Root: 0, Runs: 1})
				ww = append(ww, &scen.Scenario{Nodes: []scen.NodeSpec{ns, {Kind: scen.KFlow, N: 1, Flow: &scen.FlowSpec{Start: 0}}}, Root: 1, Runs: 1})
			}
		}
	}
	parallelN(c, len(ww), 32, func(i int) {
		judgeFor(c, "C01", "with-a-retry-wait", ww[i])
		r.Count("with_retry_wait.cases", 1)
		r.Nontrivial("ww:" + scenSig(ww[i]))
	})
	// a node object whose first run never started (its context was done already) runs normally afterwards
	var pc []*scen.Scenario
	for kind := 0; kind < scen.NumScriptedKinds; kind++ {
		for _, pk := range []string{"pre-cancel", "pre-deadline", "pre-expired"} {
			for depth := 0; depth <= 1; depth++ {
				ns := scen.NodeSpec{Kind: kind, N: 2, HasFB: scen.KindCanFB(kind), Visits: []scen.Visit{{FirstOK: 2, Post: "go"}, {FirstOK: 1, Post: "go"}}}
				nodes := []scen.NodeSpec{ns}
				root := 0
				if depth == 1 {
					nodes = append(nodes, scen.NodeSpec{Kind: scen.KFlow, N: 1, Flow: &scen.FlowSpec{Start: 0}})
					root = 1
				}
				pc = append(pc, &scen.Scenario{Nodes: nodes, Root: root, Runs: 3, UseFlowRun: depth == 1 && kind%2 == 0, Inject: scen.Inject{Kind: pk, OneRun: true, Run: 0}})
			}
		}
	}
	parallel(c, len(pc), func(i int) {
		judgeFor(c, "C01", "after-a-run-that-never-started", pc[i])
		r.Count("after_unstarted_run.cases", 1)
		r.Nontrivial("pc:" + scenSig(pc[i]))
	})
	hugeBudgetCases(c, "C01")
	// a rescuing fallback may hand back an error RESULT (with a nil error): the exec phase then "produced a result
	// without error", so post runs, once, and receives that result
	for st := 0; st < 8; st++ {
		for _, build := range []string{"options", "builder", "mixed"} {
			for _, ctxk := range []string{"single", "flow"} {
				for _, rt := range []int{0, 3} {
					fc := &FnCase{Family: "fallback-hands-back-an-error-result", PrepR: st&1 != 0, ExecR: st&2 != 0, PostR: st&4 != 0, Build: build, Context: ctxk, P: 3, E: 5, FB: true, FBResult: true, FBErrResult: true, Retries: rt}
					for _, f := range runFnCase(fc) {
						r.Violate("C01", "C01:fallback-error-result:"+f.key, "every exec attempt failed and the fallback returned (NewErrorResult(e), nil): "+f.detail, fc)
					}
					r.Eval()
					r.Count("fallback_error_result.cases", 1)
				}
			}
		}
	}
	// payloads of the library's own Action type: data like any other — post alone decides the action
	ap := actionPayloadCases()
	parallel(c, len(ap), func(i int) {
		judgeFor(c, "C01", "action-typed-payload", ap[i])
		r.Count("action_typed_payload.cases", 1)
		r.Nontrivial("ap:" + scenSig(ap[i]))
	})
	// one-shot stream payloads (and the other late zoo entries): prep still runs once, every attempt, the fallback and
	// post see the very value prep returned
	var rp []*scen.Scenario
	for _, name := range []string{"reader-bytes-buffer", "reader-bufio", "reader-strings", "map-any-any", "anyslice-holding-map-any-any", "shared-store-pointer", "func-returning-any", "result-slice-with-error"} {
		zi := zoo.Index(name)
		for kind := 0; kind < scen.NumScriptedKinds; kind++ {
			for n := 1; n <= 4; n++ {
				for k := 1; k <= n+1; k++ {
					ns := scen.NodeSpec{Kind: kind, N: n, HasFB: scen.KindCanFB(kind) && (kind >= scen.KFnOptRes && k%2 == 0 || kind < scen.KFnOptRes), Visits: []scen.Visit{{FirstOK: k, Post: "go", Payload: zi}}}
					rp = append(rp, &scen.Scenario{Nodes: []scen.NodeSpec{ns}, Root: 0, Runs: 1})
					rp = append(rp, &scen.Scenario{Nodes: []scen.NodeSpec{ns, {Kind: scen.KFlow, N: 1, Flow: &scen.FlowSpec{Start: 0}}}, Root: 1, Runs: 1})
				}
			}
		}
	}
	parallel(c, len(rp), func(i int) {
		judgeFor(c, "C01", "stream-payload", rp[i])
		r.Count("stream_payload.cases", 1)
		r.Nontrivial("rp:" + scenSig(rp[i]))
	})
	// nodes inside flows that carry a retry budget of their own (nested 0..3 deep): each flow attempt runs the nodes
	// with the store given to the run, each node's lifecycle is complete within its attempt
	fr := flowRetryCases()
	parallel(c, len(fr), func(i int) {
		judgeFor(c, "C01", "inside-retried-flow", fr[i])
		r.Count("inside_retried_flow.cases", 1)
		r.Nontrivial("fr:" + scenSig(fr[i]))
	})
	r.Exhaustive = true
	r.Note(fmt.Sprintf("standalone product enumerated completely: %d cases (%d node kinds x budgets 1..8 x first-success index 1..N+1 x fallback x prep x post)", len(cases), scen.NumScriptedKinds))
	// 2. nodes embedded in generated flows, with one run-ending failure injected at a random on-path position
	nFlows := c.Pick(20000, 1000000)
	parallel(c, nFlows, func(i int) {
		rg := c.Rng("c01flow", i)
		sc := scen.GenFlowScenario(rg, scen.GenOpts{MaxNodes: 12, MaxActions: 5, MaxDepth: 3, Failures: true, Zoo: true})
		if rg.IntN(3) == 0 {
			failSomewhere(rg.IntN(1<<30), sc)
		}
		if sc.Runs > 1 && i%5 == 0 {
			// run 0 is cancelled somewhere; the lifecycle of every node in the later runs is as if nothing had happened
			sc.Inject = scen.Inject{Kind: []string{"cancel", "deadline", "pre-cancel", "pre-deadline", "pre-expired"}[i/5%5], At: rg.IntN(12), OneRun: true, Run: 0} // (also: run 0 never got started because its context was done already)
		}
		outs, _ := judgeFor(c, "C01", "embedded", sc)
		ev := 0
		for _, o := range outs {
			ev += len(o.Events)
		}
		if ev >= 2 {
			r.Nontrivial("fl:" + scenSig(sc))
		}
		r.Count("embedded.flows", 1)
		if ev >= 8 && r.SampleWanted("embedded") {
			r.Sample("embedded", map[string]any{"scenario": sc, "events_run0": outs[0].Events})
		}
	})
}

// hugeBudgetCases: "retry until it works" budgets (2^40, MaxInt) with an early success: budgets are counts, not sizes.
func hugeBudgetCases(c *Cfg, prop string) {
	if c.Shard != 0 {
		return
	}
	for kind := 0; kind < scen.NumScriptedKinds; kind++ {
		if !scen.KindHasRetry(kind) {
			continue
		}
		for _, n := range []int{1 << 40, math.MaxInt} {
			for k := 1; k <= 3; k++ {
				ns := scen.NodeSpec{Kind: kind, N: n, HasFB: k%2 == 0, Visits: []scen.Visit{{FirstOK: k, Post: "go"}}}
				sc := &scen.Scenario{Nodes: []scen.NodeSpec{ns}, Root: 0, Runs: 1}
				logCase(c, ScenCase{"huge-budget", sc}) // a process-fatal allocation failure would otherwise leave no trace
				judgeFor(c, prop, "huge-budget", sc)
				c.Rep.Count("huge_budget.cases", 1)
				c.Rep.Nontrivial(fmt.Sprintf("huge %d %d %d", kind, n, k))
			}
		}
	}
	if c.CurFile != "" {
		_ = os.Remove(c.CurFile)
	}
}

// failSomewhere turns one on-path (node, visit) of the first run into a run-ending failure.
func failSomewhere(pick int, sc *scen.Scenario) {
	m := scen.NewModel(sc)
	mr := m.Run()
	type nv struct{ n, v int }
	var path []nv
	for _, k := range mr.Keys {
		var n, v, a int
		var ph string
		if parseKey(k, &n, &v, &ph, &a) && ph == "prep" {
			path = append(path, nv{n, v})
		}
	}
	if len(path) == 0 {
		return
	}
	p := path[pick%len(path)]
	makeFail(sc, p.n, p.v, (pick/len(path))%3)
}

// makeFail scripts a run-ending failure of node n at visit v: which = 0 prep, 1 exec phase, 2 post.
func makeFail(sc *scen.Scenario, n, v, which int) {
	ns := &sc.Nodes[n]
	for len(ns.Visits) <= v {
		ns.Visits = append(ns.Visits, scen.Visit{FirstOK: 1, Post: scen.EndAction})
	}
	vs := &ns.Visits[v]
	switch which {
	case 0:
		vs.PrepErr = true
	case 1:
		vs.FirstOK = scen.EffBudget(ns) + 1
		vs.FBErr = true
	default:
		vs.PostErr = true
	}
}

func parseKey(k string, n, v *int, ph *string, a *int) bool {
	_, err := fmt.Sscanf(replaceDots(k), "%d %d %s %d", n, v, ph, a)
	return err == nil
}

func replaceDots(s string) string {
	b := []byte(s)
	for i := range b {
		if b[i] == '.' {
			b[i] = ' '
		}
	}
	return string(b)
}

func runC02(c *Cfg) {
	r := c.Rep
	runSpecial(c, "C02", "same-name-node-types")
	runSpecial(c, "C02", "rerun-after-stopped-concurrent-run")
	runSpecial(c, "C02", "half-retry-interface")
	runSpecial(c, "C02", "node-run-again-after-cancelled-run")
	runSpecial(c, "C02", "fallback-set-twice")
	var cases []*scen.Scenario
	var sigs []string
	standaloneProduct(8, func(idx int, sc *scen.Scenario, sig string) {
		if sc.Nodes[0].Visits[0].PrepErr {
			return
		}
		cases = append(cases, sc)
		sigs = append(sigs, sig)
	})
	parallel(c, len(cases), func(i int) {
		outs, _ := judgeFor(c, "C02", "standalone", cases[i])
		ne := 0
		for _, e := range outs[0].Events {
			if e.Phase == "exec" {
				ne++
			}
		}
		r.Count("standalone.exec_attempts", int64(ne))
		r.HighWater("standalone.max_attempts", int64(ne))
		r.Nontrivial("sa:" + sigs[i])
		if ne >= 3 && r.SampleWanted("standalone") {
			r.Sample("standalone", map[string]any{"scenario": cases[i], "events": outs[0].Events, "err": outs[0].ErrText})
		}
	})
	r.Exhaustive = true
	r.Note(fmt.Sprintf("standalone retry/fallback product enumerated completely: %d cases; batch items are decided by the gated batch engine below", len(cases)))
	// a context that carries a far deadline (never reached) must not change the number of attempts: retry wait > 0
	var dl []*scen.Scenario
	for kind := 0; kind < scen.NumScriptedKinds; kind++ {
		if !scen.KindHasRetry(kind) {
			continue
		}
		for _, n := range []int{4, 8} {
			for k := 2; k <= 2; k++ {
				for _, fb := range []bool{false, true} {
					if fb && !scen.KindCanFB(kind) {
						continue
					}
					ns := scen.NodeSpec{Kind: kind, N: n, HasFB: fb, WaitMs: 15, Visits: []scen.Visit{{FirstOK: k, Post: "go"}}}
					dl = append(dl, &scen.Scenario{Nodes: []scen.NodeSpec{ns}, Root: 0, Runs: 1, Inject: scen.Inject{Kind: "far-deadline", At: (n - 1) * 15 * 7 / 10}})
				}
			}
		}
	}
	parallelN(c, len(dl), 32, func(i int) {
		for try := 0; try < 4; try++ {
			x := scen.NewExec(dl[i])
			o := x.RunOnce()
			r.Eval()
			if o.Discard {
				r.Count("far_deadline.discarded_deadline_reached", 1)
				continue
			}
			o.CancelSeq = -1
			r.Count("far_deadline.runs", 1)
			for _, f := range scen.Judge(dl[i], nil, &o) {
				if f.Prop == "C02" {
					r.Violate("C02", "C02:far-deadline:"+f.Key, "context with a deadline "+fmt.Sprint(dl[i].Inject.At)+" ms away (not reached), retry wait 15 ms: "+f.Detail, ScenCase{"far-deadline", dl[i]})
				}
			}
			r.Nontrivial("dl:" + scenSig(dl[i]))
			break
		}
	})
	// every failing attempt returns the very same error value / wraps the previous attempt's error / is a
	// "permanent" (Temporary() == false) error, with a (short) retry wait: the budget is the budget
	var sv []*scen.Scenario
	for kind := 0; kind < scen.NumScriptedKinds; kind++ {
		if !scen.KindHasRetry(kind) {
			continue
		}
		for _, ek := range []int{scen.ESameValue, scen.EChained, scen.ENotTemporary, scen.ETemporary} {
			for _, n := range []int{3, 4} {
				for _, k := range []int{2, 3, n, n + 1} {
					for _, w := range []int{0, 1} {
						ns := scen.NodeSpec{Kind: kind, N: n, HasFB: (kind+k)%2 == 0, ErrKind: ek, WaitMs: w, Visits: []scen.Visit{{FirstOK: k, FBErr: k%2 == 0, Post: "go"}}}
						sv = append(sv, &scen.Scenario{Nodes: []scen.NodeSpec{ns}, Root: 0, Runs: 1})
					}
				}
			}
		}
	}
	parallelN(c, len(sv), 32, func(i int) {
		judgeFor(c, "C02", "error-value-patterns", sv[i])
		r.Count("error_value_patterns.cases", 1)
		r.Nontrivial("sv:" + scenSig(sv[i]))
	})
	hugeBudgetCases(c, "C02")
	// a budget of one with a retry wait configured (before / after the budget, every route): still exactly one attempt
	var bw []*scen.Scenario
	for kind := 0; kind < scen.NumScriptedKinds; kind++ {
		if !scen.KindHasRetry(kind) {
			continue
		}
		for _, k := range []int{1, 2} {
			for _, fb := range []bool{false, true} {
				if fb && !scen.KindCanFB(kind) {
					continue
				}
				ns := scen.NodeSpec{Kind: kind, N: 1, HasFB: fb, WaitMs: 1 + k, Visits: []scen.Visit{{FirstOK: k, Post: "go"}}}
				bw = append(bw, &scen.Scenario{Nodes: []scen.NodeSpec{ns}, Root: 0, Runs: 1})
			}
		}
	}
	parallel(c, len(bw), func(i int) {
		judgeFor(c, "C02", "budget-one-with-a-wait", bw[i])
		r.Count("budget_one_with_wait.cases", 1)
		r.Nontrivial("bw:" + scenSig(bw[i]))
	})
	// the budget a node's own prep chooses (whatever it was built with) is the budget of this run — also on the second
	// run of the same node, which chooses again
	var bp []*scen.Scenario
	for kind := 0; kind < scen.NumScriptedKinds; kind++ {
		if !scen.KindHasRetry(kind) || kind == scen.KBaseOverride {
			continue
		}
		for n := 1; n <= 4; n++ {
			for k := 1; k <= n+1; k++ {
				fb := scen.KindCanFB(kind) && (kind < scen.KFnOptRes || (n+k)%2 == 0)
				ns := scen.NodeSpec{Kind: kind, N: n, HasFB: fb, PrepSetsN: true, Visits: []scen.Visit{{FirstOK: k, Post: "go"}, {FirstOK: n + 1 - k%2, FBErr: k%2 == 0, Post: "go"}}}
				bp = append(bp, &scen.Scenario{Nodes: []scen.NodeSpec{ns}, Root: 0, Runs: 2})
				bp = append(bp, &scen.Scenario{Nodes: []scen.NodeSpec{ns, {Kind: scen.KFlow, N: 1, Flow: &scen.FlowSpec{Start: 0}}}, Root: 1, Runs: 2})
			}
		}
	}
	parallel(c, len(bp), func(i int) {
		judgeFor(c, "C02", "budget-chosen-in-prep", bp[i])
		r.Count("budget_chosen_in_prep.cases", 1)
		r.Nontrivial("bp:" + scenSig(bp[i]))
	})
	// flows with a retry budget of their own around retrying, always-failing nodes: every activation of the inner
	// node gets its own full budget (attempt counters are per run of a node)
	var fr []*scen.Scenario
	for kind := 0; kind < scen.NumScriptedKinds; kind++ {
		if !scen.KindHasRetry(kind) {
			continue
		}
		for fb := 2; fb <= 3; fb++ {
			for nb := 1; nb <= 3; nb++ {
				vs := make([]scen.Visit, 4)
				for i := range vs {
					vs[i] = scen.Visit{FirstOK: nb + 1, FBErr: true, Post: "go"}
				}
				fr = append(fr, &scen.Scenario{Runs: 1, Root: 1, Nodes: []scen.NodeSpec{
					{Kind: kind, N: nb, HasFB: (kind+fb)%2 == 0, Visits: vs},
					{Kind: scen.KFlow, N: 1, Flow: &scen.FlowSpec{Start: 0, Retries: fb}}}})
			}
		}
	}
	// the same with the retried flow nested 0..3 levels deep and a worker that recovers on a later flow attempt
	fr = append(fr, flowRetryCases()...)
	parallel(c, len(fr), func(i int) {
		outs, mrs := judgeFor(c, "C02", "flow-with-retries", fr[i])
		if !scen.FullTraceEqual(&mrs[0], &outs[0]) {
			// the flow is itself a node with a retry budget: its exec (one pass over its path) is attempted min(k, N) times
			budget := 0
			for _, ns := range fr[i].Nodes {
				if ns.Flow != nil && ns.Flow.Retries > budget {
					budget = ns.Flow.Retries
				}
			}
			r.Violate("C02", "C02:flow-attempts", fmt.Sprintf("a flow with retry budget %d (used as a node, nesting depth %d) around a failing node: observed callbacks %v; a node with that budget is attempted until its first success and at most %d times: %v", budget, fr[i].MaxNesting()-1, keysOf(outs[0].Events), budget, mrs[0].Keys), ScenCase{"flow-with-retries", fr[i]})
		}
		r.Count("flow_with_retries.cases", 1)
		r.Nontrivial("fr:" + scenSig(fr[i]))
	})
	// cancellation inside the LAST failing attempt, with a retry wait configured and a fallback installed: all N
	// attempts failed, so the fallback is still owed
	cl := cancelInLastAttemptCases(true)
	parallel(c, len(cl), func(i int) {
		judgeFor(c, "C02", "cancel-in-last-attempt", cl[i])
		r.Count("cancel_in_last_attempt.cases", 1)
		r.Nontrivial("cl:" + scenSig(cl[i]))
	})
	runC02Batch(c)
}

func replayC02(c *Cfg, spec json.RawMessage) {
	if isBatchCase(spec) {
		replayBatch(c, "C02", spec)
		return
	}
	replayScenario(c, "C02", spec)
}
