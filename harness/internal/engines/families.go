package engines

import (
	"fmt"
	"math/rand/v2"

	"verif/harness/internal/scen"
	"verif/harness/internal/zoo"
)

// flowRetryCases: a flow with a retry budget of its own (a flow used as a node is retried like a node), run on its
// own and nested 1..3 levels deep, around a worker that fails for good on its first f visits and succeeds afterwards;
// a tail node follows the retried flow in the first enclosing flow.
func flowRetryCases() []*scen.Scenario {
	var out []*scen.Scenario
	for kind := 0; kind < scen.NumScriptedKinds; kind++ {
		for fr := 2; fr <= 3; fr++ {
			for f := 0; f <= fr; f++ {
				for depth := 0; depth <= 3; depth++ {
					nb := 1 + (kind+fr+f+depth)%2
					if !scen.KindHasRetry(kind) {
						nb = 1
					}
					var vs []scen.Visit
					for i := 0; i < f; i++ {
						switch (kind + fr + depth + i) % 3 { // which phase of the worker fails for good in this flow attempt
						case 0:
							vs = append(vs, scen.Visit{FirstOK: nb + 1, FBErr: true, Post: "go"})
						case 1:
							vs = append(vs, scen.Visit{PrepErr: true, FirstOK: 1, Post: "go"})
						default:
							vs = append(vs, scen.Visit{FirstOK: 1, Post: "go", PostErr: true})
						}
					}
					vs = append(vs, scen.Visit{FirstOK: 1, Post: "go"})
					nodes := []scen.NodeSpec{
						{Kind: kind, N: nb, HasFB: (kind+fr)%2 == 0, ErrKind: (kind + f) % scen.NumErrKinds, Visits: vs},
						{Kind: scen.KFlow, N: 1, Flow: &scen.FlowSpec{Start: 0, Retries: fr}},
						{Kind: scen.KPlain, N: 1, Visits: []scen.Visit{{FirstOK: 1, Post: "tail"}}},
					}
					root := 1
					for d := 0; d < depth; d++ {
						fs := &scen.FlowSpec{Start: root}
						if d == 0 {
							fs.Conns = []scen.Conn{{From: 1, Action: "go", To: 2}}
						}
						nodes = append(nodes, scen.NodeSpec{Kind: scen.KFlow, N: 1, Flow: fs})
						root = len(nodes) - 1
					}
					out = append(out, &scen.Scenario{Runs: 1, Root: root, Nodes: nodes, UseFlowRun: (kind+depth)%3 == 0})
				}
			}
		}
	}
	return out
}

// wideRouterCases: a node with 9..12 distinct connected actions, one of which is re-connected (to another node / to
// nil) after all of them exist: the most recent Connect of the pair decides, however many actions the node has.
func wideRouterCases() []*scen.Scenario {
	var out []*scen.Scenario
	for fan := 9; fan <= 12; fan++ {
		for j := 0; j < fan; j += 1 + fan/5 {
			for _, toNil := range []bool{false, true} {
				act := func(i int) string { return fmt.Sprintf("a%d", i) }
				n0 := scen.NodeSpec{Kind: (fan + j) % scen.NumScriptedKinds, N: 1, Visits: []scen.Visit{{FirstOK: 1, Post: act(j)}}}
				old := scen.NodeSpec{Kind: scen.KPlain, N: 1, Visits: []scen.Visit{{FirstOK: 1, Post: "old"}}}
				nw := scen.NodeSpec{Kind: scen.KPlain, N: 1, Visits: []scen.Visit{{FirstOK: 1, Post: "new"}}}
				fs := &scen.FlowSpec{Start: 0}
				for i := 0; i < fan; i++ {
					fs.Conns = append(fs.Conns, scen.Conn{From: 0, Action: act(i), To: 1})
				}
				to := 2
				if toNil {
					to = -1
				}
				fs.Conns = append(fs.Conns, scen.Conn{From: 0, Action: act(j), To: to})
				sc := &scen.Scenario{Nodes: []scen.NodeSpec{n0, old, nw, {Kind: scen.KFlow, N: 1, Flow: fs}}, Root: 3, Runs: 1}
				out = append(out, sc)
				// the same with the re-connection made between two runs
				sc2 := sc.Clone()
				sc2.Runs = 2
				sc2.Nodes[0].Visits = append(sc2.Nodes[0].Visits, scen.Visit{FirstOK: 1, Post: act(j)})
				sc2.Nodes[1].Visits = append(sc2.Nodes[1].Visits, scen.Visit{FirstOK: 1, Post: "old"})
				sc2.Nodes[2].Visits = append(sc2.Nodes[2].Visits, scen.Visit{FirstOK: 1, Post: "new"})
				sc2.Nodes[3].Flow.Conns = sc2.Nodes[3].Flow.Conns[:fan]
				sc2.Rewire = []scen.Rewire{{AfterRun: 0, Flow: 3, Conn: scen.Conn{From: 0, Action: act(j), To: to}}}
				out = append(out, sc2)
			}
		}
	}
	return out
}

// selfLoopThenEndCases: an inner flow whose last node self-loops a few times and then ends the inner flow with another
// action, on which the parent routes (nesting depth 1..3).
func selfLoopThenEndCases() []*scen.Scenario {
	var out []*scen.Scenario
	for kind := 0; kind < scen.NumScriptedKinds; kind++ {
		for loops := 1; loops <= 3; loops++ {
			for depth := 1; depth <= 3; depth++ {
				for _, nilEnd := range []bool{false, true} {
					nodes := []scen.NodeSpec{
						{Kind: kind, N: 1, LoopN: loops}, // returns "loop" loops times, then "exit"
						{Kind: scen.KPlain, N: 1, Visits: []scen.Visit{{FirstOK: 1, Post: "good"}}},
						{Kind: scen.KPlain, N: 1, Visits: []scen.Visit{{FirstOK: 1, Post: "bad"}}},
					}
					inner := &scen.FlowSpec{Start: 0, Conns: []scen.Conn{{From: 0, Action: "loop", To: 0}}}
					if nilEnd {
						inner.Conns = append(inner.Conns, scen.Conn{From: 0, Action: "exit", To: -1})
					}
					nodes = append(nodes, scen.NodeSpec{Kind: scen.KFlow, N: 1, Flow: inner})
					cur := 3
					for d := 1; d < depth; d++ { // wrappers that just pass the action up
						nodes = append(nodes, scen.NodeSpec{Kind: scen.KFlow, N: 1, Flow: &scen.FlowSpec{Start: cur}})
						cur = len(nodes) - 1
					}
					nodes = append(nodes, scen.NodeSpec{Kind: scen.KFlow, N: 1, Flow: &scen.FlowSpec{Start: cur, Conns: []scen.Conn{{From: cur, Action: "exit", To: 1}, {From: cur, Action: "loop", To: 2}, {From: cur, Action: "default", To: 2}}}})
					out = append(out, &scen.Scenario{Nodes: nodes, Root: len(nodes) - 1, Runs: 1})
				}
			}
		}
	}
	return out
}

// startlessBranchCases: a flow that has no start node sits on a branch that is not taken (or is the target of a pair
// that is re-connected before the run): it is never entered, so it has no say in the run.
func startlessBranchCases() []*scen.Scenario {
	var out []*scen.Scenario
	for kind := 0; kind < scen.NumScriptedKinds; kind++ {
		for depth := 0; depth <= 2; depth++ {
			nodes := []scen.NodeSpec{
				{Kind: kind, N: 1, Visits: []scen.Visit{{FirstOK: 1, Post: "ok"}, {FirstOK: 1, Post: "ok"}}},
				{Kind: scen.KPlain, N: 1, Visits: []scen.Visit{{FirstOK: 1, Post: "fin"}, {FirstOK: 1, Post: "fin"}}},
				{Kind: scen.KFlow, N: 1, Flow: &scen.FlowSpec{Start: -1}}, // start-less
			}
			fs := &scen.FlowSpec{Start: 0, Conns: []scen.Conn{{From: 0, Action: "ok", To: 1}, {From: 0, Action: "failed", To: 2}, {From: 1, Action: "other", To: 2}}}
			nodes = append(nodes, scen.NodeSpec{Kind: scen.KFlow, N: 1, Flow: fs})
			root := 3
			for d := 0; d < depth; d++ {
				nodes = append(nodes, scen.NodeSpec{Kind: scen.KFlow, N: 1, Flow: &scen.FlowSpec{Start: root}})
				root = len(nodes) - 1
			}
			out = append(out, &scen.Scenario{Nodes: nodes, Root: root, Runs: 2, UseFlowRun: depth%2 == 0})
		}
	}
	return out
}

// selfEmbeddedCases: a flow that contains itself as a node, with a continuation wired on the flow-as-node: every
// level that was entered runs to its end and hands its last action to the level that entered it.
func selfEmbeddedCases() []*scen.Scenario {
	var out []*scen.Scenario
	for kind := 0; kind < scen.NumScriptedKinds; kind++ {
		for depth := 1; depth <= 3; depth++ {
			var vs []scen.Visit
			for i := 0; i < depth; i++ {
				vs = append(vs, scen.Visit{FirstOK: 1, Post: "down"})
			}
			vs = append(vs, scen.Visit{FirstOK: 1, Post: "bottom"})
			up := scen.NodeSpec{Kind: scen.KPlain, N: 1}
			for i := 0; i <= depth; i++ {
				up.Visits = append(up.Visits, scen.Visit{FirstOK: 1, Post: "bottom"}) // hands "bottom" on to the level above
			}
			nodes := []scen.NodeSpec{
				{Kind: kind, N: 1, Visits: vs},
				up,
				{Kind: scen.KFlow, N: 1, Flow: &scen.FlowSpec{Start: 0, Conns: []scen.Conn{{From: 0, Action: "down", To: 2}, {From: 2, Action: "bottom", To: 1}}}},
			}
			out = append(out, &scen.Scenario{Nodes: nodes, Root: 2, Runs: 1, UseFlowRun: depth%2 == 0})
		}
	}
	return out
}

// cancelInLastAttemptCases: the context is cancelled inside the LAST permitted exec attempt, which fails; with a
// fallback installed the fallback is still owed (C02), without one the run ends with that attempt's error (C04).
func cancelInLastAttemptCases(withFB bool) []*scen.Scenario {
	var out []*scen.Scenario
	for kind := 0; kind < scen.NumScriptedKinds; kind++ {
		if !scen.KindHasRetry(kind) {
			continue
		}
		if withFB && !scen.KindCanFB(kind) {
			continue
		}
		if !withFB && kind < scen.KFnOptRes && scen.KindCanFB(kind) {
			continue // struct kinds with an ExecFallback method always have it
		}
		for nb := 1; nb <= 3; nb++ {
			for _, w := range []int{0, 1} {
				for _, ik := range []string{"cancel", "deadline"} {
					for depth := 0; depth <= 2; depth++ {
						if withFB && depth > 0 {
							continue
						}
						ns := scen.NodeSpec{Kind: kind, N: nb, HasFB: withFB, WaitMs: w, ErrKind: (kind + nb) % scen.NumErrKinds, Visits: []scen.Visit{{FirstOK: nb + 1, FBErr: !withFB || (nb+w)%2 == 0, Post: "go"}}}
						nodes := []scen.NodeSpec{ns}
						root := 0
						for d := 0; d < depth; d++ {
							nodes = append(nodes, scen.NodeSpec{Kind: scen.KFlow, N: 1, Flow: &scen.FlowSpec{Start: root}})
							root = len(nodes) - 1
						}
						out = append(out, &scen.Scenario{Nodes: nodes, Root: root, Runs: 1, Inject: scen.Inject{Kind: ik, At: nb}}) // ordinal nb = the last exec attempt
					}
				}
			}
		}
	}
	return out
}

// actionPayloadCases: the exec phase produces a value of the library's own Action type (empty or not) and post
// returns the empty action or one of its own: the payload is data, post alone decides the action.
func actionPayloadCases() []*scen.Scenario {
	var out []*scen.Scenario
	for kind := 0; kind < scen.NumScriptedKinds; kind++ {
		for _, name := range []string{"flyt-action", "flyt-action-empty", "flyt-action-default"} {
			for _, post := range []string{"", "go"} {
				for path := 0; path < 2; path++ { // 0: first attempt succeeds; 1: rescued by the fallback
					if path == 1 && !scen.KindCanFB(kind) {
						continue
					}
					v := scen.Visit{FirstOK: 1, Post: post, Payload: zoo.Index(name) - 1} // exec attempt 1 yields zoo[Payload+1]
					ns := scen.NodeSpec{Kind: kind, N: 1, HasFB: path == 1, Visits: []scen.Visit{v}}
					if path == 1 {
						ns.Visits[0].FirstOK = 2
						ns.Visits[0].Payload = zoo.Index(name) // the fallback yields zoo[Payload+0]
					}
					out = append(out, &scen.Scenario{Nodes: []scen.NodeSpec{ns}, Root: 0, Runs: 1})
					// the same node as a routed step: "approve" / "" must not be followed, post's action must
					tail := scen.NodeSpec{Kind: scen.KPlain, N: 1, Visits: []scen.Visit{{FirstOK: 1, Post: "fin"}}}
					decoy := scen.NodeSpec{Kind: scen.KPlain, N: 1, Visits: []scen.Visit{{FirstOK: 1, Post: "decoy"}}}
					want := post
					if want == "" {
						want = "default"
					}
					fs := &scen.FlowSpec{Start: 0, Conns: []scen.Conn{{From: 0, Action: "approve", To: 2}, {From: 0, Action: "", To: 2}, {From: 0, Action: want, To: 1}}}
					if want != "default" {
						fs.Conns = append(fs.Conns, scen.Conn{From: 0, Action: "default", To: 2})
					}
					out = append(out, &scen.Scenario{Nodes: []scen.NodeSpec{ns, tail, decoy, {Kind: scen.KFlow, N: 1, Flow: fs}}, Root: 3, Runs: 1})
				}
			}
		}
	}
	return out
}

// midConnectCases: Connect calls made from inside a running node's callback. "The node most recently connected to
// that (node, a) pair" is decided when the node has finished, so a connection made during its visit counts.
func midConnectCases() []*scen.Scenario {
	var out []*scen.Scenario
	plain := func(post ...string) scen.NodeSpec {
		ns := scen.NodeSpec{Kind: scen.KPlain, N: 1}
		for _, p := range post {
			ns.Visits = append(ns.Visits, scen.Visit{FirstOK: 1, Post: p})
		}
		return ns
	}
	for kind := 0; kind < scen.NumScriptedKinds; kind++ {
		for _, phase := range []string{"prep", "exec", "post"} {
			for variant := 0; variant < 6; variant++ {
				n0 := scen.NodeSpec{Kind: kind, N: 1, Visits: []scen.Visit{{FirstOK: 1, Post: "a"}, {FirstOK: 1, Post: "b"}}}
				nodes := []scen.NodeSpec{n0, plain("w"), plain("t")}
				fs := &scen.FlowSpec{Start: 0}
				mc := scen.MidConn{Node: 0, Visit: 0, Phase: phase, Flow: 3, Conn: scen.Conn{From: 0, Action: "a", To: 1}}
				switch variant {
				case 0: // the running node has no connection at all when its visit starts
				case 1: // it has one on another action
					fs.Conns = []scen.Conn{{From: 0, Action: "b", To: 2}}
				case 2: // overwrite of an existing pair while the node runs
					fs.Conns = []scen.Conn{{From: 0, Action: "a", To: 2}}
				case 3: // re-connected to nil while it runs: the flow ends there
					fs.Conns = []scen.Conn{{From: 0, Action: "a", To: 2}}
					mc.Conn.To = -1
				case 4: // a self-loop that appears during the first visit (second visit returns "b": unconnected)
					mc.Conn.To = 0
				case 5: // the connection of the NEXT node is made by the current one
					fs.Conns = []scen.Conn{{From: 0, Action: "a", To: 1}}
					mc.Conn = scen.Conn{From: 1, Action: "w", To: 2}
				}
				nodes = append(nodes, scen.NodeSpec{Kind: scen.KFlow, N: 1, Flow: fs})
				out = append(out, &scen.Scenario{Nodes: nodes, Root: 3, Runs: 2, MidConnect: []scen.MidConn{mc}, UseFlowRun: variant%2 == 0})
				if variant < 2 {
					// nested: a node of the inner flow wires the inner flow's successor in the parent
					in := []scen.NodeSpec{n0, plain("w"), plain("t"),
						{Kind: scen.KFlow, N: 1, Flow: &scen.FlowSpec{Start: 0}},
						{Kind: scen.KFlow, N: 1, Flow: &scen.FlowSpec{Start: 3}}}
					if variant == 1 {
						in[4].Flow.Conns = []scen.Conn{{From: 3, Action: "b", To: 2}}
					}
					out = append(out, &scen.Scenario{Nodes: in, Root: 4, Runs: 1, MidConnect: []scen.MidConn{{Node: 0, Visit: 0, Phase: phase, Flow: 4, Conn: scen.Conn{From: 3, Action: "a", To: 1}}}})
				}
			}
		}
	}
	return out
}

// addRandomMidConnects schedules up to three Connect calls inside callbacks of on-path visits of the first run.
func addRandomMidConnects(rg *rand.Rand, sc *scen.Scenario) {
	path, mr := modelPath(sc)
	if mr.Trunc || len(path) == 0 {
		return
	}
	var flows []int
	for id := range sc.Nodes {
		if sc.Nodes[id].Kind == scen.KFlow {
			flows = append(flows, id)
		}
	}
	if len(flows) == 0 {
		return
	}
	for i, n := 0, 1+rg.IntN(3); i < n; i++ {
		p := path[rg.IntN(len(path))]
		fid := flows[rg.IntN(len(flows))]
		fs := sc.Nodes[fid].Flow
		members := []int{fs.Start}
		for _, c := range fs.Conns {
			members = append(members, c.From)
			if c.To >= 0 {
				members = append(members, c.To)
			}
		}
		from := members[rg.IntN(len(members))]
		if rg.IntN(2) == 0 {
			from = p.node // the running node's own connection (it may well not be a member of that flow)
		}
		to := members[rg.IntN(len(members))]
		if rg.IntN(6) == 0 {
			to = -1
		}
		act := scen.Alphabet[rg.IntN(len(scen.Alphabet))]
		if rg.IntN(2) == 0 { // the action this very visit returns
			if v := p.visit; v < len(sc.Nodes[p.node].Visits) && sc.Nodes[p.node].Visits[v].Post != "" && sc.Nodes[p.node].Visits[v].Post != scen.EndAction {
				act = sc.Nodes[p.node].Visits[v].Post
			}
		}
		phase := []string{"prep", "exec", "post"}[rg.IntN(3)]
		if sc.Nodes[p.node].Kind == scen.KBatch && phase == "exec" {
			phase = "post"
		}
		sc.MidConnect = append(sc.MidConnect, scen.MidConn{Node: p.node, Visit: p.visit, Phase: phase, Flow: fid, Conn: scen.Conn{From: from, Action: act, To: to}})
	}
	_ = fmt.Sprint
}

// longLoopCases: runs of well over a thousand (up to 22650) node visits — an inner work loop of k visits entered m times by an outer
// loop (k*m + m visits on one level of the flattened machine, at most max(k, 2m) on any level of the nested one),
// nested 0..2 further levels deep. However long a run is, it ends when the table says so. (Actions are taken from
// scen.Alphabet, which is what the flattening construction knows.)
func longLoopCases() []*scen.Scenario {
	var out []*scen.Scenario
	for _, mk := range [][2]int{{40, 40}, {3, 700}, {600, 2}, {1, 1500}, {150, 150}, {1, 20000}} {
		m, k := mk[0], mk[1]
		for depth := 0; depth <= 2; depth++ {
			for _, kind := range []int{scen.KPlain, scen.KBase, scen.KFnBldAny} {
				if m*k > 5000 && (kind != scen.KPlain || depth == 2) {
					continue // the very long ones (tens of thousands of visits on one level) once per depth 0 and 1
				}
				worker := scen.NodeSpec{Kind: kind, N: 1}
				for j := 0; j < m*k; j++ {
					p := scen.Alphabet[0]
					if j%k == k-1 {
						p = scen.Alphabet[2]
					}
					worker.Visits = append(worker.Visits, scen.Visit{FirstOK: 1, Post: p})
				}
				ctl := scen.NodeSpec{Kind: scen.KPlain, N: 1}
				for j := 0; j < m; j++ {
					p := scen.Alphabet[1]
					if j == m-1 {
						p = scen.Alphabet[4]
					}
					ctl.Visits = append(ctl.Visits, scen.Visit{FirstOK: 1, Post: p})
				}
				nodes := []scen.NodeSpec{worker, ctl,
					{Kind: scen.KFlow, N: 1, Flow: &scen.FlowSpec{Start: 0, Conns: []scen.Conn{{From: 0, Action: scen.Alphabet[0], To: 0}}}},
					{Kind: scen.KFlow, N: 1, Flow: &scen.FlowSpec{Start: 2, Conns: []scen.Conn{{From: 2, Action: scen.Alphabet[2], To: 1}, {From: 1, Action: scen.Alphabet[1], To: 2}}}},
				}
				root := 3
				for d := 0; d < depth; d++ {
					nodes = append(nodes, scen.NodeSpec{Kind: scen.KFlow, N: 1, Flow: &scen.FlowSpec{Start: root}})
					root = len(nodes) - 1
				}
				out = append(out, &scen.Scenario{Nodes: nodes, Root: root, Runs: 1, MaxCallbacks: 400000, UseFlowRun: depth == 1})
			}
		}
	}
	return out
}

// lateInnerEdgeCases: an inner flow gets a node's FIRST outgoing edge only after it has been wired into its parent
// (and has run once): the inner flow is the flow object it is, not a copy taken at wiring time — its next run follows
// the new edge, nested 1..3 levels deep.
func lateInnerEdgeCases() []*scen.Scenario {
	var out []*scen.Scenario
	for kind := 0; kind < scen.NumScriptedKinds; kind++ {
		for depth := 0; depth <= 2; depth++ {
			two := func(p string) []scen.Visit {
				return []scen.Visit{{FirstOK: 1, Post: p}, {FirstOK: 1, Post: p}, {FirstOK: 1, Post: p}}
			}
			nodes := []scen.NodeSpec{
				{Kind: kind, N: 1, Visits: two("go")},
				{Kind: scen.KPlain, N: 1, Visits: two("go")},
				{Kind: scen.KBase, N: 1, Visits: two("fin")},
				{Kind: scen.KFlow, N: 1, Flow: &scen.FlowSpec{Start: 0, Conns: []scen.Conn{{From: 0, Action: "go", To: 1}}}},
				{Kind: scen.KPlain, N: 1, Visits: two("end")},
				{Kind: scen.KFlow, N: 1, Flow: &scen.FlowSpec{Start: 3, Conns: []scen.Conn{{From: 3, Action: "go", To: 4}, {From: 3, Action: "fin", To: 4}}}},
			}
			if depth > 0 { // the inner flow is a connection TARGET of its parent (not its start node)
				nodes[5].Flow = &scen.FlowSpec{Start: 4, Conns: []scen.Conn{{From: 4, Action: "end", To: 3}}}
			}
			root := 5
			for d := 1; d < depth; d++ {
				nodes = append(nodes, scen.NodeSpec{Kind: scen.KFlow, N: 1, Flow: &scen.FlowSpec{Start: root}})
				root = len(nodes) - 1
			}
			sc := &scen.Scenario{Nodes: nodes, Root: root, Runs: 3, UseFlowRun: depth == 1,
				Rewire: []scen.Rewire{{AfterRun: 0, Flow: 3, Conn: scen.Conn{From: 1, Action: "go", To: 2}}, {AfterRun: 1, Flow: 3, Conn: scen.Conn{From: 2, Action: "fin", To: 0}}}}
			// run 2: a b c a(end of script -> EndAction) ...: keep the third run finite: c's third visit ends the inner flow
			sc.Nodes[2].Visits[1] = scen.Visit{FirstOK: 1, Post: "stop"}
			out = append(out, sc)
		}
	}
	return out
}


// sharedNodeCases: ONE node object is a member of two flow objects (run one after the other by an outer flow, or one
// inside the other), and the same (node, action) pair is connected differently — or only in one of them: each flow
// routes by its own table.
func sharedNodeCases() []*scen.Scenario {
	var out []*scen.Scenario
	for kind := 0; kind < scen.NumScriptedKinds; kind++ {
		for variant := 0; variant < 3; variant++ {
			v := func(p string, n int) []scen.Visit {
				var vs []scen.Visit
				for i := 0; i < n; i++ {
					vs = append(vs, scen.Visit{FirstOK: 1, Post: p})
				}
				return vs
			}
			nodes := []scen.NodeSpec{
				{Kind: kind, N: 1, Visits: v("go", 4)},         // 0: X, the shared node
				{Kind: scen.KPlain, N: 1, Visits: v("fin1", 4)}, // 1: Y1
				{Kind: scen.KBase, N: 1, Visits: v("fin2", 4)},  // 2: Y2
			}
			f1 := &scen.FlowSpec{Start: 0, Conns: []scen.Conn{{From: 0, Action: "go", To: 1}}}
			f2 := &scen.FlowSpec{Start: 0, Conns: []scen.Conn{{From: 0, Action: "go", To: 2}}}
			switch variant {
			case 1:
				f2.Conns = nil // X is unconnected in the second flow: it ends there
			case 2:
				f1.Conns = []scen.Conn{{From: 0, Action: "go", To: -1}} // connected to nil in the first, to Y2 in the second
			}
			nodes = append(nodes, scen.NodeSpec{Kind: scen.KFlow, N: 1, Flow: f1}, scen.NodeSpec{Kind: scen.KFlow, N: 1, Flow: f2})
			// outer: F1, then (whatever F1 ends with) F2
			outer := &scen.FlowSpec{Start: 3, Conns: []scen.Conn{{From: 3, Action: "fin1", To: 4}, {From: 3, Action: "go", To: 4}}}
			nodes = append(nodes, scen.NodeSpec{Kind: scen.KFlow, N: 1, Flow: outer})
			out = append(out, &scen.Scenario{Nodes: nodes, Root: 5, Runs: 2, UseFlowRun: kind%2 == 0})
			// and the other order of construction: F2's connections are made first
			rev := &scen.Scenario{Nodes: append([]scen.NodeSpec(nil), nodes...), Root: 5, Runs: 1}
			rev.Nodes[5] = scen.NodeSpec{Kind: scen.KFlow, N: 1, Flow: &scen.FlowSpec{Start: 4, Conns: []scen.Conn{{From: 4, Action: "fin2", To: 3}, {From: 4, Action: "go", To: 3}}}}
			out = append(out, rev)
		}
	}
	return out
}
