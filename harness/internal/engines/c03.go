package engines

import (
	"encoding/json"
	"fmt"

	"verif/harness/internal/scen"
)

func init() {
	register(&Engine{Prop: "C03", Doc: "flow routing", Run: runC03, Replay: func(c *Cfg, s json.RawMessage) { replayScenario(c, "C03", s) }})
	register(&Engine{Prop: "C04", Doc: "error transparency, fail-stop", Run: runC04, Replay: func(c *Cfg, s json.RawMessage) {
		var pc PanicCase
		if json.Unmarshal(s, &pc) == nil && pc.Family == "panicking-callback-inside-a-flow" {
			for _, f := range runPanicCase(&pc) {
				fmt.Printf(" * finding %s: %s\n", f.key, f.detail)
				c.Rep.Violate("C04", "C04:"+f.key, f.detail, pc)
			}
			return
		}
		replayScenario(c, "C04", s)
	}})
	register(&Engine{Prop: "C10", Doc: "flow as node", Run: runC10, Replay: replayC10})
}

var ab = []string{"a", "b"}

var errKindCycle = []int{scen.ESentinel, scen.EWrapped, scen.ECustom, scen.EUncomparable, scen.ENestedRun, scen.EJoined, scen.ETypedNil, scen.ETemporary, scen.EWrapped, scen.ECtxLike, scen.ENilSliceErr, scen.EIOEOF, scen.ENotTemporary, scen.ESameValue, scen.EEmptyBatchErr, scen.EWrapping}
var errKindName = map[int]string{scen.ESentinel: "sentinel", scen.EWrapped: "wrapped", scen.ECustom: "custom", scen.EUncomparable: "uncomparable-struct", scen.EJoined: "joined", scen.ETemporary: "temporary", scen.ECtxLike: "wraps-a-context-error", scen.ENestedRun: "wraps-a-sub-run-error", scen.ETypedNil: "typed-nil-pointer", scen.ENilSliceErr: "nil-slice-error", scen.EIOEOF: "io.EOF", scen.ENotTemporary: "not-temporary", scen.ESameValue: "same-value", scen.EChained: "chained", scen.EEmptyBatchErr: "empty-batch-error", scen.EWrapping: "typed-error-with-a-cause"}

// tableScenario builds the scenario of one point of the exhaustive space:
// nn nodes, 2 actions, target of every (node, action) ∈ {unconnected, nil, each node}, per-node scripts.
func tableScenario(nn, table, script int) *scen.Scenario {
	sc := &scen.Scenario{Runs: 1}
	opts := nn + 2
	// scripts: per node one of a, b, aa, ab, ba, bb
	for n := 0; n < nn; n++ {
		s := script % 6
		script /= 6
		var acts []string
		if s < 2 {
			acts = []string{ab[s]}
		} else {
			s -= 2
			acts = []string{ab[s/2], ab[s%2]}
		}
		ns := scen.NodeSpec{Kind: (table + n*3) % scen.NumScriptedKinds, N: 1}
		for _, a := range acts {
			ns.Visits = append(ns.Visits, scen.Visit{FirstOK: 1, Post: a})
		}
		sc.Nodes = append(sc.Nodes, ns)
	}
	fs := &scen.FlowSpec{Start: 0}
	for n := 0; n < nn; n++ {
		for ai := 0; ai < 2; ai++ {
			t := table % opts
			table /= opts
			switch {
			case t == 0: // unconnected
			case t == 1: // nil, after a non-nil decoy
				fs.Conns = append(fs.Conns, scen.Conn{From: n, Action: ab[ai], To: (n + 1) % nn}, scen.Conn{From: n, Action: ab[ai], To: -1})
			default:
				to := t - 2
				// decoy to a different target first: the last Connect wins
				decoy := (to + 1) % nn
				if nn == 1 {
					decoy = -1
				}
				fs.Conns = append(fs.Conns, scen.Conn{From: n, Action: ab[ai], To: decoy}, scen.Conn{From: n, Action: ab[ai], To: to})
			}
		}
	}
	sc.Nodes = append(sc.Nodes, scen.NodeSpec{Kind: scen.KFlow, N: 1, Flow: fs})
	sc.Root = nn
	if table%5 == 0 { // struct nodes share one embedded *BaseNode (same configuration, different nodes)
		sc.ShareBase = true
		for n := 0; n < nn; n++ {
			sc.Nodes[n].Kind = n % 2 // base / baseFB
		}
	}
	return sc
}

func pow(b, e int) int {
	r := 1
	for ; e > 0; e-- {
		r *= b
	}
	return r
}

func runC03(c *Cfg) {
	r := c.Rep
	runSpecial(c, "C03", "zero-value-nodes")
	runSpecial(c, "C03", "zero-size-pointer-nodes")
	runSpecial(c, "C03", "default-post")
	runSpecial(c, "C03", "wildcard-lookalike-actions")
	runSpecial(c, "C03", "startless-inner-flow-with-edges")
	runSpecial(c, "C03", "cycle-through-retried-inner-flow")
	// 1. exhaustive small space
	type space struct{ nn, tables, scripts int }
	spaces := []space{{1, pow(3, 2), 6}, {2, pow(4, 4), 36}, {3, pow(5, 6), 216}}
	complete := true
	for _, sp := range spaces {
		total := sp.tables * sp.scripts
		stride := 1
		if sp.nn == 3 && !c.Thorough() {
			stride = 13 // a seeded ~8 % slice
			complete = false
		}
		off := 0
		if stride > 1 {
			off = int(c.Seed % int64(stride))
			if off < 0 {
				off = -off
			}
		}
		n := (total - off + stride - 1) / stride
		parallel(c, n, func(k int) {
			i := off + k*stride
			sc := tableScenario(sp.nn, i/sp.scripts, i%sp.scripts)
			outs, mrs := judgeFor(c, "C03", "table", sc)
			r.Count(fmt.Sprintf("table.%dnodes", sp.nn), 1)
			np := 0
			for _, e := range outs[0].Events {
				if e.Phase == "post" {
					np++
				}
			}
			r.HighWater("table.longest_path", int64(np))
			if np >= 2 {
				r.NontrivialH(uint64(sp.nn)<<40 | uint64(i))
			}
			if np >= 5 && r.SampleWanted("table") {
				r.Sample("table", map[string]any{"scenario": sc, "path": outs[0].Store, "model_path": mrs[0].Log})
			}
		})
	}
	if complete {
		r.Exhaustive = true
		r.Note("exhaustive: all 5^6 = 15625 connection tables over 3 nodes x 2 actions x {unconnected, nil, each node} (plus the complete 1- and 2-node spaces) x all 216 per-node action scripts of length <= 2")
	} else {
		r.Note("1- and 2-node table spaces complete; 3-node space sampled with stride 13 (thorough tier enumerates it completely)")
	}
	// 1b. long cycles: a self-loop and a two-node cycle that go round thousands of times before they exit
	loops := []int{1500, 9999, 10001, 12000}
	if c.Thorough() {
		loops = append(loops, 30000, 65537, 200000)
	}
	var lc []*scen.Scenario
	for _, n := range loops {
		// self-loop: 0 --loop--> 0, 0 --exit--> 1
		lc = append(lc, &scen.Scenario{Runs: 1, MaxCallbacks: 4*n + 100, Root: 2, Nodes: []scen.NodeSpec{
			{Kind: (n % scen.NumScriptedKinds), N: 1 + n%4, LoopN: n}, // retry budgets have nothing to do with how often a self-loop is followed
			{Kind: scen.KPlain, N: 1, Visits: []scen.Visit{{FirstOK: 1, Post: "fin"}}},
			{Kind: scen.KFlow, N: 1, Flow: &scen.FlowSpec{Start: 0, Conns: []scen.Conn{{From: 0, Action: "loop", To: 0}, {From: 0, Action: "exit", To: 1}}}}}})
		// two-node cycle: 0 --loop--> 1 --default--> 0, 0 --exit--> 2
		lc = append(lc, &scen.Scenario{Runs: 1, MaxCallbacks: 8*n + 100, Root: 3, Nodes: []scen.NodeSpec{
			{Kind: scen.KBase, N: 2, LoopN: n},
			{Kind: scen.KFnBldAny, N: 1, Visits: nil, LoopN: 0},
			{Kind: scen.KPlain, N: 1, Visits: []scen.Visit{{FirstOK: 1, Post: "fin"}}},
			{Kind: scen.KFlow, N: 1, Flow: &scen.FlowSpec{Start: 0, Conns: []scen.Conn{{From: 0, Action: "loop", To: 1}, {From: 1, Action: scen.EndAction, To: 0}, {From: 0, Action: "exit", To: 2}}}}}})
	}
	// short self-loops on nodes of every kind with retry budgets 2..3 (the loop goes round more often than the budget)
	for kind := 0; kind < scen.NumScriptedKinds; kind++ {
		for nb := 2; nb <= 3; nb++ {
			for _, act := range []string{"loop", "default"} {
				n0 := scen.NodeSpec{Kind: kind, N: nb, LoopN: nb + 2}
				conns := []scen.Conn{{From: 0, Action: "loop", To: 0}, {From: 0, Action: "exit", To: 1}}
				if act == "default" { // the loop is on the default action: post returns "" while looping
					n0 = scen.NodeSpec{Kind: kind, N: nb}
					for v := 0; v < nb+2; v++ {
						n0.Visits = append(n0.Visits, scen.Visit{FirstOK: 1, Post: []string{"", "default"}[v%2]})
					}
					n0.Visits = append(n0.Visits, scen.Visit{FirstOK: 1, Post: "exit"})
					conns = []scen.Conn{{From: 0, Action: "default", To: 0}, {From: 0, Action: "exit", To: 1}}
				}
				lc = append(lc, &scen.Scenario{Runs: 2, Root: 2, Nodes: []scen.NodeSpec{n0,
					{Kind: scen.KPlain, N: 1, Visits: []scen.Visit{{FirstOK: 1, Post: "fin"}}},
					{Kind: scen.KFlow, N: 1, Flow: &scen.FlowSpec{Start: 0, Conns: conns}}}})
			}
		}
	}
	parallel(c, len(lc), func(i int) {
		outs, _ := judgeFor(c, "C03", "long-cycle", lc[i])
		r.Count("long_cycle.runs", 1)
		r.HighWater("long_cycle.longest_path", int64(len(outs[0].Store)))
		r.NontrivialH(uint64(9)<<40 | uint64(i))
	})
	// 1c. Connect calls made from inside a running node's callbacks (the pair is looked up when the node has finished)
	mcs := append(midConnectCases(), actionPayloadCases()...)
	mcs = append(mcs, wideRouterCases()...)
	mcs = append(mcs, selfLoopThenEndCases()...)
	mcs = append(mcs, startlessBranchCases()...)
	mcs = append(mcs, selfEmbeddedCases()...)
	mcs = append(mcs, lateInnerEdgeCases()...)
	mcs = append(mcs, flowRetryCases()...) // flows with a budget of their own, run through flyt.Run and through Flow.Run
	mcs = append(mcs, sharedNodeCases()...) // one node object in several flows: each flow's table is its own
	mcs = append(mcs, longLoopCases()...) // more than a thousand visits: the table alone decides when a run ends
	parallel(c, len(mcs), func(i int) {
		judgeFor(c, "C03", "connect-while-running", mcs[i])
		if len(mcs[i].MidConnect) > 0 {
			r.Count("connect_while_running.cases", 1)
		}
		r.NontrivialH(uint64(10)<<40 | uint64(i))
	})
	// 2. random graphs: up to 12 nodes, 5 actions, nesting depth 3, cycles, re-connections, repeated runs
	nr := c.Pick(30000, 2000000)
	parallel(c, nr, func(i int) {
		rg := c.Rng("c03rand", i)
		sc := scen.GenFlowScenario(rg, scen.GenOpts{MaxNodes: 12, MaxActions: 6, MaxDepth: 3, Failures: i%2 == 0, MaxVisits: 4, Batch: true, SelfNesting: true})
		if sc.Runs > 1 && i%4 == 1 {
			failSomewhere(rg.IntN(1<<30), sc) // a run that ends in an error, followed by further runs of the same flow object
			r.Count("random.scenarios_with_failed_run_then_rerun", 1)
		}
		if i%4 == 2 {
			// a node on the path fails for good, with every kind of error value (also ones that wrap a context error
			// while the context is alive): the flow ends there, with that failure
			failSomewhere(rg.IntN(1<<30), sc)
			ek := scen.AllErrKinds[rg.IntN(len(scen.AllErrKinds))]
			for ni := range sc.Nodes {
				sc.Nodes[ni].ErrKind = ek
			}
			r.Count("random.scenarios_ending_in_failure", 1)
		}
		if sc.Runs > 1 && i%6 == 0 {
			// run 0 is cancelled inside one of its callbacks; the later runs of the same objects (live context) follow the
			// table exactly as if that run had simply stopped there
			if np, _ := modelPath(sc); len(np) > 0 {
				sc.Inject = scen.Inject{Kind: []string{"cancel", "deadline"}[i/6%2], At: rg.IntN(3 * len(np)), OneRun: true, Run: 0}
				r.Count("random.scenarios_with_cancelled_run_then_rerun", 1)
			}
		}
		if i%5 == 3 {
			addRandomMidConnects(rg, sc)
			if len(sc.MidConnect) > 0 {
				r.Count("random.scenarios_with_connect_while_running", 1)
			}
		}
		outs, mrs := judgeFor(c, "C03", "random", sc)
		if len(sc.Rewire) > 0 {
			r.Count("random.scenarios_with_connect_between_runs", 1)
		}
		r.Count("random.flows", 1)
		tot := 0
		for k := range outs {
			tot += len(outs[k].Store)
			r.HighWater("random.longest_path", int64(len(mrs[k].Keys)))
		}
		if len(outs) > 1 {
			r.Count("random.repeated_run_scenarios", 1)
		}
		if tot >= 2 {
			r.Nontrivial(scenSig(sc))
		}
		if tot >= 10 && sc.MaxNesting() >= 2 && r.SampleWanted("random") {
			r.Sample("random", map[string]any{"scenario": sc, "path_run0": outs[0].Store})
		}
	})
}

// onPath lists (node, visit, depth) of the first run's executed path.
type pathPos struct{ node, visit, depth, keyIdx int }

func modelPath(sc *scen.Scenario) ([]pathPos, *scen.ModelRun) {
	m := scen.NewModel(sc)
	mr := m.Run()
	var ps []pathPos
	for i, k := range mr.Keys {
		var n, v, a int
		var ph string
		if parseKey(k, &n, &v, &ph, &a) && ph == "prep" {
			ps = append(ps, pathPos{n, v, mr.Depths[i], i})
		}
	}
	return ps, &mr
}

// runC04Batch: a concurrent stop-mode batch whose post turns the item failure into the node's error, with the
// other in-flight items held parked: once Run has returned that error, no further callback of the run may start.
func runC04Batch(c *Cfg) {
	r := c.Rep
	var cases []*BatchCase
	for _, cc := range []int{2, 3, 4} {
		for _, n := range []int{cc, cc + 2, 3*cc + 2} {
			for f := 0; f < 2; f++ {
				it := make([]ItemScript, n)
				for j := range it {
					it[j].K = 2 // every other item needs its retry: more callbacks to come
				}
				it[f].K = 3
				cases = append(cases, &BatchCase{Family: "failed-post-stop-mode", N: n, C: cc, Stop: true, SetMode: true, Budget: 2, Items: it, Shape: "results", Build: "builder", ExecStyle: []string{"result", "any"}[f], Gated: true, Policy: "holdfail", PostFail: true})
			}
		}
	}
	gatedLoop(c, len(cases), func(i int) *BatchCase { return cases[i] }, func(i int, cs *BatchCase, o *BatchObs) {
		r.Count("batch.failed_post_runs", 1)
		if !o.ErrNil {
			r.Count("batch.run_returned_post_error", 1)
		}
		r.Nontrivial(fmt.Sprintf("bp %d %d %s", cs.N, cs.C, completionOrder(o)))
	}, "C04")
}

func runC04(c *Cfg) {
	r := c.Rep
	defer runC04Batch(c)
	runSpecial(c, "C04", "embedded-flow-rescued-by-fallback")
	// flows with a retry budget of their own, nested: a failure that a later attempt of the flow recovers is not the
	// run's outcome; one that no attempt recovers is, with the callback's own error
	// very long runs (up to 22650 visits): a run in which no callback fails succeeds however long it is, and a callback
	// failing on visit 18000 still ends the run with its own error
	var ll []*scen.Scenario
	for _, sc := range longLoopCases() {
		ll = append(ll, sc)
		if w := &sc.Nodes[0]; len(w.Visits) > 19000 {
			v := sc.Clone()
			v.Nodes[0].ErrKind = scen.EWrapped
			v.Nodes[0].Visits[18000].PostErr = true
			ll = append(ll, v)
		}
	}
	parallel(c, len(ll), func(i int) {
		judgeFor(c, "C04", "very-long-run", ll[i])
		r.Count("very_long_run.cases", 1)
		r.Nontrivial("ll:" + scenSig(ll[i]))
	})
	// a callback that panics has not succeeded: the panic escapes or the run fails — never a success, never a further node
	for _, ph := range []string{"prep", "exec", "post"} {
		for _, vk := range []string{"string", "int", "struct", "ptr", "bool", "error", "stringer", "float", "slice"} {
			for _, sh := range []string{"flat", "nested"} {
				pc := &PanicCase{Family: "panicking-callback-inside-a-flow", Phase: ph, Val: vk, Shape: sh}
				for _, f := range runPanicCase(pc) {
					r.Violate("C04", "C04:"+f.key, f.detail, pc)
				}
				r.Eval()
				r.Count("panicking_callback.cases", 1)
				r.Nontrivial("pc:" + ph + vk + sh)
			}
		}
	}
	// the same flow object run several times: the error each run returned keeps matching THAT run's callback error after
	// later runs (failing elsewhere, or succeeding) of the same object
	var kept []*scen.Scenario
	for kind := 0; kind < scen.NumScriptedKinds; kind++ {
		for depth := 0; depth <= 3; depth++ {
			for second := 0; second < 3; second++ { // the later run: fails in the other node / succeeds / fails in the same node again
				a := scen.NodeSpec{Kind: kind, N: 1, ErrKind: errKindCycle[(kind+depth)%len(errKindCycle)], Visits: []scen.Visit{{FirstOK: 1, Post: "go", PostErr: true}, {FirstOK: 1, Post: "go", PostErr: second == 2}, {FirstOK: 1, Post: "go"}}}
				b := scen.NodeSpec{Kind: scen.KBase, N: 1, ErrKind: scen.ECustom, Visits: []scen.Visit{{PrepErr: second == 0, FirstOK: 1, Post: "fin"}, {FirstOK: 1, Post: "fin"}}}
				nodes := []scen.NodeSpec{a, b, {Kind: scen.KFlow, N: 1, Flow: &scen.FlowSpec{Start: 0, Conns: []scen.Conn{{From: 0, Action: "go", To: 1}}}}}
				root := 2
				for d := 0; d < depth; d++ {
					nodes = append(nodes, scen.NodeSpec{Kind: scen.KFlow, N: 1, Flow: &scen.FlowSpec{Start: root}})
					root = len(nodes) - 1
				}
				kept = append(kept, &scen.Scenario{Nodes: nodes, Root: root, Runs: 3, UseFlowRun: (kind+depth)%2 == 0})
			}
		}
	}
	parallel(c, len(kept), func(i int) {
		judgeFor(c, "C04", "errors-kept-across-runs", kept[i])
		r.Count("errors_kept_across_runs.cases", 1)
		r.Nontrivial("ek:" + scenSig(kept[i]))
	})
	// the context is cancelled inside the very last callback of a run that succeeds: every phase on the path has
	// succeeded, nothing was cut short, the run reports success
	nl := c.Pick(1500, 100000)
	parallel(c, nl, func(i int) {
		rg := c.Rng("c04last", i)
		base := scen.GenFlowScenario(rg, scen.GenOpts{MaxNodes: 8, MaxActions: 4, MaxDepth: 3, MaxVisits: 3, Batch: i%3 == 0})
		base.Runs, base.Rewire = 1, nil
		ref := scen.NewExec(base).RunOnce()
		r.Eval()
		if !ref.ErrNil || ref.Runaway || ref.Panic != "" || len(ref.Events) == 0 {
			return
		}
		last := -1
		for _, e := range ref.Events {
			if e.Phase != "anomaly" {
				last++
			}
		}
		v := base.Clone()
		v.Inject = scen.Inject{Kind: []string{"cancel", "deadline", "cancel-far", "cancel-cause"}[i%4], At: last}
		for _, f := range lastCallbackCancelFindings(v) {
			r.Violate("C04", "C04:"+f.key, f.detail, ScenCase{"cancel-inside-the-last-callback", v})
		}
		r.Eval()
		r.Count("cancel_inside_last_callback.cases", 1)
		r.Nontrivial("lc:" + scenSig(v))
	})
	frc := flowRetryCases()
	parallel(c, len(frc), func(i int) {
		judgeFor(c, "C04", "flow-with-retries", frc[i])
		r.Count("flow_with_retries.cases", 1)
		r.Nontrivial("fr:" + scenSig(frc[i]))
	})
	// failing attempts that return the very same error value / wrap the previous attempt's error / call themselves
	// permanent, with and without a retry wait: a later attempt within the budget still decides the outcome
	var evp []*scen.Scenario
	for kind := 0; kind < scen.NumScriptedKinds; kind++ {
		if !scen.KindHasRetry(kind) {
			continue
		}
		for _, ek := range []int{scen.ESameValue, scen.EChained, scen.ENotTemporary} {
			for _, n := range []int{3, 4} {
				for _, k := range []int{3, n, n + 1} {
					for depth := 0; depth <= 2; depth += 2 {
						nodes := []scen.NodeSpec{{Kind: kind, N: n, ErrKind: ek, WaitMs: (kind + k) % 2, HasFB: false, Visits: []scen.Visit{{FirstOK: k, FBErr: true, Post: "go"}}}}
						root := 0
						for d := 0; d < depth; d++ {
							nodes = append(nodes, scen.NodeSpec{Kind: scen.KFlow, N: 1, Flow: &scen.FlowSpec{Start: root}})
							root = len(nodes) - 1
						}
						evp = append(evp, &scen.Scenario{Nodes: nodes, Root: root, Runs: 1})
					}
				}
			}
		}
	}
	parallelN(c, len(evp), 32, func(i int) {
		judgeFor(c, "C04", "error-value-patterns", evp[i])
		r.Count("error_value_patterns.cases", 1)
		r.Nontrivial("evp:" + scenSig(evp[i]))
	})
	// a run of a retried flow is cancelled inside some callback; the NEXT run of the same objects, with a live
	// context, is judged on what its callbacks returned (a cancelled earlier run leaves nothing behind)
	parallel(c, len(frc), func(i int) {
		if i%3 != 0 {
			return
		}
		ref := scen.NewExec(frc[i]).RunOnce()
		for p := range ref.Events {
			v := frc[i].Clone()
			v.Runs = 2
			v.Inject = scen.Inject{Kind: []string{"cancel", "deadline"}[(i+p)%2], At: p, OneRun: true, Run: 0}
			x := scen.NewExec(v)
			x.RunOnce()
			o1 := x.RunOnce()
			r.EvalN(2)
			clean := v.Clone()
			clean.Inject = scen.Inject{}
			for _, f := range scen.Judge(clean, nil, &o1) {
				if f.Prop == "C04" {
					r.Violate("C04", "C04:after-cancelled-run:"+f.Key, fmt.Sprintf("run 0 was cancelled inside callback #%d; run 1 of the same objects (live context): %s", p, f.Detail), ScenCase{"rerun-after-cancelled-run", v})
				}
			}
			r.Count("rerun_after_cancelled_run.cases", 1)
			r.Nontrivial(fmt.Sprintf("rac %s|%d", scenSig(frc[i]), p))
		}
	})
	// the context is cancelled inside the last permitted attempt, which fails: the run ends because of that failure
	// (nothing was left to retry) and returns that error
	clc := append(cancelInLastAttemptCases(false), cancelInLastAttemptCases(true)...)
	parallel(c, len(clc), func(i int) {
		judgeFor(c, "C04", "cancel-in-last-attempt", clc[i])
		r.Count("cancel_in_last_attempt.cases", 1)
		r.Nontrivial("cl:" + scenSig(clc[i]))
	})
	nb := c.Pick(3000, 200000)
	parallel(c, nb, func(i int) {
		rg := c.Rng("c04", i)
		base := scen.GenFlowScenario(rg, scen.GenOpts{MaxNodes: 8, MaxActions: 4, MaxDepth: 4, Failures: true, MaxVisits: 3, Zoo: i%5 == 0, Batch: true, MoreErrKinds: true})
		base.Runs = 1
		base.Rewire = nil
		if i%7 == 0 { // single node runs as well
			base = &scen.Scenario{Nodes: []scen.NodeSpec{scen.GenNode(rg, scen.GenOpts{Failures: true, MaxVisits: 1}, 2)}, Root: 0, Runs: 1}
		}
		path, mr := modelPath(base)
		if mr.Trunc {
			return
		}
		// the un-injected scenario: a nil error is required
		judgeFor(c, "C04", "base", base)
		r.Count("base.scenarios", 1)
		for _, p := range path {
			for which := 0; which < 3; which++ {
				v := base.Clone()
				makeFail(v, p.node, p.visit, which)
				v.Nodes[p.node].ErrKind = errKindCycle[(i+which+p.node)%len(errKindCycle)]
				outs, vmrs := judgeFor(c, "C04", "inject", v)
				o := &outs[0]
				r.Count("inject.runs", 1)
				r.Count(fmt.Sprintf("inject.depth%d", p.depth), 1)
				r.Count("inject."+[]string{"prep", "exec-phase", "post"}[which], 1)
				r.Count("inject.errkind."+errKindName[v.Nodes[p.node].ErrKind], 1)
				if !o.ErrNil {
					r.Count("inject.run_failed_as_expected", 1)
				}
				// non-trivial: something would have run after the failing callback in the un-injected scenario
				if len(vmrs[0].Keys) < len(mr.Keys) {
					r.Nontrivial(fmt.Sprintf("%s|%d.%d.%d", scenSig(base), p.node, p.visit, which))
				}
				if p.depth >= 3 && r.SampleWanted("inject") {
					r.Sample("inject", map[string]any{"scenario": v, "fail_at": fmt.Sprintf("node %d visit %d %s depth %d", p.node, p.visit, []string{"prep", "exec-phase", "post"}[which], p.depth), "events": o.Events, "err": o.ErrText, "err_matches": o.ErrID})
				}
			}
		}
	})
}
