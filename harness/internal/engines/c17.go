package engines

import (
	"context"
	"encoding/json"
	"errors"
	"fmt"
	"sort"
	"sync"
	"sync/atomic"

	flyt "github.com/mark3labs/flyt"

	"verif/harness/internal/zoo"
)

// FnCase: one point of the style x construction x context x payload grid.
type FnCase struct {
	Family  string `json:"family"`
	PrepR   bool   `json:"prep_result_style"`
	ExecR   bool   `json:"exec_result_style"`
	PostR   bool   `json:"post_result_style"`
	Build   string `json:"build"`   // options | builder | mixed
	Context string `json:"context"` // single | flow | batch
	P       int    `json:"p"`       // zoo index of the prep payload
	E       int    `json:"e"`       // zoo index of the exec payload
	ErrRes  bool   `json:"err_result,omitempty"` // exec returns (NewErrorResult(err), nil) — Result style only
	Retries int    `json:"retries,omitempty"`    // > 0: WithMaxRetries(Retries) is configured (exec never returns a Go error here, so it must run once)
	FB      bool   `json:"fb,omitempty"`         // a fallback function is installed (must not be invoked)
	FBResult bool `json:"fb_result,omitempty"` // exec fails with a Go error on every attempt; the fallback hands back flyt.NewResult(e): post receives e, not a Result inside a Result
	FBErrResult bool `json:"fb_err_result,omitempty"` // with FBResult: the fallback hands back (flyt.NewErrorResult(err), nil) — its outcome replaces the exec outcome, error state included, exactly as if exec had returned that error Result
	CancelInExec bool `json:"cancel_in_exec,omitempty"` // the run's context is cancelled inside the exec function, which still returns normally: post receives exactly what exec returned
	Conc    int    `json:"conc,omitempty"`       // a batch concurrency (and error mode) configured on the plain function node: must change nothing
	Wrap    string `json:"wrap,omitempty"`       // the node is used through composition: embed-builder | embed-custom | decorator (single / flow); bare | bare-in-flow | bare-in-nested-flow | builder-in-flow (batch)
}

var errFn = errors.New("exec-produced error state")

// errFnCtx: the same error state, but the error also wraps a context error (a sub-operation's own timeout) while the run's context is alive
var errFnCtx = fmt.Errorf("%w: sub-operation: %w", errFn, context.DeadlineExceeded)

type fnObs struct {
	execCalls int
	fbCalls   int
	mu       sync.Mutex
	notes    []finding
	execSeen bool
	postSeen bool
}

func isResult(v any) bool { _, ok := v.(flyt.Result); return ok }

// runFnCase executes the case and returns the discrepancies observed inside the user functions.
func runFnCase(cs *FnCase) (fs []finding) {
	z := zoo.Fixed()
	p := z[cs.P%len(z)].V
	e := z[cs.E%len(z)].V
	o := &fnObs{}
	add := func(key, f string, a ...any) {
		o.mu.Lock()
		o.notes = append(o.notes, finding{key, fmt.Sprintf(f, a...)})
		o.mu.Unlock()
	}
	style := fmt.Sprintf("%s/%s/%s", rs(cs.PrepR), rs(cs.ExecR), rs(cs.PostR))

	runCtx, cancelRun := context.WithCancel(context.Background())
	defer cancelRun()
	prepAny := func(ctx context.Context, s *flyt.SharedStore) (any, error) { return p, nil }
	prepRes := func(ctx context.Context, s *flyt.SharedStore) (flyt.Result, error) { return flyt.NewResult(p), nil }
	checkExecArg := func(v any, isErr bool) {
		o.execSeen = true
		o.mu.Lock()
		o.execCalls++
		o.mu.Unlock()
		if cs.CancelInExec {
			cancelRun()
		}
		if isErr {
			add("exec-arg-error-state", "exec function received an error-state Result for a plain prep value")
		}
		if !zoo.Same(v, p) {
			if isResult(v) {
				add("exec-arg-double-wrapped:"+cs.Context, "exec function received the prep value wrapped a second time (a flyt.Result inside the Result) [%s, %s]", style, cs.Build)
			} else {
				add("exec-arg:"+cs.Context, "exec function received %s, prep returned %s [%s, %s]", zoo.Describe(v), zoo.Describe(p), style, cs.Build)
			}
		}
	}
	execAny := func(ctx context.Context, v any) (any, error) {
		checkExecArg(v, false)
		if cs.FBResult {
			return nil, errors.New("exec fails; the fallback supplies the result")
		}
		return e, nil
	}
	execRes := func(ctx context.Context, r flyt.Result) (flyt.Result, error) {
		checkExecArg(r.Value(), r.IsError())
		if cs.FBResult {
			return flyt.Result{}, errors.New("exec fails; the fallback supplies the result")
		}
		if cs.ErrRes {
			if (cs.P+cs.E)%3 == 1 {
				return flyt.NewErrorResult(errFnCtx), nil // still an error RESULT handed back with a nil error: a value, not a failed attempt
			}
			return flyt.NewErrorResult(errFn), nil
		}
		return flyt.NewResult(e), nil
	}
	checkPostArgs := func(pv any, pErr bool, ev any, eIsErr bool, eErr error, resultStyle bool) {
		o.postSeen = true
		if pErr || !zoo.Same(pv, p) {
			add("post-prep-arg:"+cs.Context, "post function received prep value %s, prep returned %s [%s, %s]", zoo.Describe(pv), zoo.Describe(p), style, cs.Build)
		}
		if (cs.ErrRes && cs.ExecR) || cs.FBErrResult {
			if resultStyle {
				if isResult(ev) {
					add("post-exec-double-wrapped:"+cs.Context, "exec returned an error Result; the post function received a non-error Result whose value is itself a flyt.Result (wrapped a second time, error state hidden) [%s, %s]", style, cs.Build)
				} else if !eIsErr {
					add("post-exec-error-stripped:"+cs.Context, "exec returned an error Result; the post function received a Result without the error state (value %s) [%s, %s]", zoo.Describe(ev), style, cs.Build)
				} else if !errors.Is(eErr, errFn) {
					add("post-exec-error-changed:"+cs.Context, "exec returned an error Result; the post function received a different error: %v", eErr)
				}
			} else if ev != nil { // Any style observes Value() of what the Result style observes: nil for an error result
				if isResult(ev) {
					add("post-exec-any-sees-result:"+cs.Context, "exec returned an error Result; the Any-style post function received a flyt.Result value instead of the Result's Value() [%s, %s]", style, cs.Build)
				} else {
					add("post-exec-any:"+cs.Context, "exec returned an error Result; the Any-style post function received %s", zoo.Describe(ev))
				}
			}
			return
		}
		if eIsErr {
			add("post-exec-spurious-error:"+cs.Context, "post function received an error-state Result although exec returned a plain value")
		}
		if !zoo.Same(ev, e) {
			if isResult(ev) {
				add("post-exec-double-wrapped-value:"+cs.Context, "post function received the exec value wrapped a second time [%s, %s]", style, cs.Build)
			} else {
				add("post-exec-arg:"+cs.Context, "post function received exec value %s, exec returned %s [%s, %s]", zoo.Describe(ev), zoo.Describe(e), style, cs.Build)
			}
		}
	}
	postAny := func(ctx context.Context, s *flyt.SharedStore, pv, ev any) (flyt.Action, error) {
		checkPostArgs(pv, false, ev, false, nil, false)
		return "next", nil
	}
	postRes := func(ctx context.Context, s *flyt.SharedStore, pr, er flyt.Result) (flyt.Action, error) {
		checkPostArgs(pr.Value(), pr.IsError(), er.Value(), er.IsError(), er.Error(), true)
		if er.IsError() && er.Value() != nil {
			add("error-result-with-value", "an error Result exposes a non-nil Value()")
		}
		return "next", nil
	}

	fbFn := func(v any, err error) (any, error) {
		o.mu.Lock()
		o.fbCalls++
		o.mu.Unlock()
		if cs.FBErrResult {
			return flyt.NewErrorResult(errFn), nil
		}
		if cs.FBResult {
			return flyt.NewResult(e), nil // Result style, like an exec function would
		}
		return "fallback-value", nil
	}
	finish := func(wantExec int) {
		if cs.FBResult {
			if o.fbCalls != wantExec {
				add("fallback-count:"+cs.Context, "fallback ran %d times, want %d", o.fbCalls, wantExec)
			}
			return
		}
		if o.execCalls != wantExec {
			add("exec-repeated:"+cs.Context, "exec function ran %d times, want %d: it returned a nil error every time (retries configured: %d, returned an error Result: %v) [%s, %s]", o.execCalls, wantExec, cs.Retries, cs.ErrRes, style, cs.Build)
		}
		if o.fbCalls != 0 {
			add("fallback-on-success:"+cs.Context, "fallback function was invoked %d times although exec never returned an error (error Result: %v, retries %d) [%s, %s]", o.fbCalls, cs.ErrRes, cs.Retries, style, cs.Build)
		}
	}
	defer func() {
		if pn := recover(); pn != nil {
			fs = append(o.notes, finding{"panic:" + cs.Context, fmt.Sprint(pn)})
		}
	}()
	if cs.Context == "batch" {
		// batch item: the item payload reaches exec unchanged; exec's outcome reaches the slot unchanged
		prepB := func(ctx context.Context, s *flyt.SharedStore) ([]flyt.Result, error) {
			return []flyt.Result{flyt.NewResult(p), flyt.NewResult(p)}, nil
		}
		var bopts []any
		if cs.Retries > 0 {
			bopts = append(bopts, flyt.WithMaxRetries(cs.Retries))
		}
		if cs.FB {
			bopts = append(bopts, flyt.WithExecFallbackFunc(fbFn))
		}
		var bn *flyt.BatchNodeBuilder
		switch cs.Build {
		case "options": // exec function through the constructor option
			if cs.ExecR {
				bopts = append(bopts, flyt.WithExecFunc(execRes))
			} else {
				bopts = append(bopts, flyt.WithExecFuncAny(execAny))
			}
			bn = flyt.NewBatchNode(bopts...).WithPrepFunc(prepB).WithBatchConcurrency(2)
		case "builder":
			bn = flyt.NewBatchNode(bopts...).WithPrepFunc(prepB)
			if cs.ExecR {
				bn = bn.WithExecFunc(execRes)
			} else {
				bn = bn.WithExecFuncAny(execAny)
			}
		default: // a function-style node's CustomNode composed into the batch node; plain prep returning []any
			copts := append([]any(nil), bopts...)
			copts = append(copts, flyt.WithPrepFuncAny(func(ctx context.Context, s *flyt.SharedStore) (any, error) { return []any{p, p}, nil }))
			if cs.ExecR {
				copts = append(copts, flyt.WithExecFunc(execRes))
			} else {
				copts = append(copts, flyt.WithExecFuncAny(execAny))
			}
			bn = flyt.NewBatchNode()
			bn.CustomNode = flyt.NewNode(copts...).CustomNode
		}
		var slots []flyt.Result
		bn = bn.WithPostFunc(func(ctx context.Context, s *flyt.SharedStore, items, results []flyt.Result) (flyt.Action, error) {
			o.postSeen = true
			slots = results
			for _, it := range items {
				if it.IsError() || !zoo.Same(it.Value(), p) {
					add("batch-post-items", "batch post received item %s, prep produced %s", zoo.Describe(it.Value()), zoo.Describe(p))
				}
			}
			return "next", nil
		})
		var bnode flyt.Node = bn
		switch cs.Wrap { // the same batch node handed to the framework in another guise
		case "bare":
			bnode = bn.BatchNode
		case "bare-in-flow":
			bnode = flyt.NewFlow(bn.BatchNode)
		case "bare-in-nested-flow":
			bnode = flyt.NewFlow(flyt.NewFlow(bn.BatchNode))
		case "builder-in-flow":
			bnode = flyt.NewFlow(bn)
		}
		if _, err := flyt.Run(context.Background(), bnode, flyt.NewSharedStore()); err != nil {
			add("batch-run-error", "batch run failed: %v", err)
		}
		for i, sl := range slots {
			if cs.ErrRes && cs.ExecR {
				if !sl.IsError() || !errors.Is(sl.Error(), errFn) {
					add("batch-slot-error-stripped", "exec returned an error Result for item %d; slot is %s (IsError=%v)", i, zoo.Describe(sl.Value()), sl.IsError())
				}
			} else if sl.IsError() || !zoo.Same(sl.Value(), e) {
				if isResult(sl.Value()) {
					add("batch-slot-double-wrapped", "slot %d holds a Result wrapped in a Result", i)
				} else {
					add("batch-slot-value", "slot %d holds %s, exec returned %s", i, zoo.Describe(sl.Value()), zoo.Describe(e))
				}
			}
		}
		if len(slots) != 2 {
			add("batch-slots", "batch post saw %d results for 2 items", len(slots))
		}
		if !o.execSeen {
			add("exec-not-called:batch", "exec function was never called")
		}
		finish(2)
		return o.notes
	}
	var node *flyt.NodeBuilder
	switch cs.Build {
	case "options":
		var opts []any
		if cs.PrepR {
			opts = append(opts, flyt.WithPrepFunc(prepRes))
		} else {
			opts = append(opts, flyt.WithPrepFuncAny(prepAny))
		}
		if cs.ExecR {
			opts = append(opts, flyt.WithExecFunc(execRes))
		} else {
			opts = append(opts, flyt.WithExecFuncAny(execAny))
		}
		if cs.PostR {
			opts = append(opts, flyt.WithPostFunc(postRes))
		} else {
			opts = append(opts, flyt.WithPostFuncAny(postAny))
		}
		if cs.Retries > 0 {
			opts = append(opts, flyt.WithMaxRetries(cs.Retries))
		}
		if cs.FB {
			opts = append(opts, flyt.WithExecFallbackFunc(fbFn))
		}
		if cs.Conc > 0 {
			opts = append(opts, flyt.WithBatchConcurrency(cs.Conc), flyt.WithBatchErrorHandling(false))
		}
		node = flyt.NewNode(opts...)
	case "builder":
		node = flyt.NewNode()
		if cs.Retries > 0 {
			node = node.WithMaxRetries(cs.Retries)
		}
		if cs.FB {
			node = node.WithExecFallbackFunc(fbFn)
		}
		if cs.Conc > 0 {
			node = node.WithBatchConcurrency(cs.Conc).WithBatchErrorHandling(true)
		}
		if cs.PrepR {
			node = node.WithPrepFunc(prepRes)
		} else {
			node = node.WithPrepFuncAny(prepAny)
		}
		if cs.ExecR {
			node = node.WithExecFunc(execRes)
		} else {
			node = node.WithExecFuncAny(execAny)
		}
		if cs.PostR {
			node = node.WithPostFunc(postRes)
		} else {
			node = node.WithPostFuncAny(postAny)
		}
	default: // mixed: exec through an option, prep and post through the builder
		var opts []any
		if cs.ExecR {
			opts = append(opts, flyt.WithExecFunc(execRes))
		} else {
			opts = append(opts, flyt.WithExecFuncAny(execAny))
		}
		if cs.FB {
			opts = append(opts, flyt.WithExecFallbackFunc(fbFn))
		}
		node = flyt.NewNode(opts...)
		if cs.Retries > 0 {
			node = node.WithMaxRetries(cs.Retries)
		}
		if cs.Conc > 0 {
			node = node.WithBatchConcurrency(cs.Conc)
		}
		if cs.PrepR {
			node = node.WithPrepFunc(prepRes)
		} else {
			node = node.WithPrepFuncAny(prepAny)
		}
		if cs.PostR {
			node = node.WithPostFunc(postRes)
		} else {
			node = node.WithPostFuncAny(postAny)
		}
	}
	var run flyt.Node = node
	switch cs.Wrap { // the function node used through composition: the promoted / forwarded methods are the node's phases
	case "embed-builder":
		run = &struct{ *flyt.NodeBuilder }{node}
	case "embed-custom":
		run = &struct{ *flyt.CustomNode }{node.CustomNode}
	case "decorator":
		run = &fwdNode{BaseNode: flyt.NewBaseNode(flyt.WithMaxRetries(maxInt(1, cs.Retries))), inner: node}
	}
	if cs.Context == "flow" {
		visited := false
		probe := flyt.NewNode().WithExecFuncAny(func(ctx context.Context, v any) (any, error) { visited = true; return nil, nil })
		f := flyt.NewFlow(run).Connect(run, "next", probe)
		err := f.Run(runCtx, flyt.NewSharedStore())
		if cs.CancelInExec {
			// the flow is cut short after this node (C05); what matters here is what post was given
			if visited {
				add("flow-continued-after-cancel", "the next node ran although the context was cancelled")
			}
		} else {
			if err != nil {
				add("flow-run-error", "flow run failed: %v", err)
			}
			if !visited {
				add("flow-not-routed", "the node's action was not routed")
			}
		}
	} else {
		act, err := flyt.Run(runCtx, run, flyt.NewSharedStore())
		if err != nil || act != "next" {
			add("run-outcome", "run returned (%q, %v)", act, err)
		}
	}
	if !o.execSeen || !o.postSeen {
		add("phase-not-called:"+cs.Context, "exec called: %v, post called: %v", o.execSeen, o.postSeen)
	}
	finish(1)
	return o.notes
}

// fwdNode is a decorator: a node of its own that forwards its three phases to the function node it wraps.
type fwdNode struct {
	*flyt.BaseNode
	inner flyt.Node
}

func (n *fwdNode) Prep(ctx context.Context, s *flyt.SharedStore) (any, error) { return n.inner.Prep(ctx, s) }
func (n *fwdNode) Exec(ctx context.Context, p any) (any, error)               { return n.inner.Exec(ctx, p) }
func (n *fwdNode) Post(ctx context.Context, s *flyt.SharedStore, p, e any) (flyt.Action, error) {
	return n.inner.Post(ctx, s, p, e)
}

func rs(b bool) string {
	if b {
		return "Result"
	}
	return "Any"
}

func init() {
	register(&Engine{Prop: "C17", Doc: "function-style nodes pass values unchanged", Run: runC17, Replay: replayC17})
}

func runC17(c *Cfg) {
	runSpecial(c, "C17", "replaced-exec-style")
	runSpecial(c, "C17", "typed-struct-slice-items")
	r := c.Rep
	nz := len(zoo.Fixed())
	var cases []*FnCase
	for _, ctx := range []string{"single", "flow", "batch"} {
		for _, build := range []string{"options", "builder", "mixed"} {
			for st := 0; st < 8; st++ {
				for _, errRes := range []bool{false, true} {
					if errRes && st&2 == 0 {
						continue // only the Result-style exec function can return an error Result
					}
					if ctx == "batch" && (st&1 != 0 || st&4 != 0) {
						continue // batch prep/post have their own signatures: only the exec style varies
					}
					for p := 0; p < nz; p++ {
						cases = append(cases, &FnCase{Family: "grid", PrepR: st&1 != 0, ExecR: st&2 != 0, PostR: st&4 != 0, Build: build, Context: ctx, P: p, E: (p*7 + 3) % nz, ErrRes: errRes})
						if p%16 == 5 {
							wraps := []string{"embed-builder", "embed-custom", "decorator"}
							if ctx == "batch" {
								wraps = []string{"bare", "bare-in-flow", "bare-in-nested-flow", "builder-in-flow"}
							}
							for _, w := range wraps {
								cases = append(cases, &FnCase{Family: "grid-composition", PrepR: st&1 != 0, ExecR: st&2 != 0, PostR: st&4 != 0, Build: build, Context: ctx, P: p, E: (p*7 + 3) % nz, ErrRes: errRes, Wrap: w})
							}
						}
						if p%9 == 4 && !errRes && ctx != "batch" { // the fallback supplies a Result-style outcome
							cases = append(cases, &FnCase{Family: "grid-fallback-result", PrepR: st&1 != 0, ExecR: st&2 != 0, PostR: st&4 != 0, Build: build, Context: ctx, P: p, E: (p*7 + 3) % nz, FB: true, FBResult: true, Retries: 2 * (p % 2)})
						}
						if p%11 == 5 && !errRes && ctx != "batch" { // ... or an error Result: the run still succeeds and post sees that error state
							cases = append(cases, &FnCase{Family: "grid-fallback-error-result", PrepR: st&1 != 0, ExecR: st&2 != 0, PostR: st&4 != 0, Build: build, Context: ctx, P: p, E: (p*7 + 3) % nz, FB: true, FBResult: true, FBErrResult: true, Retries: 3 * (p % 2)})
						}
						if p%7 == 2 && ctx != "batch" { // the context is cancelled inside exec, exec returns normally
							cases = append(cases, &FnCase{Family: "grid-cancel-in-exec", PrepR: st&1 != 0, ExecR: st&2 != 0, PostR: st&4 != 0, Build: build, Context: ctx, P: p, E: (p*7 + 3) % nz, ErrRes: errRes, CancelInExec: true})
						}
						if p%5 == 1 && ctx != "batch" { // a batch concurrency on a plain function node is inert
							cases = append(cases, &FnCase{Family: "grid-conc", PrepR: st&1 != 0, ExecR: st&2 != 0, PostR: st&4 != 0, Build: build, Context: ctx, P: p, E: (p*7 + 3) % nz, ErrRes: errRes, Conc: 1 + p%3})
						}
						if p%6 == 0 { // retries configured and/or a fallback installed: exec still runs once, nothing is stripped
							for v := 1; v < 4; v++ {
								cases = append(cases, &FnCase{Family: "grid-retries", PrepR: st&1 != 0, ExecR: st&2 != 0, PostR: st&4 != 0, Build: build, Context: ctx, P: p, E: (p*7 + 3) % nz, ErrRes: errRes, Retries: 3 * (v & 1), FB: v&2 != 0})
							}
						}
					}
				}
			}
		}
	}
	parallel(c, len(cases), func(i int) {
		cs := cases[i]
		fs := runFnCase(cs)
		r.Eval()
		r.Count("context."+cs.Context, 1)
		if cs.ErrRes {
			r.Count("exec_returned_error_result", 1)
		}
		for _, f := range fs {
			r.Violate("C17", "C17:"+f.key, f.detail, cs)
		}
		r.Nontrivial(fmt.Sprintf("%v%v%v %s %s %d %v %d %v", cs.PrepR, cs.ExecR, cs.PostR, cs.Build, cs.Context, cs.P, cs.ErrRes, cs.Retries, cs.FB) + fmt.Sprint(cs.Conc, cs.CancelInExec, cs.FBResult))
		if cs.ErrRes && cs.P == 0 && r.SampleWanted("grid") {
			r.Sample("grid", cs)
		}
	})
	// large batches with distinguishable per-item outcomes: what exec returned for item i is what post finds at i
	var lb []*BigBatchCase
	for _, n := range []int{3, 64, 128, 200, 300, 1000} {
		for _, cc := range []int{0, 2, 8, 16} {
			for v := 0; v < 4; v++ {
				lb = append(lb, &BigBatchCase{Family: "batch-per-item-outcomes", N: n, C: cc, ExecR: v&1 != 0, Builder: v&2 != 0, FailEvery: []int{0, 7, 50}[(n+cc+v)%3], FailAs: []string{"error", "error-result"}[(n/64+v)%2]})
			}
		}
	}
	// sequential batches that end early (stop mode after a failure; cancellation inside an item): what was executed
	// before keeps exactly the outcome exec returned, nil values included
	for _, n := range []int{1, 2, 3} { // tiny batches whose every item hands back an error Result / fails: the slot is what exec returned, at every size and concurrency
		for _, cc := range []int{0, 1, 4} {
			for v := 0; v < 4; v++ {
				lb = append(lb, &BigBatchCase{Family: "batch-per-item-outcomes", N: n, C: cc, ExecR: true, Builder: v&1 != 0, FailAll: true, FailAs: []string{"error-result", "error"}[v/2]})
				lb = append(lb, &BigBatchCase{Family: "batch-per-item-outcomes", N: n, C: cc, ExecR: true, Builder: v&1 != 0, FailAll: true, FailAs: "error-then-error-result", Retries: 2 + v/2})
			}
		}
	}
	for _, n := range []int{6, 20, 70} { // error Results among the items prep returns
		for _, cc := range []int{0, 1, 3} {
			for v := 0; v < 4; v++ {
				lb = append(lb, &BigBatchCase{Family: "batch-per-item-outcomes", N: n, C: cc, ExecR: v&1 != 0, Builder: v&2 != 0, FailEvery: 11, FailAs: "error", ErrItemEvery: 5})
				lb = append(lb, &BigBatchCase{Family: "batch-per-item-outcomes", N: n, C: cc, ExecR: v&1 != 0, PrepAny: v&2 != 0, Builder: true, FailEvery: []int{0, 3}[v%2], FailAs: []string{"error", "error-result"}[v/2%2], PostAppends: true}) // what post does with its item list never touches the results
				lb = append(lb, &BigBatchCase{Family: "batch-per-item-outcomes", N: n, C: cc, ExecR: true, Builder: v&2 != 0, FailEvery: 4, FailAs: "error-then-error-result", Retries: 2 + v%2}) // an error Result handed back on a retry is the item's outcome as it is
			}
		}
	}
	for _, n := range []int{4, 9, 40} {
		for v := 0; v < 4; v++ {
			lb = append(lb, &BigBatchCase{Family: "batch-per-item-outcomes", N: n, C: 0, ExecR: v&1 != 0, Builder: v&2 != 0, FailEvery: 7, FailAs: "error", Stop: true, NilEvery: 2})
			lb = append(lb, &BigBatchCase{Family: "batch-per-item-outcomes", N: n, C: 0, ExecR: v&1 != 0, Builder: v&2 != 0, FailAs: "error", Stop: v%2 == 0, NilEvery: 2, CancelAt: n - 2})
		}
	}
	parallel(c, len(lb), func(i int) {
		cs := lb[i]
		fs := runBigBatchCase(cs)
		r.Eval()
		r.Count("context.batch-large", 1)
		for _, f := range fs {
			r.Violate("C17", "C17:"+f.key, f.detail, cs)
		}
		r.Nontrivial(fmt.Sprintf("big %d %d %v %v %d %s", cs.N, cs.C, cs.ExecR, cs.Builder, cs.FailEvery, cs.FailAs))
	})
	// the same batch node object run several times; prep hands back the SAME backing slice with new contents each time
	// (a work list that is refilled in place): exec receives what prep returned in THIS run
	for v := 0; v < 16; v++ {
		rc := &ReuseCase{Family: "batch-node-reused-with-refilled-list", PrepAny: v&1 != 0, ExecR: v&2 != 0, C: []int{0, 3}[v>>2&1], ViaFlowLoop: v&8 != 0}
		fs := runReuseCase(rc)
		r.Eval()
		r.Count("context.batch-reused", 1)
		for _, f := range fs {
			r.Violate("C17", "C17:"+f.key, f.detail, rc)
		}
		r.Nontrivial(fmt.Sprintf("reuse %v %v %d %v", rc.PrepAny, rc.ExecR, rc.C, rc.ViaFlowLoop))
	}
	r.Exhaustive = true
	r.Note(fmt.Sprintf("style x construction x context x error-result grid enumerated completely over %d zoo payloads: %d cases", nz, len(cases)))
}

// ReuseCase: one batch node object, three passes, the work list refilled in place between passes.
type ReuseCase struct {
	Family      string `json:"family"`
	PrepAny     bool   `json:"prep_any"` // prep through the constructor option (returns []any) instead of the builder method ([]Result)
	ExecR       bool   `json:"exec_r"`
	C           int    `json:"c"`
	ViaFlowLoop bool   `json:"via_flow_loop"` // the passes are visits of a flow self-loop instead of separate flyt.Run calls
}

func runReuseCase(cs *ReuseCase) (fs []finding) {
	add := func(key, f string, a ...any) {
		if len(fs) < 3 {
			fs = append(fs, finding{key, fmt.Sprintf(f, a...)})
		}
	}
	defer func() {
		if pn := recover(); pn != nil {
			fs = append(fs, finding{"panic:batch-reused", fmt.Sprint(pn)})
		}
	}()
	const n = 5
	listAny := make([]any, n)
	listRes := make([]flyt.Result, n)
	pass := 0
	var mu sync.Mutex
	got := map[int][]int{} // pass -> values exec received
	var postItems [][]int
	fill := func() {
		pass++
		for i := 0; i < n; i++ {
			listAny[i] = pass*100 + i
			listRes[i] = flyt.NewResult(pass*100 + i)
		}
	}
	execAny := func(ctx context.Context, v any) (any, error) {
		mu.Lock()
		x, isInt := v.(int)
		if !isInt {
			x = -1 // (not an item's value: shows up in the comparison below)
		}
		got[pass] = append(got[pass], x)
		mu.Unlock()
		return v, nil
	}
	execRes := func(ctx context.Context, it flyt.Result) (flyt.Result, error) {
		v, err := execAny(ctx, it.Value())
		return flyt.NewResult(v), err
	}
	var opts []any
	if cs.PrepAny {
		opts = append(opts, flyt.WithPrepFuncAny(func(ctx context.Context, s *flyt.SharedStore) (any, error) { fill(); return listAny, nil }))
	}
	bn := flyt.NewBatchNode(opts...).WithBatchConcurrency(cs.C)
	if !cs.PrepAny {
		bn = bn.WithPrepFunc(func(ctx context.Context, s *flyt.SharedStore) ([]flyt.Result, error) { fill(); return listRes, nil })
	}
	if cs.ExecR {
		bn = bn.WithExecFunc(execRes)
	} else {
		bn = bn.WithExecFuncAny(execAny)
	}
	bn = bn.WithPostFunc(func(ctx context.Context, s *flyt.SharedStore, items, results []flyt.Result) (flyt.Action, error) {
		var vs []int
		for _, it := range items {
			if x, ok := it.Value().(int); ok {
				vs = append(vs, x)
			}
		}
		postItems = append(postItems, vs)
		if len(postItems) < 3 {
			return "again", nil
		}
		return "done", nil
	})
	if cs.ViaFlowLoop {
		f := flyt.NewFlow(bn)
		f.Connect(bn, "again", bn)
		if err := f.Run(context.Background(), flyt.NewSharedStore()); err != nil {
			add("batch-run-error", "flow failed: %v", err)
			return
		}
	} else {
		for k := 0; k < 3; k++ {
			if _, err := flyt.Run(context.Background(), bn, flyt.NewSharedStore()); err != nil {
				add("batch-run-error", "run %d failed: %v", k, err)
				return
			}
		}
	}
	for p := 1; p <= 3; p++ {
		vs := append([]int(nil), got[p]...)
		sort.Ints(vs)
		want := []int{p * 100, p*100 + 1, p*100 + 2, p*100 + 3, p*100 + 4}
		if fmt.Sprint(vs) != fmt.Sprint(want) {
			add("batch-reused-exec-arg", "pass %d of the same batch node: prep returned %v (the same list, refilled in place), exec received %v", p, want, vs)
		}
		if p-1 < len(postItems) && fmt.Sprint(postItems[p-1]) != fmt.Sprint(want) {
			add("batch-reused-post-items", "pass %d: prep returned %v, post received the items %v", p, want, postItems[p-1])
		}
	}
	return
}

// BigBatchCase: n items with distinguishable outcomes, some of them failing.
type BigBatchCase struct {
	Family    string `json:"family"`
	N         int    `json:"n"`
	C         int    `json:"c"`
	ExecR     bool   `json:"exec_r"`
	Builder   bool   `json:"builder"`
	FailEvery int    `json:"fail_every"` // > 0: items i with i%FailEvery == 3 fail
	FailAs    string `json:"fail_as"`    // "error": (_, err); "error-result": Result-style exec returns (NewErrorResult(err), nil)
	Big       bool   `json:"big"`
	Stop      bool   `json:"stop,omitempty"`      // stop-on-error mode (sequential cases only: what was executed before the failure keeps its outcome)
	NilEvery  int    `json:"nil_every,omitempty"` // > 0: items i with i%NilEvery == 1 succeed with a nil value
	ErrItemEvery int `json:"err_item_every,omitempty"` // > 0: items i with i%ErrItemEvery == 4 arrive from prep as error Results: still items — exec is called for them and its outcome is their result
	FailAll     bool `json:"fail_all,omitempty"`     // every item fails (tiny batches: 1..3 items)
	PrepAny     bool `json:"prep_any,omitempty"`     // prep through the constructor option (WithPrepFuncAny), returning a plain list instead of []Result
	PostAppends bool `json:"post_appends,omitempty"` // post appends to the item list it was handed before it reads the results
	Retries   int    `json:"retries,omitempty"`   // > 0: per-item retry budget; FailAs "error-then-error-result": a failing item's first attempt returns (_, err), its later attempts (NewErrorResult(err), nil)
	CancelAt  int    `json:"cancel_at,omitempty"` // > 0: the context is cancelled inside the exec of this item (sequential cases only)
}

type bigErr struct{ I int }

func (e *bigErr) Error() string { return fmt.Sprintf("item %d fails", e.I) }

func runBigBatchCase(cs *BigBatchCase) (fs []finding) {
	add := func(key, f string, a ...any) {
		if len(fs) < 3 {
			fs = append(fs, finding{key, fmt.Sprintf(f, a...)})
		}
	}
	defer func() {
		if pn := recover(); pn != nil {
			fs = append(fs, finding{"panic:batch-large", fmt.Sprint(pn)})
		}
	}()
	// a finding made inside a callback (which may run on a pool worker, where a panic of the harness's own would end the process)
	var cbMu sync.Mutex
	var cbFinding *finding
	noteCB := func(key, f string, a ...any) {
		cbMu.Lock()
		if cbFinding == nil {
			cbFinding = &finding{key, fmt.Sprintf(f, a...)}
		}
		cbMu.Unlock()
	}
	defer func() {
		cbMu.Lock()
		if cbFinding != nil {
			fs = append([]finding{*cbFinding}, fs...)
		}
		cbMu.Unlock()
	}()
	errItem := func(i int) bool { return cs.ErrItemEvery > 0 && i%cs.ErrItemEvery == 4 }
	fails := func(i int) bool { return (cs.FailAll || (cs.FailEvery > 0 && i%cs.FailEvery == 3)) && !errItem(i) }
	outs := make([]*int, cs.N) // what exec returned for item i (a fresh pointer per item)
	errOuts := make([]error, cs.N) // the error inside the error Result exec handed back for item i
	attempts := make([]int, cs.N)
	nilOut := func(i int) bool { return cs.NilEvery > 0 && i%cs.NilEvery == 1 && !fails(i) && !errItem(i) }
	ctx, cancel := context.WithCancel(context.Background())
	defer cancel()
	prepB := func(ctx context.Context, s *flyt.SharedStore) ([]flyt.Result, error) {
		rs := make([]flyt.Result, cs.N)
		for i := range rs {
			rs[i] = flyt.NewResult(i)
			if errItem(i) {
				rs[i] = flyt.NewErrorResult(&bigErr{-i - 1}) // carries its index in the error
			}
		}
		return rs, nil
	}
	var errItemCalls atomic.Int64
	execAny := func(ctx context.Context, v any) (any, error) {
		if v == nil { // an error-Result item as the Any style sees it
			errItemCalls.Add(1)
			return "handled-error-item", nil
		}
		i, isInt := v.(int)
		if !isInt || i < 0 || i >= cs.N {
			noteCB("batch-large-exec-arg", "the Any-style exec function of a batch over the items 0..%d received %T (%.60v) instead of an item's value", cs.N-1, v, v)
			return nil, fmt.Errorf("not an item")
		}
		if cs.CancelAt > 0 && i == cs.CancelAt {
			cancel()
		}
		if fails(i) {
			return nil, &bigErr{i}
		}
		if nilOut(i) {
			return nil, nil
		}
		p := new(int)
		*p = i
		outs[i] = p
		return p, nil
	}
	execRes := func(ctx context.Context, it flyt.Result) (flyt.Result, error) {
		if it.IsError() {
			errItemCalls.Add(1)
			return flyt.NewResult("handled-error-item"), nil
		}
		i, isInt := it.Value().(int)
		if !isInt || i < 0 || i >= cs.N {
			noteCB("batch-large-exec-arg", "the Result-style exec function of a batch over the items 0..%d received a Result holding %T (%.60v) instead of an item's value", cs.N-1, it.Value(), it.Value())
			return flyt.Result{}, fmt.Errorf("not an item")
		}
		if fails(i) {
			attempts[i]++ // (one item is processed by one goroutine at a time)
			if cs.FailAs == "error-result" || (cs.FailAs == "error-then-error-result" && attempts[i] > 1) {
				e := &bigErr{i}
				errOuts[i] = e
				return flyt.NewErrorResult(e), nil // an error RESULT handed back with a nil error: the item's outcome, as it is
			}
			return flyt.Result{}, &bigErr{i}
		}
		if cs.CancelAt > 0 && i == cs.CancelAt {
			cancel()
		}
		if nilOut(i) {
			return flyt.Result{}, nil
		}
		p := new(int)
		*p = i
		outs[i] = p
		return flyt.NewResult(p), nil
	}
	var bn *flyt.BatchNodeBuilder
	if cs.Builder {
		bn = flyt.NewBatchNode().WithBatchConcurrency(cs.C).WithPrepFunc(prepB)
		if cs.ExecR {
			bn = bn.WithExecFunc(execRes)
		} else {
			bn = bn.WithExecFuncAny(execAny)
		}
	} else {
		opts := []any{flyt.WithBatchConcurrency(cs.C)}
		if cs.ExecR {
			opts = append(opts, flyt.WithExecFunc(execRes))
		} else {
			opts = append(opts, flyt.WithExecFuncAny(execAny))
		}
		bn = flyt.NewBatchNode(opts...).WithPrepFunc(prepB)
	}
	if cs.PrepAny { // the prep function through the constructor option, handing over a plain []any / []int
		prepAny := flyt.WithPrepFuncAny(func(ctx context.Context, s *flyt.SharedStore) (any, error) {
			if cs.N%2 == 0 {
				l := make([]int, cs.N)
				for i := range l {
					l[i] = i
				}
				return l, nil
			}
			l := make([]any, cs.N)
			for i := range l {
				l[i] = i
			}
			return l, nil
		})
		opts := []any{flyt.WithBatchConcurrency(cs.C), prepAny}
		if cs.ExecR {
			opts = append(opts, flyt.WithExecFunc(execRes))
		} else {
			opts = append(opts, flyt.WithExecFuncAny(execAny))
		}
		bn = flyt.NewBatchNode(opts...)
	}
	if cs.Stop {
		bn = bn.WithBatchErrorHandling(false)
	}
	if cs.Retries > 0 {
		bn = bn.WithMaxRetries(cs.Retries)
	}
	var slots []flyt.Result
	posts := 0
	bn = bn.WithPostFunc(func(ctx context.Context, s *flyt.SharedStore, items, results []flyt.Result) (flyt.Action, error) {
		posts++
		if cs.PostAppends {
			// post extends the item list it was handed (a slice of its own as far as it can tell) before it looks at the results
			items = append(items, flyt.NewResult("appended by post"), flyt.NewResult("and another"))
			_ = items
		}
		slots = results
		return "next", nil
	})
	if _, err := flyt.Run(ctx, bn, flyt.NewSharedStore()); err != nil {
		if cs.CancelAt > 0 && errors.Is(err, context.Canceled) {
			return // a cancelled batch may report the context's error instead of calling post
		}
		add("batch-run-error", "batch run failed: %v", err)
		return
	}
	limit := cs.N // items below this index were executed for certain
	if cs.Stop || cs.CancelAt > 0 {
		for i := 0; i < cs.N; i++ {
			if (cs.Stop && fails(i)) || (cs.CancelAt > 0 && i == cs.CancelAt) {
				limit = i + 1
				break
			}
		}
	}
	if posts != 1 || len(slots) != cs.N {
		add("batch-large-slots", "post called %d times with %d results for %d items", posts, len(slots), cs.N)
		return
	}
	for i, sl := range slots {
		if i >= limit {
			break
		}
		if errItem(i) {
			if sl.IsError() || sl.Value() != any("handled-error-item") {
				add("batch-error-item-not-executed", "item %d of %d arrived from prep as an error Result (concurrency %d): post received for it %s (IsError=%v), exec would have returned \"handled-error-item\" — exec was called %d times for such items", i, cs.N, cs.C, zoo.Describe(sl.Value()), sl.IsError(), errItemCalls.Load())
			}
			continue
		}
		if nilOut(i) {
			if sl.IsError() || sl.Value() != nil {
				what := zoo.Describe(sl.Value())
				if sl.IsError() {
					what = "error: " + sl.Error().Error()
				}
				add("batch-nil-outcome-replaced", "exec returned a nil value without error for item %d of %d (concurrency %d, stop mode %v, cancelled inside item %d: %v); post received for it %s — not what exec returned", i, cs.N, cs.C, cs.Stop, cs.CancelAt, cs.CancelAt > 0, what)
			}
			continue
		}
		if fails(i) {
			var be *bigErr
			if !sl.IsError() || !errors.As(sl.Error(), &be) || be.I != i {
				add("batch-large-slot-error", "exec failed for item %d of %d (concurrency %d); post received for it %s (IsError=%v) — not the outcome exec returned for that item", i, cs.N, cs.C, zoo.Describe(sl.Value()), sl.IsError())
			} else if cs.ExecR && errOuts[i] != nil && sl.Error() != errOuts[i] {
				add("batch-error-result-rewrapped", "exec handed back an error Result for item %d of %d (with a nil error, on attempt %d of %d permitted); the Result post received for it is an error, but its error %q is not the error value exec put into its Result (%q): the outcome was wrapped again", i, cs.N, attempts[i], maxInt(1, cs.Retries), sl.Error(), errOuts[i])
			}
			continue
		}
		if sl.IsError() || sl.Value() != any(outs[i]) {
			what := zoo.Describe(sl.Value())
			if p, ok := sl.Value().(*int); ok && p != nil {
				what = fmt.Sprintf("the value exec returned for item %d", *p)
			} else if sl.IsError() {
				what = "error: " + sl.Error().Error()
			}
			add("batch-large-slot-value", "post received for item %d of %d (concurrency %d): %s — not the value exec returned for that item", i, cs.N, cs.C, what)
		}
	}
	return
}

func replayC17(c *Cfg, spec json.RawMessage) {
	var rc ReuseCase
	if json.Unmarshal(spec, &rc) == nil && rc.Family == "batch-node-reused-with-refilled-list" {
		for _, f := range runReuseCase(&rc) {
			fmt.Printf(" * finding %s: %s\n", f.key, f.detail)
			c.Rep.Violate("C17", "C17:"+f.key, f.detail, rc)
		}
		return
	}
	var big BigBatchCase
	if json.Unmarshal(spec, &big) == nil && big.Family == "batch-per-item-outcomes" {
		for _, f := range runBigBatchCase(&big) {
			fmt.Printf(" * finding %s: %s\n", f.key, f.detail)
			c.Rep.Violate("C17", "C17:"+f.key, f.detail, big)
		}
		return
	}
	var cs FnCase
	if err := json.Unmarshal(spec, &cs); err != nil {
		fmt.Println("cannot parse:", err)
		return
	}
	for _, f := range runFnCase(&cs) {
		fmt.Printf(" * finding %s: %s\n", f.key, f.detail)
		c.Rep.Violate("C17", "C17:"+f.key, f.detail, cs)
	}
}
