package engines

import (
	"encoding/json"
	"fmt"
	"strings"

	"verif/harness/internal/scen"
)

// diffNestedFlat compares the nested arrangement with its flattened equivalent, run by run.
func diffNestedFlat(sc *scen.Scenario) (fs []scen.Finding, nested, flat []scen.Outcome, mrs []scen.ModelRun, proxies int) {
	xn := scen.NewExec(sc)
	xf, np := scen.NewFlatExec(sc)
	m := scen.NewModel(sc)
	proxies = np
	runs := sc.Runs
	if runs < 1 {
		runs = 1
	}
	for i := 0; i < runs; i++ {
		on, of, mr := xn.RunOnce(), xf.RunOnce(), m.Run()
		nested, flat, mrs = append(nested, on), append(flat, of), append(mrs, mr)
		add := func(key, f string, a ...any) {
			fs = append(fs, scen.Finding{Prop: "C10", Key: key, Detail: fmt.Sprintf("run %d: ", i) + fmt.Sprintf(f, a...)})
		}
		if on.Panic != "" || of.Panic != "" {
			add("panic", "panic nested=%q flat=%q", on.Panic, of.Panic)
			continue
		}
		if on.Runaway != of.Runaway {
			add("runaway", "one arrangement terminates, the other does not (nested runaway=%v, flat runaway=%v)", on.Runaway, of.Runaway)
			continue
		}
		kn, kf := strings.Join(keysOf(on.Events), " "), strings.Join(keysOf(of.Events), " ")
		if kn != kf {
			if len(kn) > 400 {
				kn = kn[:400] + "…"
			}
			if len(kf) > 400 {
				kf = kf[:400] + "…"
			}
			add("visit-order", "nested and flattened executions differ in the callbacks they make:\n nested: %s\n flat  : %s", kn, kf)
		}
		if strings.Join(on.Store, " ") != strings.Join(of.Store, " ") {
			add("store", "store contents differ: nested %v, flat %v", on.Store, of.Store)
		}
		if on.ErrNil != of.ErrNil || on.ErrID != of.ErrID {
			add("outcome-error", "final outcome differs: nested err=%q (matches %q), flat err=%q (matches %q)", on.ErrText, on.ErrID, of.ErrText, of.ErrID)
		} else if on.ErrNil && on.Action != of.Action {
			add("outcome-action", "final action differs: nested %q, flat %q", on.Action, of.Action)
		}
		// inner nodes must see the parent's store
		for k, e := range on.Events {
			if (e.Phase == "prep" || e.Phase == "post") && !e.StoreOK && k < len(mr.Depths) && mr.Depths[k] >= 2 {
				add("inner-store", "node %d inside an embedded flow (depth %d) received a store other than its parent's", e.Node, mr.Depths[k])
				break
			}
		}
		// the reference interpreter with native nesting
		for _, f := range scen.Judge(sc, &mr, &on) {
			if f.Prop == "C10" {
				fs = append(fs, scen.Finding{Prop: "C10", Key: f.Key, Detail: fmt.Sprintf("run %d: %s", i, f.Detail)})
			}
			if f.Prop == "C03" && f.Key == "path" {
				// routing of the nested arrangement deviates from the model: nesting is at fault iff the flat arrangement agrees with the model
				flatOK := true
				for _, g := range scen.Judge(sc, &mr, &of) {
					if g.Prop == "C03" && g.Key == "path" {
						flatOK = false
					}
				}
				if flatOK {
					add("nested-path", "%s (the flattened arrangement follows the expected path)", f.Detail)
				}
			}
		}
	}
	return
}

// runC10Retries: an embedded flow with a retry budget on its own BaseNode is retried like a node (its path is run
// again from its start); decided against the reference interpreter, which models exactly that.
func runC10Retries(c *Cfg) {
	r := c.Rep
	n := c.Pick(3000, 60000)
	parallel(c, n, func(i int) {
		rg := c.Rng("c10retry", i)
		var sc *scen.Scenario
		for try := 0; try < 20; try++ {
			sc = scen.GenFlowScenario(rg, scen.GenOpts{MaxNodes: 6, MaxActions: 3, MaxDepth: 3, Failures: true, MaxVisits: 4})
			if sc.MaxNesting() >= 2 {
				break
			}
		}
		sc.Rewire = nil
		any := false
		for id := range sc.Nodes {
			if sc.Nodes[id].Kind == scen.KFlow && id != sc.Root && rg.IntN(2) == 0 {
				sc.Nodes[id].Flow.Retries = 2 + rg.IntN(2)
				any = true
			}
		}
		if !any {
			return
		}
		// failures inside the hierarchy so that retries have something to do
		for k := 0; k < 1+rg.IntN(2); k++ {
			failSomewhere(rg.IntN(1<<30), sc)
		}
		outs, mrs := runScenario(sc)
		r.EvalN(int64(len(outs)))
		for k := range outs {
			for _, f := range scen.Judge(sc, &mrs[k], &outs[k]) {
				if f.Prop == "C03" && (f.Key == "path" || f.Key == "store-log" || f.Key == "run-failed" || f.Key == "runaway") {
					r.Violate("C10", "C10:retried-inner-flow:"+f.Key, fmt.Sprintf("run %d: an embedded flow with a retry budget on its BaseNode must be retried like a node: %s", k, f.Detail), ScenCase{"flow-retries", sc})
				}
				if f.Prop == "C10" {
					r.Violate("C10", "C10:"+f.Key, f.Detail, ScenCase{"flow-retries", sc})
				}
			}
		}
		r.Count("flow_retries.hierarchies", 1)
		r.Nontrivial("fr:" + scenSig(sc))
	})
}

// runC10Dwell: the context is cancelled while a node deep inside nested flows is busy (and stays busy for 120 ms
// without looking at the context). A flat flow necessarily waits for the node it is running; the nested arrangement
// must not return any earlier — nothing of the run may still be executing when Run returns.
func runC10Dwell(c *Cfg) {
	r := c.Rep
	n := c.Pick(48, 600)
	parallelN(c, n, 48, func(i int) {
		rg := c.Rng("c10dwell", i)
		var sc *scen.Scenario
		for try := 0; try < 30; try++ {
			sc = scen.GenFlowScenario(rg, scen.GenOpts{MaxNodes: 6, MaxActions: 3, MaxDepth: 4, MaxVisits: 3})
			if sc.MaxNesting() >= 2 {
				break
			}
		}
		sc.Rewire, sc.Runs = nil, 1
		path, mr := modelPath(sc)
		if mr.Trunc || len(path) == 0 {
			return
		}
		// pick a callback of a node that sits at nesting depth >= 1
		var cands []int
		for ki, d := range mr.Depths {
			if d >= 2 {
				cands = append(cands, ki)
			}
		}
		if len(cands) == 0 {
			return
		}
		sc.Inject = scen.Inject{Kind: "cancel-dwell", At: cands[rg.IntN(len(cands))]}
		o := scen.NewExec(sc).RunOnce()
		r.EvalN(1)
		r.Count("dwell.cases", 1)
		if o.CancelSeq >= 0 {
			r.Nontrivial("dwell:" + scenSig(sc))
		}
		if o.ReturnedDuringCallback {
			r.Violate("C10", "C10:returned-while-inner-node-running", fmt.Sprintf("the context was cancelled while callback #%d (a node inside a nested flow) was executing; Run returned (%q) while that callback was still running — a flat flow cannot return before the node it is running has returned", sc.Inject.At, o.ErrText), ScenCase{"cancel-while-inner-node-busy", sc})
		}
	})
}

// runC10SelfLoopEnd: an inner flow that ends straight out of a self-loop presents the action of its LAST node visit.
func runC10SelfLoopEnd(c *Cfg) {
	r := c.Rep
	cases := selfLoopThenEndCases()
	cases = append(cases, selfEmbeddedCases()...)     // a flow nested in itself unwinds level by level
	cases = append(cases, startlessBranchCases()...) // an inner flow without start node that is never entered has no say
	cases = append(cases, lateInnerEdgeCases()...)    // an inner flow that gets a node's first edge after it was wired into its parent
	parallel(c, len(cases), func(i int) {
		sc := cases[i]
		outs, mrs := runScenario(sc)
		r.EvalN(int64(len(outs)))
		for k := range outs {
			for _, f := range scen.Judge(sc, &mrs[k], &outs[k]) {
				if f.Prop == "C10" || (f.Prop == "C03" && (f.Key == "path" || f.Key == "store-log")) {
					r.Violate("C10", "C10:self-loop-then-end:"+f.Key, fmt.Sprintf("nested-flow arrangement (inner flow ending after a self-loop / embedded in itself / without a start node on an untaken branch / extended after it was wired in): the inner flow runs its own path to its end and the parent routes on the action of its last visit: %s", f.Detail), ScenCase{"self-loop-then-end", sc})
				}
			}
		}
		r.Count("self_loop_then_end.cases", 1)
		r.Nontrivial("slte:" + scenSig(sc))
	})
}

func runC10(c *Cfg) {
	runSpecial(c, "C10", "startless-inner-flow-with-edges")
	runSpecial(c, "C10", "cycle-through-retried-inner-flow")
	r := c.Rep
	defer func() {
		ll := longLoopCases()
		parallel(c, len(ll), func(i int) {
			fs, nested, _, _, _ := diffNestedFlat(ll[i])
			r.EvalN(int64(2 * len(nested)))
			for _, f := range fs {
				r.Violate("C10", "C10:"+f.Key, "run of more than a thousand node visits: "+f.Detail, ScenCase{"nested-vs-flat", ll[i]})
			}
			r.Count("long_loops.cases", 1)
			r.HighWater("long_loops.callbacks", int64(len(nested[0].Events)))
			r.Nontrivial("ll:" + scenSig(ll[i]))
		})
	}()
	defer runC10Retries(c)
	defer runC10Dwell(c)
	defer runC10SelfLoopEnd(c)
	nr := c.Pick(20000, 1000000)
	parallel(c, nr, func(i int) {
		rg := c.Rng("c10", i)
		var sc *scen.Scenario
		for try := 0; try < 20; try++ {
			sc = scen.GenFlowScenario(rg, scen.GenOpts{MaxNodes: 8, MaxActions: 4, MaxDepth: 4, Failures: i%2 == 0, MaxVisits: 3})
			if sc.MaxNesting() >= 2 {
				break
			}
		}
		sc.Rewire = nil // the flattened twin is built once; Connect calls between runs are C03's
		if i%4 == 0 {
			failSomewhere(rg.IntN(1<<30), sc) // inner flows ending by error
			ek := errKindCycle[(i/4)%len(errKindCycle)] // ... of every kind: the error that comes out of the nested arrangement is the one the flat one gives
			for n := range sc.Nodes {
				sc.Nodes[n].ErrKind = ek
			}
		}
		fs, nested, _, mrs, proxies := diffNestedFlat(sc)
		r.EvalN(int64(2 * len(nested)))
		for _, f := range fs {
			r.Violate("C10", "C10:"+f.Key, f.Detail, ScenCase{"nested-vs-flat", sc})
		}
		r.Count("hierarchies", 1)
		r.Count(fmt.Sprintf("nesting_depth.%d", sc.MaxNesting()), 1)
		r.HighWater("flat.proxies", int64(proxies))
		inner := 0
		for k := range nested {
			for _, d := range mrs[k].Depths {
				if d >= 2 {
					inner++
				}
			}
			if !nested[k].ErrNil {
				r.Count("runs.ending_in_error", 1)
			}
		}
		r.Count("callbacks.inside_embedded_flows", int64(inner))
		if inner > 0 {
			r.Nontrivial(scenSig(sc))
		}
		if inner >= 6 && sc.MaxNesting() >= 3 && r.SampleWanted("hier") {
			r.Sample("hier", map[string]any{"scenario": sc, "nested_path": nested[0].Store, "flat_proxies": proxies})
		}
	})
}

func replayC10(c *Cfg, spec json.RawMessage) {
	var cs ScenCase
	if err := json.Unmarshal(spec, &cs); err != nil || cs.Scenario == nil {
		fmt.Println("cannot parse case:", err)
		return
	}
	if cs.Family == "cancel-while-inner-node-busy" {
		o := scen.NewExec(cs.Scenario).RunOnce()
		fmt.Printf("inject %+v: err=%q returned while the callback was still running: %v\n", cs.Scenario.Inject, o.ErrText, o.ReturnedDuringCallback)
		if o.ReturnedDuringCallback {
			c.Rep.Violate("C10", "C10:returned-while-inner-node-running", "Run returned while a node inside a nested flow was still executing", cs)
		}
		return
	}
	if cs.Family == "self-loop-then-end" {
		outs, mrs := runScenario(cs.Scenario)
		for k := range outs {
			fmt.Printf("--- run %d\nmodel : %v action=%q\nnested: %v action=%q err=%q\n", k, mrs[k].Keys, mrs[k].Action, keysOf(outs[k].Events), outs[k].Action, outs[k].ErrText)
			for _, f := range scen.Judge(cs.Scenario, &mrs[k], &outs[k]) {
				if f.Prop == "C10" || (f.Prop == "C03" && (f.Key == "path" || f.Key == "store-log")) {
					fmt.Printf(" * finding %s %s: %s\n", f.Prop, f.Key, f.Detail)
					c.Rep.Violate("C10", "C10:self-loop-then-end:"+f.Key, f.Detail, cs)
				}
			}
		}
		return
	}
	if cs.Family == "flow-retries" {
		outs, mrs := runScenario(cs.Scenario)
		for k := range outs {
			fmt.Printf("--- run %d\nmodel : %v action=%q err=%q\nnested: %v action=%q err=%q\n", k, mrs[k].Keys, mrs[k].Action, mrs[k].ErrID, keysOf(outs[k].Events), outs[k].Action, outs[k].ErrText)
			for _, f := range scen.Judge(cs.Scenario, &mrs[k], &outs[k]) {
				if f.Prop == "C03" || f.Prop == "C10" {
					fmt.Printf(" * finding %s %s: %s\n", f.Prop, f.Key, f.Detail)
					c.Rep.Violate("C10", "C10:retried-inner-flow:"+f.Key, f.Detail, cs)
				}
			}
		}
		return
	}
	fs, nested, flat, mrs, _ := diffNestedFlat(cs.Scenario)
	for i := range nested {
		fmt.Printf("--- run %d\nmodel : %v action=%q err=%q\nnested: %v action=%q err=%q\nflat  : %v action=%q err=%q\n", i, mrs[i].Keys, mrs[i].Action, mrs[i].ErrID,
			keysOf(nested[i].Events), nested[i].Action, nested[i].ErrText, keysOf(flat[i].Events), flat[i].Action, flat[i].ErrText)
	}
	for _, f := range fs {
		fmt.Printf(" * finding %s: %s\n", f.Key, f.Detail)
		c.Rep.Violate("C10", "C10:"+f.Key, f.Detail, cs)
	}
}
