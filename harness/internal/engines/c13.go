package engines

import (
	"encoding/json"
	"fmt"
	"runtime"
	"sort"
	"strings"
	"sync"
	"sync/atomic"
	"time"

	"github.com/anishathalye/porcupine"

	"verif/harness/internal/quiesce"
	flyt "github.com/mark3labs/flyt"
)

const linKeys = 4 // key space of the linearizability histories

// store operations of the model
const (
	opSet = iota
	opGet
	opHas
	opDelete
	opLen
	opKeys
	opGetAll
	opMerge
	opClear
	opGetInt
	opGetIntOr
	opGetString
	opGetStringOr
	opGetFloat
	opBindInt
	opGetSlice
	opGetFloatOr
	opGetSliceOr
	opBindFloat
	numLinOps
)

var linOpNames = []string{"Set", "Get", "Has", "Delete", "Len", "Keys", "GetAll", "Merge", "Clear", "GetInt", "GetIntOr", "GetString", "GetStringOr", "GetFloat64", "Bind", "GetSlice", "GetFloat64Or", "GetSliceOr", "Bind(*float64)"}

type linState [linKeys]int64 // 0 = absent, otherwise the unique code of the value

type linIn struct {
	Op   int   `json:"op"`
	Key  int   `json:"key"`
	Mask int   `json:"mask,omitempty"` // Merge: which keys
	Val  int64 `json:"val,omitempty"`  // unique value code
	// Merge only: per-key values that override Val — the client re-writes values it has seen before (so a Merge
	// may carry entries equal to what the store already holds, next to new ones)
	Vals   linState `json:"vals,omitempty"`
	Reseen bool     `json:"reseen,omitempty"`
}

type linOut struct {
	V    int64    `json:"v,omitempty"`
	OK   bool     `json:"ok,omitempty"`
	N    int      `json:"n,omitempty"`
	Mask int      `json:"mask,omitempty"`
	Vals linState `json:"vals,omitempty"`
	S    string   `json:"s,omitempty"`
}

// value representation: codes divisible by 4 are stored as strings, others as ints, so the typed getters have something to distinguish
func linRepr(code int64) any {
	switch code % 4 {
	case 0:
		return fmt.Sprintf("s%d", code)
	case 3:
		return []int{int(code)} // a typed slice
	}
	return int(code)
}

func linCode(v any) int64 {
	switch x := v.(type) {
	case int:
		return int64(x)
	case []int:
		if len(x) == 1 {
			return int64(x[0])
		}
	case string:
		var c int64
		if _, err := fmt.Sscanf(x, "s%d", &c); err == nil {
			return c
		}
	}
	return -1
}

func linKey(k int) string { return fmt.Sprintf("k%d", k) }

func linStep(state, input, output any) (bool, any) {
	st := state.(linState)
	in := input.(linIn)
	out := output.(linOut)
	cur := st[in.Key%linKeys]
	isInt := cur != 0 && (cur%4 == 1 || cur%4 == 2)
	isStr := cur != 0 && cur%4 == 0
	isSlice := cur != 0 && cur%4 == 3
	switch in.Op {
	case opSet:
		st[in.Key] = in.Val
		return true, st
	case opGet:
		return out.OK == (cur != 0) && out.V == cur, st
	case opHas:
		return out.OK == (cur != 0), st
	case opDelete:
		st[in.Key] = 0
		return true, st
	case opLen:
		n := 0
		for _, v := range st {
			if v != 0 {
				n++
			}
		}
		return out.N == n, st
	case opKeys:
		m := 0
		for i, v := range st {
			if v != 0 {
				m |= 1 << i
			}
		}
		return out.Mask == m, st
	case opGetAll:
		return out.Vals == st, st
	case opMerge:
		for i := 0; i < linKeys; i++ {
			if in.Mask&(1<<i) != 0 {
				st[i] = in.Val
				if in.Vals[i] != 0 {
					st[i] = in.Vals[i]
				}
			}
		}
		return true, st
	case opClear:
		return true, linState{}
	case opGetInt:
		want := int64(0)
		if isInt {
			want = cur
		}
		return out.V == want, st
	case opGetIntOr:
		want := int64(-7)
		if isInt {
			want = cur
		}
		return out.V == want, st
	case opGetString:
		want := ""
		if isStr {
			want = fmt.Sprintf("s%d", cur)
		}
		return out.S == want, st
	case opGetStringOr:
		want := "dflt"
		if isStr {
			want = fmt.Sprintf("s%d", cur)
		}
		return out.S == want, st
	case opGetFloat:
		want := int64(0)
		if isInt {
			want = cur
		}
		return out.V == want, st
	case opBindInt: // Get followed by the documented conversion into *int: missing key and string values are errors
		if !isInt {
			return !out.OK, st
		}
		return out.OK && out.V == cur, st
	case opBindFloat: // the stored int goes through the JSON round trip into *float64; everything else is an error
		if !isInt {
			return !out.OK, st
		}
		return out.OK && out.V == cur, st
	case opGetSlice:
		if isSlice {
			return out.N == 1 && out.V == cur, st
		}
		return out.N == 0, st
	case opGetFloatOr:
		want := int64(-7)
		if isInt {
			want = cur
		}
		return out.V == want, st
	case opGetSliceOr: // N == -1 encodes "the default was returned"
		if isSlice {
			return out.N == 1 && out.V == cur, st
		}
		return out.N == -1, st
	}
	return false, st
}

var linModel = porcupine.Model{
	Init: func() any { return linState{} },
	Step: linStep,
	DescribeOperation: func(input, output any) string {
		in, out := input.(linIn), output.(linOut)
		return fmt.Sprintf("%s(k%d mask=%b val=%d) -> %+v", linOpNames[in.Op], in.Key, in.Mask, in.Val, out)
	},
}

func linApply(s *flyt.SharedStore, in linIn) linOut { return linApplyOwn(s, in, nil) }

// linApplyOwn: when own != nil, Merge passes that (caller-owned, reused) map instead of a fresh one.
func linApplyOwn(s *flyt.SharedStore, in linIn, own map[string]any) linOut {
	k := linKey(in.Key)
	switch in.Op {
	case opSet:
		s.Set(k, linRepr(in.Val))
	case opGet:
		v, ok := s.Get(k)
		if !ok {
			return linOut{}
		}
		return linOut{V: linCode(v), OK: true}
	case opHas:
		return linOut{OK: s.Has(k)}
	case opDelete:
		s.Delete(k)
	case opLen:
		return linOut{N: s.Len()}
	case opKeys:
		m := 0
		for _, kk := range s.Keys() {
			var i int
			fmt.Sscanf(kk, "k%d", &i)
			m |= 1 << i
		}
		return linOut{Mask: m}
	case opGetAll:
		var o linOut
		for kk, v := range s.GetAll() {
			var i int
			fmt.Sscanf(kk, "k%d", &i)
			o.Vals[i] = linCode(v)
		}
		return o
	case opMerge:
		m := map[string]any{}
		if own != nil {
			for kk := range own {
				delete(own, kk)
			}
			m = own
		}
		for i := 0; i < linKeys; i++ {
			if in.Mask&(1<<i) != 0 {
				m[linKey(i)] = linRepr(in.Val)
				if in.Vals[i] != 0 {
					m[linKey(i)] = linRepr(in.Vals[i])
				}
			}
		}
		s.Merge(m)
	case opClear:
		s.Clear()
	case opGetInt:
		return linOut{V: int64(s.GetInt(k))}
	case opGetIntOr:
		return linOut{V: int64(s.GetIntOr(k, -7))}
	case opGetString:
		return linOut{S: s.GetString(k)}
	case opGetStringOr:
		return linOut{S: s.GetStringOr(k, "dflt")}
	case opGetFloat:
		return linOut{V: int64(s.GetFloat64(k))}
	case opBindInt:
		var d int
		if err := s.Bind(k, &d); err != nil {
			return linOut{}
		}
		return linOut{OK: true, V: int64(d)}
	case opBindFloat:
		var d float64
		if err := s.Bind(k, &d); err != nil {
			return linOut{}
		}
		return linOut{OK: true, V: int64(d)}
	case opGetSlice:
		g := s.GetSlice(k)
		o := linOut{N: len(g)}
		if len(g) > 0 {
			if x, ok := g[0].(int); ok {
				o.V = int64(x)
			}
		}
		return o
	case opGetFloatOr:
		return linOut{V: int64(s.GetFloat64Or(k, -7))}
	case opGetSliceOr:
		g := s.GetSliceOr(k, []any{"DEFAULT"})
		if len(g) == 1 && g[0] == any("DEFAULT") {
			return linOut{N: -1}
		}
		o := linOut{N: len(g)}
		if len(g) > 0 {
			if x, ok := g[0].(int); ok {
				o.V = int64(x)
			}
		}
		return o
	}
	return linOut{}
}

// LinOp is one recorded operation (replayable: the history is re-checked, not re-executed).
type LinOp struct {
	Client int    `json:"client"`
	In     linIn  `json:"in"`
	Out    linOut `json:"out"`
	Call   int64  `json:"call"`
	Ret    int64  `json:"ret"`
}

type LinCase struct {
	Family  string  `json:"family"`
	Clients int     `json:"clients"`
	History []LinOp `json:"history,omitempty"`
	Big     []BigOp `json:"big,omitempty"` // large-store family
	Panic   string  `json:"panic,omitempty"`  // a store operation of one of the clients panicked with this
	Wedged  bool    `json:"wedged,omitempty"` // the clients never finished: every goroutine of the process is parked on a lock (the store's)
}

// waitClientsOrWedged waits for the clients of a history. If they have not finished after 5 s and the whole process
// (one history at a time per process) is blocked in two consecutive looks, the store is wedged: operations that never
// complete have no place in any sequential order.
func waitClientsOrWedged(wg *sync.WaitGroup) bool {
	done := make(chan struct{})
	go func() { wg.Wait(); close(done) }()
	self := quiesce.Self()
	for tries := 0; ; tries++ {
		select {
		case <-done:
			return false
		case <-time.After(5 * time.Second):
		}
		if sn, ok := quiesce.Wait(self, 3*time.Second, nil); ok && sn.Sleepers == 0 {
			select {
			case <-done:
				return false
			default:
			}
			return true
		}
		if tries > 20 {
			return false // busy but not finishing: the caller's porcupine timeout / the driver's watchdog deal with that
		}
	}
}

// weights of the two operation mixes
var mixRead = []int{opBindFloat, opSet, opSet, opGet, opGet, opHas, opLen, opKeys, opGetAll, opGetAll, opMerge, opClear, opDelete, opGetInt, opGetIntOr, opGetString, opGetStringOr, opGetFloat, opBindInt, opGetSlice, opLen, opKeys}
var mixMerge = []int{opBindFloat, opBindFloat, opMerge, opMerge, opMerge, opClear, opClear, opGetAll, opGetAll, opGetAll, opKeys, opLen, opSet, opDelete, opGet}

// hot-key mix: one key, values of changing type, typed getters with non-zero defaults (a getter that reads the store
// twice is caught between a Set/Delete pair)
var mixHot = []int{opSet, opSet, opSet, opDelete, opDelete, opGetFloatOr, opGetFloatOr, opGetIntOr, opGetSliceOr, opGetSliceOr, opGetSlice, opGetStringOr, opClear, opBindInt}

// re-merge mix: clients read (GetAll/Get) and merge back what they saw plus something new, against Clear/Delete/Set
var mixRemerge = []int{opBindFloat, opMerge, opMerge, opMerge, opMerge, opGetAll, opGetAll, opGet, opClear, opClear, opDelete, opDelete, opSet, opHas, opLen, opKeys}

func recordHistory(c *Cfg, idx int) *LinCase {
	rg := c.Rng("c13", idx)
	clients := 2 + rg.IntN(5)
	mix := mixRead
	reseen := false
	switch idx % 4 {
	case 0:
		mix = mixMerge
	case 1:
		mix, reseen = mixRemerge, true
	case 2:
		if idx%8 == 2 {
			mix = mixHot
		}
	}
	hot := len(mix) == len(mixHot) && mix[5] == opGetFloatOr
	if hot && clients > 3 {
		clients = 3
	}
	type plan struct {
		ins    []linIn
		yields []int
	}
	plans := make([]plan, clients)
	for cl := 0; cl < clients; cl++ {
		n := 6 + rg.IntN(5)
		if hot {
			n = 20 + rg.IntN(12)
		}
		for j := 0; j < n; j++ {
			in := linIn{Op: mix[rg.IntN(len(mix))], Key: rg.IntN(linKeys)}
			if hot {
				in.Key = 0
			}
			in.Val = int64(cl+1)<<20 | int64(j+1)<<2 | int64(1+rg.IntN(3)) // unique; low bits decide int / string
			if rg.IntN(4) == 0 {
				in.Val &^= 3 // string-typed value
			}
			if in.Op == opMerge {
				in.Mask = 1 + rg.IntN(1<<linKeys-1)
				if rg.IntN(3) == 0 {
					in.Mask = 1<<linKeys - 1
				}
				in.Reseen = reseen && rg.IntN(4) != 0
			}
			plans[cl].ins = append(plans[cl].ins, in)
			plans[cl].yields = append(plans[cl].yields, rg.IntN(4))
		}
	}
	store := flyt.NewSharedStore()
	var clock atomic.Int64
	var ready atomic.Int32
	var panicNote atomic.Value // what a store operation panicked with (first one)
	var wg sync.WaitGroup
	hist := make([][]LinOp, clients)
	for cl := 0; cl < clients; cl++ {
		wg.Add(1)
		go func(cl int) {
			defer wg.Done()
			defer func() {
				if p := recover(); p != nil {
					panicNote.CompareAndSwap(nil, fmt.Sprint(p))
					ready.Add(int32(clients)) // (let the others through the barrier)
				}
			}()
			ready.Add(1)
			for int(ready.Load()) < clients { // spin barrier
				runtime.Gosched()
			}
			var seen linState // what this client last saw or wrote, per key
			var own map[string]any
			if idx%2 == 0 {
				own = map[string]any{} // this client reuses (and scribbles on) one map of its own for all its Merge calls
			}
			for j, in := range plans[cl].ins {
				if plans[cl].yields[j] == 0 {
					runtime.Gosched()
				}
				if in.Op == opMerge && in.Reseen {
					fresh := false
					for i := 0; i < linKeys; i++ {
						if in.Mask&(1<<i) != 0 {
							if seen[i] != 0 && (i+j)%3 != 0 {
								in.Vals[i] = seen[i]
							} else {
								fresh = true
							}
						}
					}
					_ = fresh
				}
				call := clock.Add(1)
				out := linApplyOwn(store, in, own)
				ret := clock.Add(1)
				hist[cl] = append(hist[cl], LinOp{cl, in, out, call, ret})
				if in.Op == opMerge && own != nil {
					// the caller's map stays the caller's: writing to it afterwards is not a store operation
					own[linKey((in.Key+1)%linKeys)] = int(in.Val + 1)
					delete(own, linKey(in.Key))
				}
				switch in.Op {
				case opGet:
					if out.OK {
						seen[in.Key] = out.V
					}
				case opGetAll:
					for i, v := range out.Vals {
						if v != 0 {
							seen[i] = v
						}
					}
				case opSet:
					seen[in.Key] = in.Val
				case opMerge:
					for i := 0; i < linKeys; i++ {
						if in.Mask&(1<<i) != 0 {
							seen[i] = in.Val
							if in.Vals[i] != 0 {
								seen[i] = in.Vals[i]
							}
						}
					}
				}
			}
		}(cl)
	}
	lc := &LinCase{Family: "history", Clients: clients}
	if waitClientsOrWedged(&wg) {
		lc.Wedged = true
		return lc
	}
	if pn, _ := panicNote.Load().(string); pn != "" {
		lc.Panic = pn
		return lc
	}
	for _, h := range hist {
		lc.History = append(lc.History, h...)
	}
	return lc
}

func checkHistory(lc *LinCase, timeout time.Duration) (porcupine.CheckResult, int, string) {
	ops := make([]porcupine.Operation, len(lc.History))
	for i, o := range lc.History {
		ops[i] = porcupine.Operation{ClientId: o.Client, Input: o.In, Call: o.Call, Output: o.Out, Return: o.Ret}
	}
	res, _ := porcupine.CheckOperationsVerbose(linModel, ops, timeout)
	// overlapping cross-client pairs and the interleaving shape
	overlaps := 0
	for i := range lc.History {
		for j := i + 1; j < len(lc.History); j++ {
			a, b := lc.History[i], lc.History[j]
			if a.Client != b.Client && a.Call < b.Ret && b.Call < a.Ret {
				overlaps++
			}
		}
	}
	type ev struct {
		t  int64
		cl int
	}
	var evs []ev
	for _, o := range lc.History {
		evs = append(evs, ev{o.Call, o.Client}, ev{o.Ret, o.Client})
	}
	sort.Slice(evs, func(i, j int) bool { return evs[i].t < evs[j].t })
	var sb strings.Builder
	for _, e := range evs {
		sb.WriteByte(byte('a' + e.cl))
	}
	return res, overlaps, sb.String()
}

func init() {
	register(&Engine{Prop: "C13", Doc: "store linearizability and race freedom", Run: runC13, Replay: replayC13})
}

func runC13(c *Cfg) {
	runSpecial(c, "C13", "large-and-odd-key-populations")
	r := c.Rep
	if RaceEnabled {
		runC13Race(c)
		return
	}
	// enumerations of a store that grows and shrinks by short-lived keys while `keep` long-lived keys are never touched:
	// every Keys / GetAll result contains all the long-lived keys (a key that is present before, during and after an
	// operation is in every state that operation could have seen), Len is never below their number
	for rep := 0; rep < c.Pick(2, 20); rep++ {
		if !c.Mine(rep + 3) {
			continue
		}
		keep := []int{96, 700, 2048}[rep%3]
		if f := longLivedKeysStress(keep, 4, 4, c.Pick(400, 4000)); f != "" {
			r.Violate("C13", "C13:enumeration-misses-long-lived-keys", f, map[string]any{"family": "long-lived-keys", "keep": keep})
		}
		r.Eval()
		r.Count("long_lived_keys.runs", 1)
		r.Nontrivial(fmt.Sprintf("llk %d %d", keep, rep))
	}
	nh := c.Pick(40000, 2000000)
	var overlapsTotal, unknown int64
	for i := 0; i < nh; i++ {
		if !c.Mine(i) {
			continue
		}
		if (i/16)%8 == 5 { // large-store family
			lc := recordBigHistory(c, i)
			if lc.Wedged {
				r.Eval()
				r.Violate("C13", "C13:store-wedged:large-store", fmt.Sprintf("%d clients ran operations on a large store concurrently and never finished: every goroutine is parked on a lock and nothing can release it — operations that never complete cannot be put into any sequential order", lc.Clients), lc)
				r.Note("stopped shard after a wedged store (stuck goroutines left behind)")
				return
			}
			if lc.Panic != "" {
				r.Eval()
				r.Violate("C13", "C13:store-operation-panicked:large-store", fmt.Sprintf("%d clients ran operations (Set, Delete, Merge, Clear, Len, Keys, GetAll, Has, Get) on a large store concurrently; one of the calls panicked: %s — on an ordinary map no order of these operations panics", lc.Clients, lc.Panic), lc)
				continue
			}
			res, ov := checkBigHistory(lc, 20*time.Second)
			r.Eval()
			r.Count("large_store.histories", 1)
			r.Count("large_store.operations", int64(len(lc.Big)))
			r.Count("overlapping_cross_client_pairs", int64(ov))
			overlapsTotal += int64(ov)
			switch res {
			case porcupine.Ok:
				r.Count("porcupine.ok", 1)
			case porcupine.Illegal:
				r.Count("porcupine.illegal", 1)
				r.Violate("C13", "C13:not-linearizable:large-store", fmt.Sprintf("history of %d operations by %d clients on a store holding %d filler keys (written by one Merge, removed by Clear) has no sequential witness: a reader saw part of a Merge or a half-cleared store", len(lc.Big), lc.Clients, bigF), lc)
			default:
				unknown++
				r.Count("porcupine.unknown", 1)
			}
			if ov > 0 {
				r.Nontrivial(fmt.Sprintf("big %d", i))
			}
			continue
		}
		lc := recordHistory(c, i)
		if lc.Wedged {
			r.Eval()
			r.Violate("C13", "C13:store-wedged", fmt.Sprintf("%d clients ran store operations concurrently and never finished: every goroutine is parked on a lock and nothing can release it (a reader and a writer wait for each other inside the store) — operations that never complete cannot be put into any sequential order", lc.Clients), lc)
			r.Note("stopped shard after a wedged store (stuck goroutines left behind)")
			return
		}
		if lc.Panic != "" {
			r.Eval()
			r.Violate("C13", "C13:store-operation-panicked", fmt.Sprintf("%d clients ran store operations concurrently; one of the calls panicked: %s — on an ordinary map no order of these operations panics", lc.Clients, lc.Panic), lc)
			continue
		}
		res, ov, shape := checkHistory(lc, 20*time.Second)
		r.Eval()
		r.Count("operations", int64(len(lc.History)))
		r.Count("overlapping_cross_client_pairs", int64(ov))
		overlapsTotal += int64(ov)
		switch res {
		case porcupine.Ok:
			r.Count("porcupine.ok", 1)
		case porcupine.Illegal:
			r.Count("porcupine.illegal", 1)
			r.Violate("C13", "C13:not-linearizable", fmt.Sprintf("history of %d operations by %d clients has no sequential witness on a plain map (porcupine: Illegal)", len(lc.History), lc.Clients), lc)
		default:
			unknown++
			r.Count("porcupine.unknown", 1)
		}
		if ov > 0 {
			r.Nontrivial(shape)
		}
		if ov >= 8 && r.SampleWanted("history") {
			r.Sample("history", lc)
		}
		for _, o := range lc.History {
			r.Count("op."+linOpNames[o.In.Op], 1)
		}
	}
	if unknown*10000 > r.Evaluations { // a stray checker timeout is counted (porcupine.unknown), not a verdict; many of them are
		r.Incon(fmt.Sprintf("%d of %d histories: porcupine timed out", unknown, r.Evaluations))
	}
	// floor: the histories must actually have been concurrent
	if r.Evaluations > 0 && overlapsTotal < r.Evaluations {
		r.Incon(fmt.Sprintf("only %d overlapping cross-client operation pairs in %d histories: the workload was not concurrent enough to say anything", overlapsTotal, r.Evaluations))
	}
}

// runC13Race: no recording, no harness synchronisation between the operations under test.
func runC13Race(c *Cfg) {
	r := c.Rep
	goroutines := 16
	per := c.Pick(25000, 150000)
	rounds := c.Pick(3, 8)
	for round := 0; round < rounds; round++ {
		store := flyt.NewSharedStore()
		var wg sync.WaitGroup
		var start sync.WaitGroup
		start.Add(1)
		for g := 0; g < goroutines; g++ {
			wg.Add(1)
			go func(g int) {
				defer wg.Done()
				rg := c.Rng(fmt.Sprintf("c13race.%d.%d", c.Shard, round), g)
				start.Wait()
				sink := 0
				own := map[string]any{}
				for i := 0; i < per; i++ {
					func() {
						defer func() {
							if p := recover(); p != nil { // an accessor panic is C15's business, not a reason to lose the race run
								r.Count("race.accessor_panics", 1)
							}
						}()
						k := linKey(rg.IntN(3))
						switch rg.IntN(24) {
						case 22: // a nested map value replaced through Merge: the store holds the NEW map, readers of the old one are not disturbed
							store.Merge(map[string]any{"cfg": map[string]any{"v": i, fmt.Sprint("f", i%7): i}})
						case 23: // a reader keeps looking at a map value the store handed out
							if m := store.GetMap("cfg"); m != nil {
								for kk, vv := range m {
									if kk == "" && vv == nil {
										sink++
									}
								}
							}
						case 0, 1, 2:
							store.Set(k, i)
						case 3:
							store.Set(k, []int{i})
						case 4, 5:
							v, _ := store.Get(k)
							_ = v
						case 6:
							if store.Has(k) {
								sink++
							}
						case 7:
							store.Delete(k)
						case 8:
							sink += store.Len()
						case 9:
							ks := store.Keys()
							if len(ks) > 0 {
								ks[0] = "mutated" // snapshots are the caller's
							}
						case 10:
							m := store.GetAll()
							m["extra"] = 1
							delete(m, k)
						case 11:
							if i%3 == 0 { // a caller-owned map, reused and modified between calls
								own["k0"], own["k1"] = i, i
								store.Merge(own)
								own["k2"] = i
								delete(own, "k1")
							} else {
								store.Merge(map[string]any{"k0": i, "k1": i, "k2": i})
							}
						case 12:
							if i%64 == 0 {
								store.Clear()
							}
						case 13:
							sink += store.GetInt(k) + store.GetIntOr(k, 1)
						case 14:
							sink += len(store.GetString(k)) + len(store.GetStringOr(k, "d"))
						case 15:
							sink += int(store.GetFloat64(k) + store.GetFloat64Or(k, 1))
						case 16:
							if store.GetBool(k) || store.GetBoolOr(k, false) {
								sink++
							}
						case 17:
							sink += len(store.GetSlice(k)) + len(store.GetSliceOr(k, nil))
						case 18:
							sink += len(store.GetMap(k)) + len(store.GetMapOr(k, nil))
						case 19:
							var d int
							_ = store.Bind(k, &d)
							var s []int
							_ = store.Bind(k, &s)
						case 20:
							store.Merge(nil)
							store.Set(k, map[string]any{"a": i})
						case 21:
							store.Set(k, "str")
						}
					}()
				}
				_ = sink
			}(g)
		}
		start.Done()
		wg.Wait()
		r.EvalN(1)
		r.Count("race.operations", int64(goroutines*per))
		r.Nontrivial(fmt.Sprintf("race-round %d shard %d", round, c.Shard))
	}
	r.Count("race.goroutines", int64(goroutines))
}

func replayC13(c *Cfg, spec json.RawMessage) {
	var lc LinCase
	if err := json.Unmarshal(spec, &lc); err != nil {
		fmt.Println("cannot parse history:", err)
		return
	}
	if lc.Family == "large-store" {
		sort.Slice(lc.Big, func(i, j int) bool { return lc.Big[i].Call < lc.Big[j].Call })
		for _, o := range lc.Big {
			fmt.Printf("  client %d  [%4d,%4d]  %s\n", o.Client, o.Call, o.Ret, bigModel.DescribeOperation(o.In, o.Out))
		}
		res, ov := checkBigHistory(&lc, 60*time.Second)
		fmt.Printf("porcupine verdict: %v (overlapping pairs: %d)\n", res, ov)
		if res == porcupine.Illegal {
			c.Rep.Violate("C13", "C13:not-linearizable:large-store", "recorded history is not linearizable", lc)
		}
		return
	}
	sort.Slice(lc.History, func(i, j int) bool { return lc.History[i].Call < lc.History[j].Call })
	for _, o := range lc.History {
		fmt.Printf("  client %d  [%4d,%4d]  %s\n", o.Client, o.Call, o.Ret, linModel.DescribeOperation(o.In, o.Out))
	}
	res, ov, _ := checkHistory(&lc, 60*time.Second)
	fmt.Printf("porcupine verdict: %v (overlapping pairs: %d)\n", res, ov)
	if res == porcupine.Illegal {
		c.Rep.Violate("C13", "C13:not-linearizable", "recorded history is not linearizable", lc)
	}
}

// ---------------------------------------------------------------------------------------------------------
// Large-store histories: the store also holds bigF filler keys that are written by one atomic Merge and removed
// by Clear, so a reader that sees "some" of them has seen half a Merge or a half-cleared store. (Key spaces of a
// handful of keys never reach size thresholds inside the store.)

const bigF = 1536

type bigState struct {
	Fill bool
	K0   int64
	K1   int64
}

const (
	bigSet = iota
	bigDel
	bigRefill
	bigClear
	bigLen
	bigKeys
	bigGetAll
	bigHas
	bigGet
	numBigOps
)

var bigOpNames = []string{"Set(k0)", "Delete(k0)", "Merge(all fillers)", "Clear", "Len", "Keys", "GetAll", "Has(filler)", "Get(k0|k1)"}

type bigIn struct {
	Op  int   `json:"op"`
	Val int64 `json:"val,omitempty"`
	Idx int   `json:"idx,omitempty"`
}

type bigOut struct {
	N  int   `json:"n,omitempty"`
	OK bool  `json:"ok,omitempty"`
	V  int64 `json:"v,omitempty"`
	V1 int64 `json:"v1,omitempty"`
}

type BigOp struct {
	Client int    `json:"client"`
	In     bigIn  `json:"in"`
	Out    bigOut `json:"out"`
	Call   int64  `json:"call"`
	Ret    int64  `json:"ret"`
}

var bigModel = porcupine.Model{
	Init: func() any { return bigState{} },
	Step: func(state, input, output any) (bool, any) {
		st, in, out := state.(bigState), input.(bigIn), output.(bigOut)
		n := 0
		if st.Fill {
			n = bigF
		}
		if st.K0 != 0 {
			n++
		}
		if st.K1 != 0 {
			n++
		}
		switch in.Op {
		case bigSet:
			if in.Idx%2 == 0 {
				st.K0 = in.Val
			} else {
				st.K1 = in.Val
			}
			return true, st
		case bigDel:
			if in.Idx%2 == 0 {
				st.K0 = 0
			} else {
				st.K1 = 0
			}
			return true, st
		case bigGet:
			want := st.K0
			if in.Idx%2 == 1 {
				want = st.K1
			}
			return out.V == want, st
		case bigRefill:
			st.Fill = true
			return true, st
		case bigClear:
			return true, bigState{}
		case bigLen, bigKeys:
			return out.N == n, st
		case bigGetAll:
			return out.N == n && out.V == st.K0 && out.V1 == st.K1, st
		case bigHas:
			return out.OK == st.Fill, st
		}
		return false, st
	},
	DescribeOperation: func(input, output any) string {
		in, out := input.(bigIn), output.(bigOut)
		return fmt.Sprintf("%s val=%d idx=%d -> %+v", bigOpNames[in.Op], in.Val, in.Idx, out)
	},
}

var bigFillerKeys = func() []string {
	k := make([]string, bigF)
	for i := range k {
		k[i] = fmt.Sprintf("f%04d", i)
	}
	return k
}()

func bigApply(s *flyt.SharedStore, in bigIn) bigOut {
	switch in.Op {
	case bigSet:
		s.Set([]string{"k0", "k1"}[in.Idx%2], int(in.Val))
	case bigDel:
		s.Delete([]string{"k0", "k1"}[in.Idx%2])
	case bigGet:
		if v, ok := s.Get([]string{"k0", "k1"}[in.Idx%2]); ok {
			if x, ok := v.(int); ok {
				return bigOut{V: int64(x)}
			}
		}
		return bigOut{}
	case bigRefill:
		m := make(map[string]any, bigF)
		for _, k := range bigFillerKeys {
			m[k] = 1
		}
		s.Merge(m)
	case bigClear:
		s.Clear()
	case bigLen:
		return bigOut{N: s.Len()}
	case bigKeys:
		return bigOut{N: len(s.Keys())}
	case bigGetAll:
		all := s.GetAll()
		o := bigOut{N: len(all)}
		if v, ok := all["k0"].(int); ok {
			o.V = int64(v)
		}
		if v, ok := all["k1"].(int); ok {
			o.V1 = int64(v)
		}
		return o
	case bigHas:
		return bigOut{OK: s.Has(bigFillerKeys[in.Idx%bigF])}
	}
	return bigOut{}
}

func recordBigHistory(c *Cfg, idx int) *LinCase {
	rg := c.Rng("c13big", idx)
	clients := 2 + rg.IntN(4)
	mix := []int{bigRefill, bigRefill, bigClear, bigClear, bigLen, bigLen, bigLen, bigKeys, bigGetAll, bigHas, bigHas, bigSet, bigDel}
	if idx%3 == 0 { // overwrite-heavy: Set / Get / Delete on two hot keys of a store that has seen many deletions
		mix = []int{bigSet, bigSet, bigSet, bigSet, bigGet, bigGet, bigGet, bigDel, bigDel, bigLen, bigKeys, bigGetAll}
	}
	plans := make([][]bigIn, clients)
	for cl := range plans {
		n := 5 + rg.IntN(5)
		for j := 0; j < n; j++ {
			plans[cl] = append(plans[cl], bigIn{Op: mix[rg.IntN(len(mix))], Val: int64(cl+1)<<20 | int64(j+1), Idx: rg.IntN(bigF)})
		}
	}
	store := flyt.NewSharedStore()
	// a store with a past: before the history starts it is filled (overwrite-heavy mix) and as many keys as it
	// holds have come and gone again — count/size-triggered maintenance inside the store is then due during the history
	prefilled := idx%3 == 0
	if prefilled {
		bigApply(store, bigIn{Op: bigRefill})
	}
	for j := 0; j < bigF; j++ {
		store.Set(fmt.Sprintf("junk%d", j), j)
	}
	for j := 0; j < bigF; j++ {
		store.Delete(fmt.Sprintf("junk%d", j))
	}
	var clock atomic.Int64
	var ready atomic.Int32
	var panicNote atomic.Value // what a store operation panicked with (first one)
	var wg sync.WaitGroup
	hist := make([][]BigOp, clients)
	for cl := 0; cl < clients; cl++ {
		wg.Add(1)
		go func(cl int) {
			defer wg.Done()
			defer func() {
				if p := recover(); p != nil {
					panicNote.CompareAndSwap(nil, fmt.Sprint(p))
					ready.Add(int32(clients))
				}
			}()
			ready.Add(1)
			for int(ready.Load()) < clients {
				runtime.Gosched()
			}
			for _, in := range plans[cl] {
				call := clock.Add(1)
				out := bigApply(store, in)
				ret := clock.Add(1)
				hist[cl] = append(hist[cl], BigOp{cl, in, out, call, ret})
			}
		}(cl)
	}
	lc := &LinCase{Family: "large-store", Clients: clients}
	if waitClientsOrWedged(&wg) {
		lc.Wedged = true
		return lc
	}
	if pn, _ := panicNote.Load().(string); pn != "" {
		lc.Panic = pn
		return lc
	}
	if prefilled { // the pre-fill as an operation that completed before everything else
		lc.Big = append(lc.Big, BigOp{Client: clients, In: bigIn{Op: bigRefill}, Call: -2, Ret: -1})
	}
	for _, h := range hist {
		lc.Big = append(lc.Big, h...)
	}
	return lc
}

func checkBigHistory(lc *LinCase, timeout time.Duration) (porcupine.CheckResult, int) {
	ops := make([]porcupine.Operation, len(lc.Big))
	for i, o := range lc.Big {
		ops[i] = porcupine.Operation{ClientId: o.Client, Input: o.In, Call: o.Call, Output: o.Out, Return: o.Ret}
	}
	res, _ := porcupine.CheckOperationsVerbose(bigModel, ops, timeout)
	overlaps := 0
	for i := range lc.Big {
		for j := i + 1; j < len(lc.Big); j++ {
			a, b := lc.Big[i], lc.Big[j]
			if a.Client != b.Client && a.Call < b.Ret && b.Call < a.Ret {
				overlaps++
			}
		}
	}
	return res, overlaps
}


// longLivedKeysStress: see runC13. Returns a description of the first enumeration that missed a long-lived key.
func longLivedKeysStress(keep, writers, readers, calls int) string {
	s := flyt.NewSharedStore()
	for i := 0; i < keep; i++ {
		s.Set(fmt.Sprintf("keep-%05d", i), i)
	}
	stop := make(chan struct{})
	var wg sync.WaitGroup
	for w := 0; w < writers; w++ {
		wg.Add(1)
		go func(w int) {
			defer wg.Done()
			for n := 0; ; n++ {
				select {
				case <-stop:
					return
				default:
				}
				k := fmt.Sprintf("tmp-%d-%d", w, n%7)
				s.Set(k, n)
				if n%3 == 0 {
					s.Merge(map[string]any{k + "-m": n})
					s.Delete(k + "-m")
				}
				s.Delete(k)
			}
		}(w)
	}
	var mu sync.Mutex
	finding := ""
	report := func(f string) {
		mu.Lock()
		if finding == "" {
			finding = f
		}
		mu.Unlock()
	}
	var rg sync.WaitGroup
	for rd := 0; rd < readers; rd++ {
		rg.Add(1)
		go func(rd int) {
			defer rg.Done()
			for n := 0; n < calls; n++ {
				switch (n + rd) % 3 {
				case 0:
					got := 0
					for _, k := range s.Keys() {
						if strings.HasPrefix(k, "keep-") {
							got++
						}
					}
					if got != keep {
						report(fmt.Sprintf("Keys() call %d of a reader returned %d of the %d long-lived keys (set before the readers started, never touched since) while 4 writers add and remove short-lived keys", n, got, keep))
						return
					}
				case 1:
					got := 0
					for k := range s.GetAll() {
						if strings.HasPrefix(k, "keep-") {
							got++
						}
					}
					if got != keep {
						report(fmt.Sprintf("GetAll() call %d of a reader holds %d of the %d long-lived keys", n, got, keep))
						return
					}
				default:
					if l := s.Len(); l < keep {
						report(fmt.Sprintf("Len() = %d with %d long-lived keys in the store", l, keep))
						return
					}
				}
			}
		}(rd)
	}
	rg.Wait()
	close(stop)
	wg.Wait()
	return finding
}
