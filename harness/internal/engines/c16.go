package engines

import (
	"math/big"
	"encoding/json"
	"fmt"
	"math"
	"reflect"
	"strings"

	flyt "github.com/mark3labs/flyt"

	"verif/harness/internal/zoo"
)

// BindCase identifies a (value, destination) pair.
type BindCase struct {
	Family string `json:"family"`
	Val    string `json:"val,omitempty"`  // name in the bind value list
	Dest   string `json:"dest,omitempty"` // name in the destination list
	Gen    int    `json:"gen,omitempty"`
	Seed   int64  `json:"seed,omitempty"`
}

type user struct {
	ID   int    `json:"id"`
	Name string `json:"name"`
}
type userNoTags struct {
	ID   int
	Name string
}
type userExtra struct {
	ID    int     `json:"id"`
	Name  string  `json:"name"`
	Email *string `json:"email,omitempty"`
	Score float64 `json:"score"`
}
type embedded struct {
	user
	Role string `json:"role"`
}
type withUnexported struct {
	A int
	b int
}
type strictInt struct {
	ID string `json:"id"`
}

// ptrRecvMarshaler marshals itself only through a pointer receiver.
type ptrRecvMarshaler struct{ N int }

func (p *ptrRecvMarshaler) MarshalJSON() ([]byte, error) {
	return []byte(fmt.Sprintf(`{"custom":%d}`, p.N)), nil
}

type namedDest struct {
	name string
	mk   func() any // fresh, identically pre-populated destination each call
}

func bindValues() []zoo.Named {
	email := "e@x"
	vals := []zoo.Named{
		{"map-user", map[string]any{"id": 1, "name": "ann"}},
		{"map-user-badtype", map[string]any{"id": "not-a-number", "name": 5}},
		{"map-nested", map[string]any{"a": map[string]any{"b": []any{1, "x", nil}}}},
		{"map-empty", map[string]any{}},
		{"map-12-entries", map[string]any{"k00": 0, "k01": 1, "k02": 2, "k03": 3, "k04": 4, "k05": 5, "k06": 6, "k07": 7, "k08": 8, "k09": 9, "k10": 10, "id": 11}},
		{"map-string-int-9-entries", map[string]int{"a": 1, "b": 2, "c": 3, "d": 4, "e": 5, "f": 6, "g": 7, "h": 8, "id": 9}},
		{"map-string-int", map[string]int{"id": 3}},
		{"map-int-key", map[int]string{1: "a"}},
		{"map-bool-key", map[bool]int{true: 1}},
		{"struct-user", user{7, "bob"}},
		{"ptr-user", &user{8, "cy"}},
		{"struct-notags", userNoTags{9, "di"}},
		{"struct-extra", userExtra{ID: 1, Name: "e", Email: &email, Score: 2.5}},
		{"struct-embedded", embedded{user{3, "f"}, "admin"}},
		{"struct-unexported", withUnexported{1, 2}},
		{"slice-int", []int{1, 2, 3}},
		{"slice-any", []any{1, "a", nil, 2.5}},
		{"slice-users", []user{{1, "a"}, {2, "b"}}},
		{"slice-empty", []int{}},
		{"slice-nil", []int(nil)},
		{"string", "hello"}, {"string-json", `{"id":5}`}, {"string-number", "42"},
		{"int", 42}, {"int64-big", int64(math.MaxInt64)}, {"uint64-max", uint64(math.MaxUint64)}, {"float", 2.75}, {"float-int", 3.0},
		{"bool", true}, {"nan", math.NaN()}, {"inf", math.Inf(1)},
		{"chan", make(chan int)}, {"func", func() {}}, {"struct-with-func", zoo.WithFunc{F: func() {}}}, {"struct-with-chan-ptr", &struct{ C chan int }{make(chan int)}},
		{"typed-nil-ptr", (*user)(nil)}, {"typed-nil-map", map[string]any(nil)},
		{"bytes", []byte("hi")}, {"json-raw", json.RawMessage(`{"id":11,"name":"raw"}`)}, {"json-raw-bad", json.RawMessage(`{bad`)},
		{"array", [2]int{1, 2}}, {"ptr-int", func() any { i := 5; return &i }()},
		{"map-any-with-nan", map[string]any{"x": math.NaN()}},
		{"deep", map[string]any{"l1": map[string]any{"l2": map[string]any{"l3": []any{map[string]any{"id": 1}}}}}},
		{"number-as-string-id", map[string]any{"id": "12", "name": "n"}},
		{"html-string", "<b>R&D</b>"}, {"html-in-map", map[string]any{"name": "<i>a&b</i>", "id": 1}}, {"html-in-struct", user{1, "x<y>&z"}},
		{"raw-with-html", json.RawMessage(`{"name":"<b>"}`)}, {"line-sep", "a\u2028b"},
		{"result-of-int", flyt.NewResult(5)}, {"result-of-map", flyt.NewResult(map[string]any{"id": 2})}, {"error-result", flyt.NewErrorResult(fmt.Errorf("e"))}, {"zero-result", flyt.Result{}},
		{"float-id", map[string]any{"id": 1.5}},
		{"string-invalid-utf8", "bad\xff\xfebytes"}, {"string-invalid-utf8-in-map", map[string]any{"name": "a\xffb"}},
		// types whose marshalers have pointer receivers, held BY VALUE (encoding/json does not call them then) and by pointer (it does)
		{"struct-with-bigint-by-value", struct {
			ID    int
			Total big.Int
		}{1, *big.NewInt(1250)}},
		{"bigint-by-value", *big.NewInt(77)}, {"bigint-by-pointer", big.NewInt(78)},
		{"ptrrecv-marshaler-by-value", ptrRecvMarshaler{5}}, {"ptrrecv-marshaler-by-pointer", &ptrRecvMarshaler{6}},
		{"struct-holding-ptrrecv-by-value", struct{ M ptrRecvMarshaler }{ptrRecvMarshaler{7}}},
		{"array-of-ptrrecv", [2]ptrRecvMarshaler{{1}, {2}}}, {"slice-of-ptrrecv", []ptrRecvMarshaler{{3}}},
		{"bytes-json", []byte(`{"id":7,"name":"b"}`)}, {"bytes-json-array", []byte(`[1,2]`)},
		{"big-id", map[string]any{"id": 1e30}},
	}
	return vals
}

func bindDests() []namedDest {
	return []namedDest{
		{"*user", func() any { return &user{ID: -1, Name: "pre"} }},
		{"*user-zero", func() any { return new(user) }},
		{"*userNoTags", func() any { return &userNoTags{ID: -1} }},
		{"*userExtra", func() any { s := "old"; return &userExtra{Email: &s, Score: 9} }},
		{"*embedded", func() any { return &embedded{Role: "pre"} }},
		{"*strictInt", func() any { return new(strictInt) }},
		{"*any", func() any { var a any = "pre"; return &a }},
		{"*any-nil", func() any { return new(any) }},
		// interface destinations that already hold a value of the kind being bound (a re-used `var out any`): the JSON round trip still applies
		{"*any-holding-map", func() any { var a any = map[string]any{"id": 99, "keep": true}; return &a }},
		{"*any-holding-slice", func() any { var a any = []any{9, 9}; return &a }},
		{"*any-holding-int", func() any { var a any = 5; return &a }},
		{"*any-holding-user", func() any { var a any = user{ID: 1, Name: "held"}; return &a }},
		{"*map[string]any", func() any { m := map[string]any{"keep": 1}; return &m }},
		{"*map[string]any-nil", func() any { return new(map[string]any) }},
		{"*map[string]int", func() any { return new(map[string]int) }},
		{"*[]int", func() any { s := []int{9, 9, 9, 9}; return &s }},
		{"*[]any", func() any { return new([]any) }},
		{"*[]user", func() any { return new([]user) }},
		{"*[2]int", func() any { return &[2]int{7, 7} }},
		{"*string", func() any { s := "pre"; return &s }},
		{"*int", func() any { i := -1; return &i }},
		{"*int8", func() any { return new(int8) }},
		{"*uint64", func() any { return new(uint64) }},
		{"*float64", func() any { return new(float64) }},
		{"*bool", func() any { return new(bool) }},
		{"**user", func() any { p := &user{ID: -1}; return &p }},
		{"**user-nil", func() any { return new(*user) }},
		{"*[]byte", func() any { return new([]byte) }},
		{"*json.RawMessage", func() any { return new(json.RawMessage) }},
		{"*struct-with-raw", func() any { return new(struct{ Name json.RawMessage `json:"name"` }) }},
		{"*flyt.Result", func() any { r := flyt.NewResult("pre"); return &r }},
		{"*chan", func() any { return new(chan int) }},
		{"*func", func() any { return new(func()) }},
		{"*withUnexported", func() any { return &withUnexported{A: -1, b: -1} }},
		{"*zoo.WithFunc", func() any { return new(zoo.WithFunc) }},
		{"*float64-nan", func() any { f := math.NaN(); return &f }},
		// invalid destinations
		{"nil", func() any { return nil }},
		{"non-pointer-struct", func() any { return user{} }},
		{"non-pointer-map", func() any { return map[string]any{} }},
		{"typed-nil-pointer", func() any { return (*user)(nil) }},
		{"non-pointer-int", func() any { return 5 }},
	}
}

// deepEq is DeepEqual that treats NaN as equal to itself and funcs/chans by identity.
func deepEq(a, b reflect.Value, depth int) bool {
	if !a.IsValid() || !b.IsValid() {
		return a.IsValid() == b.IsValid()
	}
	if a.Type() != b.Type() {
		return false
	}
	if depth > 40 {
		return true
	}
	switch a.Kind() {
	case reflect.Float32, reflect.Float64:
		x, y := a.Float(), b.Float()
		return x == y || (x != x && y != y)
	case reflect.Func, reflect.Chan, reflect.UnsafePointer:
		return a.Pointer() == b.Pointer()
	case reflect.Ptr:
		if a.IsNil() || b.IsNil() {
			return a.IsNil() == b.IsNil()
		}
		return deepEq(a.Elem(), b.Elem(), depth+1)
	case reflect.Interface:
		if a.IsNil() || b.IsNil() {
			return a.IsNil() == b.IsNil()
		}
		return deepEq(a.Elem(), b.Elem(), depth+1)
	case reflect.Slice:
		if a.IsNil() != b.IsNil() || a.Len() != b.Len() {
			return false
		}
		for i := 0; i < a.Len(); i++ {
			if !deepEq(a.Index(i), b.Index(i), depth+1) {
				return false
			}
		}
		return true
	case reflect.Array:
		for i := 0; i < a.Len(); i++ {
			if !deepEq(a.Index(i), b.Index(i), depth+1) {
				return false
			}
		}
		return true
	case reflect.Map:
		if a.IsNil() != b.IsNil() || a.Len() != b.Len() {
			return false
		}
		it := a.MapRange()
		for it.Next() {
			bv := b.MapIndex(it.Key())
			if !bv.IsValid() || !deepEq(it.Value(), bv, depth+1) {
				return false
			}
		}
		return true
	case reflect.Struct:
		for i := 0; i < a.NumField(); i++ {
			if !deepEq(a.Field(i), b.Field(i), depth+1) {
				return false
			}
		}
		return true
	case reflect.Bool:
		return a.Bool() == b.Bool()
	case reflect.String:
		return a.String() == b.String()
	case reflect.Int, reflect.Int8, reflect.Int16, reflect.Int32, reflect.Int64:
		return a.Int() == b.Int()
	case reflect.Uint, reflect.Uint8, reflect.Uint16, reflect.Uint32, reflect.Uint64, reflect.Uintptr:
		return a.Uint() == b.Uint()
	case reflect.Complex64, reflect.Complex128:
		return a.Complex() == b.Complex() || a.Complex() != a.Complex()
	}
	return false
}

func fingerprint(v any) string {
	s := ""
	call(func() { s = fmt.Sprintf("%#v", v) })
	return s
}

func validDest(d any) bool {
	if d == nil {
		return false
	}
	rv := reflect.ValueOf(d)
	return rv.Kind() == reflect.Ptr && !rv.IsNil()
}

// checkBind decides one (value, destination) pair for Result.Bind and SharedStore.Bind.
func checkBind(v any, mk func() any) (fs []finding, class string) {
	add := func(key, f string, a ...any) { fs = append(fs, finding{key, fmt.Sprintf(f, a...)}) }
	vt := "nil"
	if v != nil {
		vt = reflect.TypeOf(v).Kind().String()
	}
	before := fingerprint(v)
	// ---- the reference: what encoding/json (or plain assignment) does with an identical destination
	refDest := mk()
	var wantErr bool
	switch {
	case v == nil:
		wantErr, class = true, "nil-value"
	case !validDest(refDest):
		wantErr, class = true, "invalid-dest"
	case reflect.TypeOf(v) == reflect.TypeOf(refDest).Elem():
		reflect.ValueOf(refDest).Elem().Set(reflect.ValueOf(v))
		class = "same-type"
	default:
		b, err := json.Marshal(v)
		if err != nil {
			wantErr, class = true, "marshal-error"
		} else if err := json.Unmarshal(b, refDest); err != nil {
			wantErr, class = true, "unmarshal-error"
		} else {
			class = "json-roundtrip"
		}
	}
	try := func(name string, bind func(dest any) error) (dest any, err error, ok bool) {
		dest = mk()
		p, msg := call(func() { err = bind(dest) })
		if p {
			add("panic:"+name+":"+class+":"+vt, "%s panicked binding a %T into %T: %s", name, v, dest, msg)
			return dest, nil, false
		}
		return dest, err, true
	}
	compare := func(name string, dest any, err error) {
		if (err != nil) != wantErr {
			if wantErr {
				add("error-missing:"+name+":"+class, "%s of %T into %T returned nil, the reference (%s) reports an error", name, v, dest, class)
			} else {
				add("unexpected-error:"+name+":"+class, "%s of %T into %T failed (%v), the reference (%s) succeeds", name, v, dest, err, class)
			}
			return
		}
		if validDest(dest) && validDest(refDest) {
			// also after an unmarshal error the partially filled destination must equal the reference's
			if !deepEq(reflect.ValueOf(dest).Elem(), reflect.ValueOf(refDest).Elem(), 0) {
				add("dest-differs:"+name+":"+class, "%s of %T into %T left %s, the reference (%s) leaves %s", name, v, dest, zoo.Describe(reflect.ValueOf(dest).Elem().Interface()), class, zoo.Describe(reflect.ValueOf(refDest).Elem().Interface()))
			}
			if class == "same-type" && !zoo.Same(reflect.ValueOf(dest).Elem().Interface(), v) {
				add("same-type-not-identical", "binding a %T into a destination of its own type did not copy it unchanged", v)
			}
		}
	}
	r := flyt.NewResult(v)
	d1, e1, ok1 := try("Result.Bind", r.Bind)
	if ok1 {
		compare("Result.Bind", d1, e1)
	}
	s := flyt.NewSharedStore()
	s.Set("k", v)
	d2, e2, ok2 := try("SharedStore.Bind", func(d any) error { return s.Bind("k", d) })
	if ok2 {
		if v == nil {
			// a stored nil is present; the statement only requires agreement "on every non-nil value" and no panic
		} else {
			compare("SharedStore.Bind", d2, e2)
			if ok1 && (e1 != nil) != (e2 != nil) {
				add("store-vs-result:"+class, "Result.Bind error=%v but SharedStore.Bind error=%v for %T", e1, e2, v)
			}
		}
	}
	// missing key
	if _, e3, ok3 := try("SharedStore.Bind(missing)", func(d any) error { return s.Bind("no-such-key", d) }); ok3 && e3 == nil {
		add("missing-key-no-error", "SharedStore.Bind of a missing key returned nil")
	}
	// MustBind panics exactly when Bind fails
	if ok1 {
		p, _ := call(func() { r.MustBind(mk()) })
		if p != (e1 != nil) {
			add("mustbind-mismatch:"+class, "Result.MustBind panicked=%v but Bind error=%v", p, e1)
		}
	}
	if after := fingerprint(v); after != before {
		add("source-modified:"+class, "binding modified the source value: %s -> %s", before, after)
	}
	if got, _ := s.Get("k"); !zoo.Same(got, v) {
		add("stored-value-replaced", "the stored value changed identity after Bind")
	}
	return
}

func init() {
	register(&Engine{Prop: "C16", Doc: "Bind", Run: runC16, Replay: replayC16})
}

func genBindPair(c *Cfg, i int, seed int64) (any, func() any, string) {
	cc := *c
	cc.Seed = seed
	rg := cc.Rng("c16gen", i)
	v, _ := zoo.Gen(rg, 1+i%3)
	dests := bindDests()
	switch rg.IntN(4) {
	case 0: // destination of the value's own type
		if v != nil {
			t := reflect.TypeOf(v)
			return v, func() any { return reflect.New(t).Interface() }, "own-type"
		}
	case 1: // destination of another generated type
		t := zoo.GenType(rg, 1+i%3)
		return v, func() any { return reflect.New(t).Interface() }, "generated-type:" + t.String()
	}
	d := dests[rg.IntN(len(dests))]
	return v, d.mk, d.name
}

// checkStoreBindNow: SharedStore.Bind on key must give what the reference gives for the value stored NOW.
func checkStoreBindNow(s *flyt.SharedStore, key string, v any, d namedDest) (string, string) {
	if v == nil {
		return "", ""
	}
	refDest := d.mk()
	wantErr := false
	switch {
	case !validDest(refDest):
		wantErr = true
	case reflect.TypeOf(v) == reflect.TypeOf(refDest).Elem():
		reflect.ValueOf(refDest).Elem().Set(reflect.ValueOf(v))
	default:
		b, err := json.Marshal(v)
		if err != nil {
			wantErr = true
		} else if err := json.Unmarshal(b, refDest); err != nil {
			wantErr = true
		}
	}
	dest := d.mk()
	var err error
	if p, msg := call(func() { err = s.Bind(key, dest) }); p {
		return "stateful-panic", msg
	}
	if (err != nil) != wantErr {
		return "stateful-bind-error", fmt.Sprintf("SharedStore.Bind(%q, %s) error=%v, the JSON round trip of the value stored now (%T) gives error=%v", key, d.name, err, v, wantErr)
	}
	if validDest(dest) && validDest(refDest) && !deepEq(reflect.ValueOf(dest).Elem(), reflect.ValueOf(refDest).Elem(), 0) {
		return "stateful-bind-stale", fmt.Sprintf("SharedStore.Bind(%q, %s) produced %s, the JSON round trip of the value stored now (%T) gives %s", key, d.name, zoo.Describe(reflect.ValueOf(dest).Elem().Interface()), v, zoo.Describe(reflect.ValueOf(refDest).Elem().Interface()))
	}
	var dr any = d.mk()
	var er error
	if p, _ := call(func() { er = flyt.NewResult(v).Bind(dr) }); !p && (er != nil) != (err != nil) {
		return "stateful-store-vs-result", fmt.Sprintf("SharedStore.Bind(%q) error=%v but Result.Bind on the same value error=%v", key, err, er)
	}
	return "", ""
}

func statefulBindProbe(dests []namedDest) storeProbe {
	return func(si int, st StoreStep, s *flyt.SharedStore, ref map[string]any) (string, string) {
		for ki, k := range storeKeys {
			v, ok := ref[k]
			if !ok {
				continue
			}
			for j := 0; j < 3; j++ {
				d := dests[(si*7+ki*3+j*11)%len(dests)]
				if fk, fd := checkStoreBindNow(s, k, v, d); fk != "" {
					return fk, fmt.Sprintf("step %d (%s): %s", si, st.Op, fd)
				}
			}
			// a key that is absent stays absent however it is spelled: "<key>.<field>" of a stored map is not a key
			if m, isMap := v.(map[string]any); isMap {
				for f := range m {
					dk := k + "." + f
					if _, present := ref[dk]; present {
						continue
					}
					var out any
					if err := s.Bind(dk, &out); err == nil {
						return "stateful-bind-absent-key", fmt.Sprintf("step %d (%s): Bind(%q) returned nil although no such key is stored (Has=%v); key %q holds a map with field %q", si, st.Op, dk, s.Has(dk), k, f)
					}
					break
				}
			}
		}
		return "", ""
	}
}

func runC16Stateful(c *Cfg) {
	r := c.Rep
	n := c.Pick(3000, 150000)
	dests := bindDests()
	parallel(c, n, func(i int) {
		cs := genStoreCase(c, 2_000_000+i, 60)
		rg := c.Rng("c16st", i)
		for j := range cs.Steps {
			if rg.IntN(5) == 0 {
				cs.Steps[j].Op = "mutate-in-place"
			}
		}
		key, detail, stats := runStoreCaseWith(cs, bindValues(), statefulBindProbe(dests))
		r.Eval()
		r.Count("stateful.sequences", 1)
		r.Count("stateful.steps", int64(stats["steps"]))
		r.Count("stateful.in_place_mutations", int64(stats["in_place_mutations"]))
		if key != "" && strings.HasPrefix(key, "stateful") {
			cs.Family = "stateful"
			r.Violate("C16", "C16:"+key, detail, cs)
		}
		b, _ := json.Marshal(cs.Steps)
		r.Nontrivial("st:" + string(b))
	})
}

func runC16(c *Cfg) {
	r := c.Rep
	runSpecial(c, "C16", "bind-cyclic-values")
	runSpecial(c, "C16", "bind-store-aware-hooks")
	runSpecial(c, "C16", "bind-same-named-types")
	runSpecial(c, "C16", "bind-aliased-subvalues")
	runC16Stateful(c)
	vals := append(bindValues(), zoo.Fixed()...)
	dests := bindDests()
	type pair struct{ vi, di int }
	var pairs []pair
	for vi := range vals {
		for di := range dests {
			pairs = append(pairs, pair{vi, di})
		}
	}
	parallel(c, len(pairs), func(i int) {
		p := pairs[i]
		fs, class := checkBind(vals[p.vi].V, dests[p.di].mk)
		r.Eval()
		r.Count("fixed.pairs", 1)
		r.Count("class."+class, 1)
		bc := BindCase{Family: "fixed", Val: vals[p.vi].Name, Dest: dests[p.di].name}
		for _, f := range fs {
			r.Violate("C16", "C16:"+f.key, f.detail, bc)
		}
		r.Nontrivial("fixed:" + bc.Val + ">" + bc.Dest)
		if class == "json-roundtrip" && i%97 == 0 {
			r.Sample("fixed", map[string]any{"case": bc, "class": class})
		}
	})
	n := c.Pick(60000, 2500000)
	parallel(c, n, func(i int) {
		var v any
		var mk func() any
		var dn string
		if p, _ := call(func() { v, mk, dn = genBindPair(c, i, c.Seed) }); p {
			r.Count("generated.generator_panics", 1)
			return
		}
		fs, class := checkBind(v, mk)
		r.Eval()
		r.Count("generated.pairs", 1)
		r.Count("class."+class, 1)
		bc := BindCase{Family: "generated", Gen: i, Seed: c.Seed, Val: fmt.Sprintf("%T", v), Dest: dn}
		for _, f := range fs {
			r.Violate("C16", "C16:"+f.key, f.detail, bc)
		}
		r.Nontrivial(fmt.Sprintf("gen:%T>%s:%s", v, dn, zoo.Describe(v)))
	})
}

func replayC16(c *Cfg, spec json.RawMessage) {
	var probeFam struct {
		Family string `json:"family"`
	}
	if json.Unmarshal(spec, &probeFam) == nil && probeFam.Family == "stateful" {
		var cs StoreCase
		_ = json.Unmarshal(spec, &cs)
		key, detail, _ := runStoreCaseWith(&cs, bindValues(), statefulBindProbe(bindDests()))
		if key != "" {
			fmt.Printf(" * finding %s: %s\n", key, detail)
			c.Rep.Violate("C16", "C16:"+key, detail, cs)
		}
		return
	}
	var bc BindCase
	if err := json.Unmarshal(spec, &bc); err != nil {
		fmt.Println("cannot parse:", err)
		return
	}
	var v any
	var mk func() any
	if bc.Family == "generated" {
		v, mk, _ = genBindPair(c, bc.Gen, bc.Seed)
	} else {
		for _, x := range append(bindValues(), zoo.Fixed()...) {
			if x.Name == bc.Val {
				v = x.V
			}
		}
		for _, d := range bindDests() {
			if d.name == bc.Dest {
				mk = d.mk
			}
		}
	}
	if mk == nil {
		fmt.Println("unknown destination")
		return
	}
	fmt.Printf("value %T %s -> destination %T\n", v, zoo.Describe(v), mk())
	fs, class := checkBind(v, mk)
	fmt.Println("reference class:", class)
	for _, f := range fs {
		fmt.Printf(" * finding %s: %s\n", f.key, f.detail)
		c.Rep.Violate("C16", "C16:"+f.key, f.detail, bc)
	}
}
