// Package engines contains one monitor engine per property.
package engines

import (
	"encoding/json"
	"fmt"
	"math/rand/v2"
	"os"
	"runtime"
	"runtime/debug"
	"sort"
	"strings"
	"sync"
	"sync/atomic"
	"time"

	"verif/harness/internal/quiesce"
	"verif/harness/internal/rep"
	"verif/harness/internal/scen"
)

// Cfg is what the child's command line gives an engine.
type Cfg struct {
	Tier    string
	Seed    int64
	Shard   int
	NShards int
	Workers int
	Rep     *rep.Report
	CurFile string // file that receives the spec of the case about to run (crash forensics)
	Verbose bool
}

func (c *Cfg) Thorough() bool { return c.Tier == "thorough" }

// Pick returns q in the quick tier and t in the thorough tier.
func (c *Cfg) Pick(q, t int) int {
	if c.Thorough() {
		return t
	}
	return q
}

// Mine reports whether case index i belongs to this shard.
func (c *Cfg) Mine(i int) bool { return c.NShards <= 1 || i%c.NShards == c.Shard }

// Rng returns the PRNG of case i of a stream (deterministic in seed, stream, i).
func (c *Cfg) Rng(stream string, i int) *rand.Rand {
	return rand.New(rand.NewPCG(uint64(c.Seed)*0x9E3779B97F4A7C15+rep.Hash(stream), uint64(i)+1))
}

// Engine is one registered monitor engine.
type Engine struct {
	Prop   string
	Doc    string
	Gated  bool // uses the quiescence detector: one case at a time per process
	Run    func(c *Cfg)
	Replay func(c *Cfg, spec json.RawMessage)
}

var Registry = map[string]*Engine{}

func register(e *Engine) {
	inner := e.Replay
	e.Replay = func(c *Cfg, spec json.RawMessage) {
		if replaySpecial(c, e.Prop, spec) {
			return
		}
		inner(c, spec)
	}
	Registry[e.Prop] = e
}

func Names() []string {
	var n []string
	for k := range Registry {
		n = append(n, k)
	}
	sort.Strings(n)
	return n
}

// parallel runs fn(i) for i in [0,n) that belong to this shard on Workers goroutines.
func parallel(c *Cfg, n int, fn func(i int)) {
	w := c.Workers
	if w <= 0 {
		w = runtime.GOMAXPROCS(0)
	}
	var next atomic.Int64
	var wg sync.WaitGroup
	for g := 0; g < w; g++ {
		wg.Add(1)
		go func() {
			defer wg.Done()
			for {
				i := int(next.Add(1) - 1)
				if i >= n {
					return
				}
				if c.Mine(i) {
					fn(i)
				}
			}
		}()
	}
	wg.Wait()
}

// logCase writes the spec of the case about to run.
func logCase(c *Cfg, spec any) {
	if c.CurFile == "" {
		return
	}
	b, _ := json.Marshal(spec)
	_ = os.WriteFile(c.CurFile, b, 0o644)
}

// ScenCase is the replayable case of the trace engines.
type ScenCase struct {
	Family   string         `json:"family"`
	Scenario *scen.Scenario `json:"scenario"`
}

// runScenario executes all runs of a scenario on the real library and on the model.
func runScenario(sc *scen.Scenario) ([]scen.Outcome, []scen.ModelRun) {
	x := scen.NewExec(sc)
	m := scen.NewModel(sc)
	runs := sc.Runs
	if runs < 1 {
		runs = 1
	}
	outs := make([]scen.Outcome, 0, runs)
	mrs := make([]scen.ModelRun, 0, runs)
	for i := 0; i < runs; i++ {
		outs = append(outs, x.RunOnce())
		if sc.Inject.OneRun && sc.Inject.Run == i && sc.Inject.Kind != "" {
			// this run is cancelled: the model does not predict it, it only follows what the run consumed
			m.AfterObservedRun(&outs[i])
			mrs = append(mrs, scen.ModelRun{Trunc: true})
			continue
		}
		mrs = append(mrs, m.Run())
	}
	return outs, mrs
}

// judgeFor runs a scenario and reports the findings that belong to prop.
// It returns the outcomes for further, engine specific checks.
func judgeFor(c *Cfg, prop, family string, sc *scen.Scenario) ([]scen.Outcome, []scen.ModelRun) {
	outs, mrs := runScenario(sc)
	c.Rep.EvalN(int64(len(outs)))
	for i := range outs {
		for _, e := range outs[i].Events {
			c.Rep.Count("events."+e.Phase, 1)
		}
		if i > 0 && mrs[i-1].Trunc && !(sc.Inject.OneRun && sc.Inject.Run == i-1) {
			// the model gave up on the previous run (step bound): it no longer knows what that run consumed, so the
			// later runs of this scenario cannot be judged
			c.Rep.Count("unjudged.runs_after_model_step_bound", 1)
			break
		}
		jsc := sc
		if sc.Inject.OneRun {
			if sc.Inject.Run == i {
				continue // the cancelled run itself is C05's subject
			}
			jsc = sc.Clone()
			jsc.Inject = scen.Inject{}
		}
		for _, f := range scen.Judge(jsc, &mrs[i], &outs[i]) {
			if f.Prop != prop {
				continue
			}
			c.Rep.Violate(prop, prop+":"+f.Key, fmt.Sprintf("run %d: %s", i, f.Detail), ScenCase{family, sc})
		}
	}
	if prop == "C04" {
		// the error value a run returned is the caller's to keep: it still matches that run's callback error after
		// LATER runs of the same objects have come and gone
		for i := 0; i+1 < len(outs); i++ {
			now := outs[i].MatchAgain()
			lost := false
			for _, id := range strings.Split(outs[i].ErrID, "+") { // (identity-less error values match more ids as runs go by: only a LOST match counts)
				if id != "" && id != "ctx" && !strings.Contains("+"+now+"+", "+"+id+"+") {
					lost = true
				}
			}
			if lost {
				c.Rep.Violate("C04", "C04:error-of-an-earlier-run-changed", fmt.Sprintf("the error run %d returned matched %q (errors.Is/As) when it was returned; after %d further run(s) of the same objects the very same error value matches %q", i, outs[i].ErrID, len(outs)-1-i, now), ScenCase{family, sc})
				break
			}
		}
	}
	return outs, mrs
}

// replayScenario prints model and observation side by side.
func replayScenario(c *Cfg, prop string, spec json.RawMessage) {
	var cs ScenCase
	if err := json.Unmarshal(spec, &cs); err != nil || cs.Scenario == nil {
		fmt.Println("cannot parse case:", err)
		return
	}
	if cs.Family == "rerun-after-cancelled-run" {
		x := scen.NewExec(cs.Scenario)
		o0 := x.RunOnce()
		o1 := x.RunOnce()
		fmt.Printf("run 0 (cancelled inside callback #%d): errNil=%v err=%q\nrun 1 (live context): action=%q errNil=%v err=%q events=%v\n", o0.CancelSeq, o0.ErrNil, o0.ErrText, o1.Action, o1.ErrNil, o1.ErrText, len(o1.Events))
		clean := cs.Scenario.Clone()
		clean.Inject = scen.Inject{}
		for _, f := range scen.Judge(clean, nil, &o1) {
			if f.Prop == prop {
				fmt.Printf(" * finding %s %s: %s\n", f.Prop, f.Key, f.Detail)
				c.Rep.Violate(prop, prop+":after-cancelled-run:"+f.Key, f.Detail, cs)
			}
		}
		return
	}
	if cs.Family == "cancel-inside-the-last-callback" {
		for _, f := range lastCallbackCancelFindings(cs.Scenario) {
			fmt.Printf(" * finding %s: %s\n", f.key, f.detail)
			c.Rep.Violate(prop, prop+":"+f.key, f.detail, cs)
		}
		return
	}
	outs, mrs := runScenario(cs.Scenario)
	for i := range outs {
		fmt.Printf("--- run %d\nmodel   : %v -> action=%q err=%q log=%v\n", i, mrs[i].Keys, mrs[i].Action, mrs[i].ErrID, mrs[i].Log)
		fmt.Printf("observed: action=%q errNil=%v errID=%q err=%q panic=%q log=%v\n", outs[i].Action, outs[i].ErrNil, outs[i].ErrID, outs[i].ErrText, outs[i].Panic, outs[i].Store)
		for _, e := range outs[i].Events {
			b, _ := json.Marshal(e)
			fmt.Println("   ", string(b))
		}
		if i > 0 && mrs[i-1].Trunc && !(cs.Scenario.Inject.OneRun && cs.Scenario.Inject.Run == i-1) {
			fmt.Println("  (the model hit its step bound in the previous run: later runs are not judged)")
			break
		}
		jsc := cs.Scenario
		if jsc.Inject.OneRun {
			if jsc.Inject.Run == i {
				fmt.Println("  (the cancelled run: not judged here)")
				continue
			}
			jsc = jsc.Clone()
			jsc.Inject = scen.Inject{}
		}
		for _, f := range scen.Judge(jsc, &mrs[i], &outs[i]) {
			mark := " "
			if f.Prop == prop {
				mark = "*"
			}
			fmt.Printf(" %s finding %s %s: %s\n", mark, f.Prop, f.Key, f.Detail)
			if f.Prop == prop {
				c.Rep.Violate(prop, prop+":"+f.Key, f.Detail, cs)
			}
		}
	}
}

func scenSig(sc *scen.Scenario) string {
	b, _ := json.Marshal(sc)
	return string(b)
}

func runtimeStack(b []byte) int { return runtime.Stack(b, true) }

// runOrDeadlock runs fn (a small free-running scenario: a few batches, no harness gates) on a goroutine of its own. If
// fn has not returned after a while and three looks in a row show every goroutine blocked with nothing asleep in a
// timer, nothing can ever run again: deadlocked is that verdict (the goroutines are left behind). incon: fn neither
// returned nor came to rest within two minutes.
func runOrDeadlock(fn func()) (deadlocked bool, incon string) {
	done := make(chan struct{})
	go func() {
		defer close(done)
		fn()
	}()
	select {
	case <-done:
		return false, ""
	case <-time.After(300 * time.Millisecond):
	}
	defer setGCOff()()
	self := quiesce.Self()
	var st quiesce.Stats
	quiet := 0
	for t0 := time.Now(); time.Since(t0) < 2*time.Minute; {
		sn, ok := quiesce.Wait(self, 300*time.Millisecond, &st)
		select {
		case <-done:
			return false, ""
		default:
		}
		if ok && sn.Sleepers == 0 {
			quiet++
			if quiet >= 3 {
				return true, ""
			}
		} else {
			quiet = 0
		}
		select {
		case <-done:
			return false, ""
		case <-time.After(100 * time.Millisecond):
		}
	}
	return false, "a free-running scenario neither finished nor came to rest within two minutes"
}

// guarded runs fn on a goroutine of its own and waits for it. If fn has not returned after grace, the goroutine's
// wait state is looked at twice, one second apart: parked on a lock (mutex / rwmutex / semaphore) both times means
// it is waiting for something only another goroutine could release — and when everything fn touches is private to
// fn, nothing ever will. stuck reports that verdict (the goroutine is left behind); incon any other kind of delay.
func guarded(grace time.Duration, fn func()) (stuck bool, state string, incon bool) {
	done := make(chan struct{})
	gid := make(chan int, 1)
	go func() {
		defer close(done)
		gid <- quiesce.Self()
		fn()
	}()
	id := <-gid
	select {
	case <-done:
		return false, "", false
	case <-time.After(grace):
	}
	self := quiesce.Self()
	lockState := func(s string) bool {
		return s == "sync.Mutex.Lock" || s == "sync.RWMutex.RLock" || s == "sync.RWMutex.Lock" || s == "semacquire"
	}
	for try := 0; try < 20; try++ {
		s1 := quiesce.Snap(self).States[id]
		select {
		case <-done:
			return false, "", false
		case <-time.After(time.Second):
		}
		s2 := quiesce.Snap(self).States[id]
		select {
		case <-done:
			return false, "", false
		default:
		}
		if s1 == s2 && lockState(s1) {
			return true, s1, false
		}
	}
	return false, "", true
}

// setGCOff switches the collector off and returns the function that restores it.
func setGCOff() func() {
	old := debug.SetGCPercent(-1)
	return func() { debug.SetGCPercent(old) }
}

func runGC() { runtime.GC() }


// lastCallbackCancelFindings: the scenario (one run, Inject.At = index of the final callback of the un-cancelled
// reference run, which succeeds) is run with the context being cancelled inside that final callback: every phase on the
// path has succeeded and nothing is left to do, so the run reports success.
func lastCallbackCancelFindings(sc *scen.Scenario) (fs []finding) {
	o := scen.NewExec(sc).RunOnce()
	if o.Discard || o.Panic != "" || o.CancelSeq != sc.Inject.At {
		return nil
	}
	n := 0
	for _, e := range o.Events {
		if e.Phase != "anomaly" {
			n++
		}
	}
	if n != sc.Inject.At+1 {
		return nil // not the run the reference predicted (another property's business)
	}
	if !o.ErrNil {
		fs = append(fs, finding{"error-although-every-phase-succeeded", fmt.Sprintf("the context was cancelled (%s) inside the final callback (#%d, %s) of a run in which every callback succeeded and after which nothing was left to do; the run returned the error %q instead of success", sc.Inject.Kind, sc.Inject.At, o.Events[len(o.Events)-1].Key(), o.ErrText)})
	}
	return fs
}
