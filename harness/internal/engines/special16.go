package engines

// Dedicated scenarios added in round 16 (registered in init below; see special.go for the wiring).

import (
	"context"
	"errors"
	"fmt"
	"runtime"
	"sort"
	"sync"
	"sync/atomic"
	"time"

	"github.com/mark3labs/flyt"
)

func init() {
	specials["partial-func-nodes-done-ctx"] = partialFuncNodesDoneCtx
	specials["wildcard-lookalike-actions"] = wildcardLookalikeActions
	specials["bind-same-named-types"] = bindSameNamedTypes
	specials["keys-append-isolation"] = keysAppendIsolation
	specials["panicking-batch-item"] = panickingBatchItem
	specials["startless-inner-flow-with-edges"] = startlessInnerFlowWithEdges
	specials["rerun-after-stopped-concurrent-run"] = rerunAfterStoppedConcurrentRun
	specials["replaced-exec-style"] = replacedExecStyle
	specials["batch-attempts-see-live-context"] = batchAttemptsSeeLiveContext
	specials["cancel-inside-a-short-retry-wait"] = cancelInsideShortRetryWait
}

// partialFuncNodesDoneCtx (C05): function-style nodes on which only SOME of the functions are configured (every
// non-empty subset of prep / exec / post / fallback, both styles, both construction routes), run directly and as the
// only node of a flow under a context that is already done: no callback at all, and the context's error.
func partialFuncNodesDoneCtx() (fs []finding) {
	for mask := 1; mask < 16; mask++ {
		for style := 0; style < 2; style++ {
			for route := 0; route < 2; route++ {
				for ck := 0; ck < 2; ck++ {
					for via := 0; via < 2; via++ {
						var calls atomic.Int32
						var opts []any
						nb := flyt.NewNode()
						if mask&1 != 0 {
							if style == 0 {
								f := func(context.Context, *flyt.SharedStore) (flyt.Result, error) {
									calls.Add(1)
									return flyt.NewResult(1), nil
								}
								opts = append(opts, flyt.WithPrepFunc(f))
								nb.WithPrepFunc(f)
							} else {
								f := func(context.Context, *flyt.SharedStore) (any, error) { calls.Add(1); return 1, nil }
								opts = append(opts, flyt.WithPrepFuncAny(f))
								nb.WithPrepFuncAny(f)
							}
						}
						if mask&2 != 0 {
							if style == 0 {
								f := func(context.Context, flyt.Result) (flyt.Result, error) { calls.Add(1); return flyt.NewResult(2), nil }
								opts = append(opts, flyt.WithExecFunc(f))
								nb.WithExecFunc(f)
							} else {
								f := func(context.Context, any) (any, error) { calls.Add(1); return 2, nil }
								opts = append(opts, flyt.WithExecFuncAny(f))
								nb.WithExecFuncAny(f)
							}
						}
						if mask&4 != 0 {
							if style == 0 {
								f := func(context.Context, *flyt.SharedStore, flyt.Result, flyt.Result) (flyt.Action, error) {
									calls.Add(1)
									return "routed", nil
								}
								opts = append(opts, flyt.WithPostFunc(f))
								nb.WithPostFunc(f)
							} else {
								f := func(context.Context, *flyt.SharedStore, any, any) (flyt.Action, error) {
									calls.Add(1)
									return "routed", nil
								}
								opts = append(opts, flyt.WithPostFuncAny(f))
								nb.WithPostFuncAny(f)
							}
						}
						if mask&8 != 0 {
							f := func(any, error) (any, error) { calls.Add(1); return "rescued", nil }
							opts = append(opts, flyt.WithExecFallbackFunc(f))
							nb.WithExecFallbackFunc(f)
						}
						var node flyt.Node = nb
						if route == 1 {
							node = flyt.NewNode(opts...)
						}
						ctx, cancel := context.WithCancel(context.Background())
						if ck == 1 {
							ctx, cancel = context.WithDeadline(context.Background(), time.Now().Add(-time.Second))
						} else {
							cancel()
						}
						var err error
						var act flyt.Action
						if via == 0 {
							act, err = flyt.Run(ctx, node, flyt.NewSharedStore())
						} else {
							err = flyt.NewFlow(node).Run(ctx, flyt.NewSharedStore())
						}
						cancel()
						what := fmt.Sprintf("function node with the functions %s%s%s%s configured (style %d, route %d), context already %s, run %s", pick(mask&1 != 0, "prep ", ""), pick(mask&2 != 0, "exec ", ""), pick(mask&4 != 0, "post ", ""), pick(mask&8 != 0, "fallback ", ""), style, route, pick(ck == 0, "cancelled", "past its deadline"), pick(via == 0, "directly", "as the only node of a flow"))
						if n := calls.Load(); n != 0 && len(fs) < 6 {
							fs = append(fs, finding{"partial-func-node:callback-under-done-context", fmt.Sprintf("%s: %d callback(s) were invoked (result %q, %v)", what, n, act, err)})
						}
						if (err == nil || !errors.Is(err, ctx.Err())) && len(fs) < 6 {
							fs = append(fs, finding{"partial-func-node:done-context-not-reported", fmt.Sprintf("%s: returned (%q, %v), want an error matching %v", what, act, err, ctx.Err())})
						}
					}
				}
			}
		}
	}
	return fs
}

func pick(b bool, x, y string) string {
	if b {
		return x
	}
	return y
}

// wildcardLookalikeActions (C03, C18): action names that look like wildcards or near-misses of the default action are
// ordinary names. A node with a connection on the default action and another one on such a name follows the default
// connection whenever it reports the default (or empty) action, and the other one only for that exact name.
func wildcardLookalikeActions() (fs []finding) {
	looks := []flyt.Action{"*", ".*", "any", "?", "Default", "default ", "*default", "_", "else"}
	for li, look := range looks {
		for order := 0; order < 2; order++ {
			for _, ret := range []flyt.Action{"", flyt.DefaultAction, look} {
				hitD, hitL, failed := 0, 0, 0
				for rep := 0; rep < 40; rep++ {
					var d, l int
					a := flyt.NewNode().WithPostFunc(func(context.Context, *flyt.SharedStore, flyt.Result, flyt.Result) (flyt.Action, error) {
						return ret, nil
					})
					pd := &probeNode{flyt.NewBaseNode(), &d}
					pl := &probeNode{flyt.NewBaseNode(), &l}
					f := flyt.NewFlow(a)
					if order == 0 {
						f.Connect(a, flyt.DefaultAction, pd).Connect(a, look, pl)
					} else {
						f.Connect(a, look, pl).Connect(a, flyt.DefaultAction, pd)
					}
					if err := f.Run(context.Background(), flyt.NewSharedStore()); err != nil {
						failed++
					}
					hitD += d
					hitL += l
				}
				wantD, wantL := 40, 0
				if ret == look {
					wantD, wantL = 0, 40
				}
				if (hitD != wantD || hitL != wantL || failed != 0) && len(fs) < 4 {
					fs = append(fs, finding{"lookalike-action-route", fmt.Sprintf("node connected on %q and on %q (lookalike #%d, connect order %d) reporting %q in 40 runs: default connection followed %d times (want %d), the %q connection %d times (want %d), %d runs failed", flyt.DefaultAction, look, li, order, ret, hitD, wantD, look, hitL, wantL, failed)})
				}
			}
		}
	}
	return fs
}

// Two pairs of distinct struct types that print the same name (function-local types).
func sameNamedT1() (any, func() any) {
	type T struct {
		A      int `json:"a"`
		hidden int
	}
	return T{A: 1, hidden: 7}, func() any { return &T{} }
}

func sameNamedT2() (any, func() any) {
	type T struct {
		A int    `json:"a"`
		B string `json:"b"`
	}
	return T{A: 5, B: "five"}, func() any { return &T{} }
}

func sameNamedU1() (any, func() any) {
	type U struct {
		A      int `json:"a"`
		hidden int
	}
	return U{A: 1, hidden: 7}, func() any { return &U{} }
}

func sameNamedU2() (any, func() any) {
	type U struct {
		A int    `json:"a"`
		B string `json:"b"`
	}
	return U{A: 5, B: "five"}, func() any { return &U{} }
}

// bindSameNamedTypes (C16): "the value's own type" is decided by the type, not by how it prints. T: own type first, then
// the other type of the same name; U: the other type first, then the own type.
func bindSameNamedTypes() (fs []finding) {
	bind := func(route int, v any, dst any) (err error, pn any) {
		defer func() { pn = recover() }()
		if route == 0 {
			return flyt.NewResult(v).Bind(dst), nil
		}
		st := flyt.NewSharedStore()
		st.Set("k", v)
		return st.Bind("k", dst), nil
	}
	check := func(name string, step int, route int, v any, dst any, same bool) {
		err, pn := bind(route, v, dst)
		got := fmt.Sprintf("%+v", dst)
		if pn != nil {
			fs = append(fs, finding{"bind-same-named-types:panic", fmt.Sprintf("types named %s, step %d, route %d: Bind of %+v into %T (%s) panicked: %v", name, step, route, v, dst, pick(same, "the value's own type", "another type of the same name"), pn)})
			return
		}
		want := "&{A:1 B:}"
		if same {
			want = "&{A:1 hidden:7}"
		}
		if err != nil || got != want {
			fs = append(fs, finding{"bind-same-named-types:value", fmt.Sprintf("types named %s, step %d, route %d: Bind of %+v into %T (%s) gave %s, %v; want %s, <nil>", name, step, route, v, dst, pick(same, "the value's own type: an unchanged copy", "another type that prints the same name: the JSON round trip"), got, err, want)})
		}
	}
	for route := 0; route < 2; route++ {
		tv, tOwn := sameNamedT1()
		_, tOther := sameNamedT2()
		check("T", 1, route, tv, tOwn(), true)
		check("T", 2, route, tv, tOther(), false)
		check("T", 3, route, tv, tOwn(), true)
		uv, uOwn := sameNamedU1()
		_, uOther := sameNamedU2()
		check("U", 1, route, uv, uOther(), false)
		check("U", 2, route, uv, uOwn(), true)
		check("U", 3, route, uv, uOther(), false)
	}
	if len(fs) > 4 {
		fs = fs[:4]
	}
	return fs
}

// keysAppendIsolation (C14): the slices Keys returns are independent copies — growing one of them changes neither
// another one taken before or after it nor the store, and later Keys calls do not change what was appended.
func keysAppendIsolation() (fs []finding) {
	for n := 0; n <= 40; n++ {
		st := flyt.NewSharedStore()
		var want []string
		for i := 0; i < n; i++ {
			k := fmt.Sprintf("k%02d", i)
			st.Set(k, i)
			want = append(want, k)
		}
		sorted := func(s []string) string { c := append([]string(nil), s...); sort.Strings(c); return fmt.Sprint(c) }
		k1 := st.Keys()
		k2 := st.Keys()
		k1 = append(k1, "appended-1", "appended-2")
		k3 := st.Keys()
		k2 = append(k2, "appended-3")
		k4 := st.Keys()
		_ = append(k4[:0], "zz") // overwrite the front of the latest one
		bad := ""
		switch {
		case len(k1) != n+2 || k1[n] != "appended-1" || k1[n+1] != "appended-2" || sorted(k1[:n]) != fmt.Sprint(want):
			bad = fmt.Sprintf("the first slice, grown by two elements, now reads %v", k1)
		case len(k2) != n+1 || k2[n] != "appended-3" || sorted(k2[:n]) != fmt.Sprint(want):
			bad = fmt.Sprintf("the second slice, grown by one element, now reads %v", k2)
		case sorted(k3) != fmt.Sprint(want):
			bad = fmt.Sprintf("a slice taken after the first one was grown reads %v", k3)
		case sorted(st.Keys()) != fmt.Sprint(want) || st.Len() != n:
			bad = fmt.Sprintf("the store now lists %v", st.Keys())
		}
		if bad != "" && len(fs) < 3 {
			fs = append(fs, finding{"keys-append-isolation", fmt.Sprintf("store with %d keys, four Keys() slices taken, two of them grown with append, one overwritten in place: %s; want every slice to hold the store's keys %v plus only what its own holder appended", n, bad, want)})
		}
	}
	return fs
}

// panickingBatchItem (C09): an item whose exec panics has no outcome. The library may let the panic escape (the run
// does not return) or turn it into an error; it may not hand the slot to post as a success, nor — in stop mode — go on
// to later items as if nothing had failed.
func panickingBatchItem() (fs []finding) {
	for n := 1; n <= 5; n++ {
		for at := 0; at < n; at++ {
			for mode := 0; mode < 2; mode++ {
				for style := 0; style < 2; style++ {
					var slots []flyt.Result
					var after int
					posted := false
					bn := flyt.NewBatchNode().WithBatchErrorHandling(mode == 0).
						WithPrepFunc(func(context.Context, *flyt.SharedStore) ([]flyt.Result, error) {
							rs := make([]flyt.Result, n)
							for i := range rs {
								rs[i] = flyt.NewResult(i)
							}
							return rs, nil
						}).
						WithPostFunc(func(_ context.Context, _ *flyt.SharedStore, _, res []flyt.Result) (flyt.Action, error) {
							posted, slots = true, res
							return "done", nil
						})
					body := func(i int) {
						if i == at {
							panic(fmt.Sprintf("item %d blew up", i))
						}
						if i > at {
							after++
						}
					}
					if style == 0 {
						bn.WithExecFunc(func(_ context.Context, it flyt.Result) (flyt.Result, error) { body(it.Value().(int)); return it, nil })
					} else {
						bn.WithExecFuncAny(func(_ context.Context, v any) (any, error) { body(v.(int)); return v, nil })
					}
					var pn any
					var err error
					func() {
						defer func() { pn = recover() }()
						_, err = flyt.Run(context.Background(), bn, flyt.NewSharedStore())
					}()
					if pn != nil || !posted {
						continue // the panic escaped, or the run ended in an error before post: nothing was presented as a success
					}
					what := fmt.Sprintf("sequential batch of %d items, %s mode, style %d, the exec of item %d panics; the run returned normally (err %v)", n, pick(mode == 0, "continue", "stop"), style, at, err)
					if at < len(slots) && !slots[at].IsError() && len(fs) < 4 {
						fs = append(fs, finding{"panicked-item-as-success", fmt.Sprintf("%s and post received a non-error result (%v) for the item whose exec never returned", what, slots[at].Value())})
					}
					if mode == 1 && after > 0 && len(fs) < 4 {
						fs = append(fs, finding{"items-after-panicked-item-in-stop-mode", fmt.Sprintf("%s and %d later item(s) were executed", what, after)})
					}
				}
			}
		}
	}
	return fs
}

// startlessInnerFlowWithEdges (C10, C03): an embedded flow built without a start node has no path, whether or not
// connections were declared on it: reaching it ends the run with an error, none of the nodes mentioned in its
// connections is touched and the parent does not go on.
func startlessInnerFlowWithEdges() (fs []finding) {
	for depth := 1; depth <= 3; depth++ {
		for edges := 0; edges <= 2; edges++ {
			var s, a, b, t int
			ps, pa, pb, pt := &probeNode{flyt.NewBaseNode(), &s}, &probeNode{flyt.NewBaseNode(), &a}, &probeNode{flyt.NewBaseNode(), &b}, &probeNode{flyt.NewBaseNode(), &t}
			inner := flyt.NewFlow(nil)
			if edges >= 1 {
				inner.Connect(pa, flyt.DefaultAction, pb)
			}
			if edges >= 2 {
				inner.Connect(pb, flyt.DefaultAction, nil)
			}
			var mid flyt.Node = inner
			for d := 1; d < depth; d++ {
				mid = flyt.NewFlow(mid)
			}
			outer := flyt.NewFlow(ps)
			outer.Connect(ps, flyt.DefaultAction, mid)
			outer.Connect(mid, flyt.DefaultAction, pt)
			err := outer.Run(context.Background(), flyt.NewSharedStore())
			if (err == nil || a+b+t != 0 || s != 1) && len(fs) < 3 {
				fs = append(fs, finding{"startless-inner-flow", fmt.Sprintf("S -> inner -> T where inner is a flow built without a start node, %d connection(s) declared on it, wrapped %d deep: run returned %v; visits S=%d, nodes named in inner's connections A=%d B=%d, T=%d; want an error after S and no other visit", edges, depth-1, err, s, a, b, t)})
			}
		}
	}
	return fs
}

// rerunAfterStoppedConcurrentRun (C02): a batch node object that is run again after a run that was stopped by a failed
// item: in the later run nothing fails, so every item gets exactly one attempt and no fallback — whatever the earlier
// run left behind.
func rerunAfterStoppedConcurrentRun() (fs []finding) {
	for _, c := range []int{0, 1, 3} {
		for _, viaBuilder := range []bool{true, false} {
			for _, firstFailsAt := range []int{0, 2} {
				var mu sync.Mutex
				pass := 0
				attempts := map[int]int{}
				fallbacks := 0
				var slots []flyt.Result
				bn := flyt.NewBatchNode(flyt.WithExecFallbackFunc(func(any, error) (any, error) {
					mu.Lock()
					defer mu.Unlock()
					if pass == 1 {
						fallbacks++
					}
					return nil, errors.New("fallback fails too")
				})).WithBatchConcurrency(c).WithBatchErrorHandling(false).
					WithPrepFunc(func(context.Context, *flyt.SharedStore) ([]flyt.Result, error) {
						rs := make([]flyt.Result, 6)
						for i := range rs {
							rs[i] = flyt.NewResult(i)
						}
						return rs, nil
					}).
					WithExecFunc(func(_ context.Context, it flyt.Result) (flyt.Result, error) {
						mu.Lock()
						defer mu.Unlock()
						i := it.Value().(int)
						if pass == 1 {
							attempts[i]++
						}
						if pass == 0 && i == firstFailsAt {
							return flyt.Result{}, errors.New("fails in the first run only")
						}
						return flyt.NewResult(i * 10), nil
					}).
					WithPostFunc(func(_ context.Context, _ *flyt.SharedStore, _, res []flyt.Result) (flyt.Action, error) {
						slots = res
						return "done", nil
					})
				var node flyt.Node = bn
				if !viaBuilder {
					node = bn.BatchNode
				}
				_, _ = flyt.Run(context.Background(), node, flyt.NewSharedStore())
				mu.Lock()
				pass = 1
				mu.Unlock()
				_, err := flyt.Run(context.Background(), node, flyt.NewSharedStore())
				bad := 0
				for i := 0; i < 6; i++ {
					if attempts[i] != 1 || i >= len(slots) || slots[i].IsError() {
						bad++
					}
				}
				if (bad != 0 || fallbacks != 0 || err != nil) && len(fs) < 3 {
					fs = append(fs, finding{"attempts-in-run-after-stopped-run", fmt.Sprintf("batch node (concurrency %d, stop mode, run through the %s) whose first run was stopped by the failure of item %d, run again with nothing failing: exec attempts per item %v, fallback calls %d, error slots/err: %d/%v; want one attempt for each of the 6 items, no fallback, six results", c, pick(viaBuilder, "builder", "*BatchNode"), firstFailsAt, attempts, fallbacks, bad, err)})
				}
			}
		}
	}
	return fs
}

// replacedExecStyle (C17): the exec function is set twice, in different styles, before the node ever runs; the one
// set last is the node's exec function and what IT returns — a value, or an error Result's error state — is what
// post receives.
func replacedExecStyle() (fs []finding) {
	sentinel := errors.New("exec-produced error state")
	for route := 0; route < 2; route++ {
		for order := 0; order < 2; order++ {
			for inFlow := 0; inFlow < 2; inFlow++ {
				var gotErr error
				var gotVal any
				var isErr, posted bool
				anyFn := func(context.Context, any) (any, error) { return "plain value", nil }
				resFn := func(context.Context, flyt.Result) (flyt.Result, error) { return flyt.NewErrorResult(sentinel), nil }
				post := func(_ context.Context, _ *flyt.SharedStore, _ flyt.Result, ex flyt.Result) (flyt.Action, error) {
					posted, isErr, gotErr, gotVal = true, ex.IsError(), ex.Error(), ex.Value()
					return "done", nil
				}
				var node flyt.Node
				if route == 0 {
					nb := flyt.NewNode().WithPostFunc(post)
					if order == 0 {
						nb.WithExecFuncAny(anyFn).WithExecFunc(resFn)
					} else {
						nb.WithExecFunc(resFn).WithExecFuncAny(anyFn)
					}
					node = nb
				} else {
					if order == 0 {
						node = flyt.NewNode(flyt.WithPostFunc(post), flyt.WithExecFuncAny(anyFn), flyt.WithExecFunc(resFn))
					} else {
						node = flyt.NewNode(flyt.WithPostFunc(post), flyt.WithExecFunc(resFn), flyt.WithExecFuncAny(anyFn))
					}
				}
				var err error
				if inFlow == 1 {
					err = flyt.NewFlow(node).Run(context.Background(), flyt.NewSharedStore())
				} else {
					_, err = flyt.Run(context.Background(), node, flyt.NewSharedStore())
				}
				what := fmt.Sprintf("function node (%s) whose exec function was set twice before the run — %s — run %s", pick(route == 0, "builder methods", "constructor options"), pick(order == 0, "Any-style first, then a Result-style one returning an error Result", "Result-style first, then an Any-style one returning a plain value"), pick(inFlow == 1, "inside a flow", "directly"))
				ok := err == nil && posted
				if order == 0 {
					ok = ok && isErr && errors.Is(gotErr, sentinel)
				} else {
					ok = ok && !isErr && gotVal == any("plain value")
				}
				if !ok && len(fs) < 4 {
					fs = append(fs, finding{"replaced-exec-style", fmt.Sprintf("%s: run error %v, post called %v with a result of error state %v (error %v, value %v); want post to receive what the exec function set LAST returned", what, err, posted, isErr, gotErr, gotVal)})
				}
			}
		}
	}
	return fs
}

// batchAttemptsSeeLiveContext (C07): each item gets the same retry treatment as a single node run — in particular every
// attempt of an item is handed a context that is alive as long as the run's context is (an exec function that honours
// its context must not be failed by the library itself).
func batchAttemptsSeeLiveContext() (fs []finding) {
	for _, c := range []int{0, 1, 3} {
		for _, budget := range []int{2, 3, 4} {
			var mu sync.Mutex
			dead := map[int][]int{} // item -> attempts that saw a done context
			att := map[int]int{}
			var slots []flyt.Result
			ctx, cancel := context.WithCancel(context.Background())
			bn := flyt.NewBatchNode().WithBatchConcurrency(c).WithMaxRetries(budget).
				WithPrepFunc(func(context.Context, *flyt.SharedStore) ([]flyt.Result, error) {
					return []flyt.Result{flyt.NewResult(0), flyt.NewResult(1), flyt.NewResult(2), flyt.NewResult(3)}, nil
				}).
				WithExecFunc(func(actx context.Context, it flyt.Result) (flyt.Result, error) {
					mu.Lock()
					defer mu.Unlock()
					i := it.Value().(int)
					att[i]++
					if e := actx.Err(); e != nil {
						dead[i] = append(dead[i], att[i])
						return flyt.Result{}, e // an exec function that honours its context
					}
					if att[i] < budget && i%2 == 0 {
						return flyt.Result{}, fmt.Errorf("item %d attempt %d fails", i, att[i])
					}
					return flyt.NewResult(i), nil
				}).
				WithPostFunc(func(_ context.Context, _ *flyt.SharedStore, _, res []flyt.Result) (flyt.Action, error) {
					slots = res
					return "done", nil
				})
			_, err := flyt.Run(ctx, bn, flyt.NewSharedStore())
			alive := ctx.Err() == nil
			cancel()
			failed := 0
			for _, s := range slots {
				if s.IsError() {
					failed++
				}
			}
			if alive && (len(dead) != 0 || failed != 0 || err != nil || len(slots) != 4) && len(fs) < 3 {
				fs = append(fs, finding{"attempt-under-dead-context", fmt.Sprintf("batch of 4 items (concurrency %d, budget %d; items 0 and 2 fail until their last attempt) under a context that was never cancelled: attempts that were handed a context that is already done: %v (item -> attempt numbers); %d error slots, err %v; want every attempt to see a live context and every item to succeed", c, budget, dead, failed, err)})
			}
		}
	}
	return fs
}

// cancelInsideShortRetryWait (C11): a cancellation that lands while an item sits in a SHORT retry wait (below a
// millisecond) still ends the item: no further attempt. Decided on time stamps taken inside the callbacks: the
// canceller's cancel() has returned before (end of attempt 1 + wait), and the library's own check after the wait
// cannot happen before that instant — so a second attempt means the cancellation was not looked at after the wait.
// Rounds in which the canceller was too slow decide nothing.
func cancelInsideShortRetryWait() (fs []finding) {
	decided, late := 0, 0
	for _, wait := range []time.Duration{900 * time.Microsecond, 600 * time.Microsecond} {
		for _, c := range []int{0, 2} {
			for round := 0; round < 150; round++ {
				ctx, cancel := context.WithCancel(context.Background())
				t0 := time.Now()
				now := func() int64 { return int64(time.Since(t0)) + 1 } // monotonic, never 0
				var end1 atomic.Int64                                    // taken inside attempt 1 of item 0 just before it returns
				var cancelled atomic.Int64                               // taken after cancel() returned
				var second atomic.Int64                                  // when a second attempt of item 0 started (0: none)
				var att atomic.Int32
				stop := make(chan struct{})
				go func() { // the canceller: another goroutine, spinning on the end of attempt 1
					for end1.Load() == 0 {
						select {
						case <-stop:
							cancelled.Store(-1) // the run is over and this goroutine never saw attempt 1 end: the round decides nothing
							return
						default:
							runtime.Gosched()
						}
					}
					cancel()
					cancelled.Store(now())
				}()
				bn := flyt.NewBatchNode().WithBatchConcurrency(c).WithMaxRetries(3).WithWait(wait).
					WithPrepFunc(func(context.Context, *flyt.SharedStore) ([]flyt.Result, error) {
						return []flyt.Result{flyt.NewResult(0)}, nil
					}).
					WithExecFunc(func(_ context.Context, it flyt.Result) (flyt.Result, error) {
						if att.Add(1) == 1 {
							end1.Store(now())
						} else if second.Load() == 0 {
							second.Store(now())
						}
						return flyt.Result{}, errors.New("fails")
					}).
					WithPostFunc(func(context.Context, *flyt.SharedStore, []flyt.Result, []flyt.Result) (flyt.Action, error) {
						return "done", nil
					})
				_, _ = flyt.Run(ctx, bn, flyt.NewSharedStore())
				close(stop)
				for cancelled.Load() == 0 && end1.Load() != 0 {
					time.Sleep(50 * time.Microsecond)
				}
				cancel()
				e1, cd, s2 := end1.Load(), cancelled.Load(), second.Load()
				if e1 == 0 || cd <= 0 || cd >= e1+int64(wait) {
					late++
					continue // the cancellation did not provably land inside the wait
				}
				decided++
				if s2 != 0 && len(fs) < 2 {
					fs = append(fs, finding{"attempt-after-cancel-inside-short-wait", fmt.Sprintf("batch item (concurrency %d, budget 3, retry wait %v): attempt 1 ended at t, another goroutine's cancel() had returned at t+%v — inside the wait — and a second attempt was started at t+%v", c, wait, time.Duration(cd-e1), time.Duration(s2-e1))})
				}
			}
		}
	}
	cancelShortWaitDecided.Store(int64(decided))
	cancelShortWaitLate.Store(int64(late))
	return fs
}

var cancelShortWaitDecided, cancelShortWaitLate atomic.Int64
