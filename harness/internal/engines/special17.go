package engines

// Dedicated scenarios added in round 17 (registered in init below; see special.go for the wiring).

import (
	"context"
	"encoding/json"
	"errors"
	"fmt"
	"math"
	"reflect"
	"sort"
	"sync"
	"sync/atomic"
	"time"

	"github.com/mark3labs/flyt"
)

func init() {
	specials["cycle-through-retried-inner-flow"] = cycleThroughRetriedInnerFlow
	specials["nested-stop-mode-batches"] = nestedStopModeBatches
	specials["large-and-odd-key-populations"] = largeAndOddKeyPopulations
	specials["near-integer-floats"] = nearIntegerFloats
	specials["startless-flow-done-ctx"] = startlessFlowDoneCtx
	specials["limit-with-retry-settings"] = limitWithRetrySettings
	specials["fallback-set-twice"] = fallbackSetTwice
	specials["typed-nil-exec-error"] = typedNilExecError
	specials["bind-aliased-subvalues"] = bindAliasedSubvalues
	specials["node-run-again-after-cancelled-run"] = nodeRunAgainAfterCancelledRun
	specials["typed-lists-with-nil-entries"] = typedListsWithNilEntries
	specials["stop-mode-batch-inside-flows"] = stopModeBatchInsideFlows
}

// cycleThroughRetriedInnerFlow (C03, C10): a cycle that goes 150 times through an inner flow which carries a retry
// budget of 2 and whose only node fails on the first attempt of every visit: every visit follows the table, the run
// ends successfully after exactly the visits the table determines.
func cycleThroughRetriedInnerFlow() (fs []finding) {
	for depth := 1; depth <= 2; depth++ {
		const rounds = 150
		var sVisits, xCalls int
		s := flyt.NewNode().WithPostFunc(func(context.Context, *flyt.SharedStore, flyt.Result, flyt.Result) (flyt.Action, error) {
			sVisits++
			if sVisits > rounds {
				return "exit", nil
			}
			return "again", nil
		})
		x := flyt.NewNode().WithExecFunc(func(context.Context, flyt.Result) (flyt.Result, error) {
			xCalls++
			if xCalls%2 == 1 {
				return flyt.Result{}, errors.New("transient failure")
			}
			return flyt.NewResult("ok"), nil
		})
		inner := flyt.NewFlow(x)
		flyt.WithMaxRetries(2)(inner.BaseNode)
		var mid flyt.Node = inner
		for d := 1; d < depth; d++ {
			mid = flyt.NewFlow(mid)
		}
		outer := flyt.NewFlow(s)
		outer.Connect(s, "again", mid)
		outer.Connect(mid, flyt.DefaultAction, s)
		err := outer.Run(context.Background(), flyt.NewSharedStore())
		if err != nil || sVisits != rounds+1 || xCalls != 2*rounds {
			fs = append(fs, finding{"cycle-through-retried-inner-flow", fmt.Sprintf("S -again-> inner -default-> S, %d rounds, inner (wrapped %d deep) is a flow with a retry budget of 2 whose node fails on the first attempt of every visit: run returned %v after %d visits of S (want %d) and %d executions of the inner node (want %d)", rounds, depth-1, err, sVisits, rounds+1, xCalls, 2*rounds)})
		}
	}
	return fs
}

// nestedStopModeBatches (C06): a stop-mode batch run from inside the exec of an item of another stop-mode batch is a
// run of its own: what stops the inner batch does not touch the outer one, whose items all succeed here.
func nestedStopModeBatches() (fs []finding) {
	for _, oc := range []int{0, 1, 2} {
		for _, ic := range []int{0, 1, 2} {
			for rep := 0; rep < 20; rep++ {
				var mu sync.Mutex
				executed := map[int]int{}
				var slots []flyt.Result
				outer := flyt.NewBatchNode().WithBatchConcurrency(oc).WithBatchErrorHandling(false).
					WithPrepFunc(func(context.Context, *flyt.SharedStore) ([]flyt.Result, error) {
						rs := make([]flyt.Result, 8)
						for i := range rs {
							rs[i] = flyt.NewResult(i)
						}
						return rs, nil
					}).
					WithExecFunc(func(ctx context.Context, it flyt.Result) (flyt.Result, error) {
						i := it.Value().(int)
						mu.Lock()
						executed[i]++
						mu.Unlock()
						inner := flyt.NewBatchNode().WithBatchConcurrency(ic).WithBatchErrorHandling(false).
							WithPrepFunc(func(context.Context, *flyt.SharedStore) ([]flyt.Result, error) {
								return []flyt.Result{flyt.NewResult(0), flyt.NewResult(1), flyt.NewResult(2), flyt.NewResult(3)}, nil
							}).
							WithExecFunc(func(_ context.Context, jt flyt.Result) (flyt.Result, error) {
								if i < 2 && jt.Value().(int) == 0 {
									return flyt.Result{}, errors.New("inner item fails")
								}
								return jt, nil
							})
						_, _ = flyt.Run(ctx, inner, flyt.NewSharedStore()) // the outer item itself succeeds whatever the inner batch did
						return flyt.NewResult(i * 10), nil
					}).
					WithPostFunc(func(_ context.Context, _ *flyt.SharedStore, _, res []flyt.Result) (flyt.Action, error) {
						slots = res
						return "done", nil
					})
				_, err := flyt.Run(context.Background(), outer, flyt.NewSharedStore())
				bad := ""
				for i := 0; i < 8 && bad == ""; i++ {
					if executed[i] != 1 {
						bad = fmt.Sprintf("outer item %d was executed %d times", i, executed[i])
					} else if i >= len(slots) || slots[i].IsError() || slots[i].Value() != any(i*10) {
						bad = fmt.Sprintf("outer result %d is not the outcome of its item: %+v", i, slots)
					}
				}
				if (bad != "" || err != nil) && len(fs) < 3 {
					fs = append(fs, finding{"nested-stop-mode-batches", fmt.Sprintf("outer stop-mode batch (concurrency %d, 8 items, none of them fails) whose exec runs an inner stop-mode batch (concurrency %d) in which an item fails for outer items 0 and 1: %s (run error %v); want every outer item executed once and its own value in its slot", oc, ic, bad, err)})
				}
			}
		}
	}
	return fs
}

// largeAndOddKeyPopulations (C14, C13): the store against a plain map for key populations of a few thousand keys with
// half of them deleted again, and for keys that look like patterns (a Delete / Has / Get of an absent pattern-like key
// touches nothing).
func largeAndOddKeyPopulations() (fs []finding) {
	compare := func(what string, st *flyt.SharedStore, model map[string]any) {
		if len(fs) >= 4 {
			return
		}
		keys := st.Keys()
		sort.Strings(keys)
		var mk []string
		for k := range model {
			mk = append(mk, k)
		}
		sort.Strings(mk)
		if st.Len() != len(model) || fmt.Sprint(keys) != fmt.Sprint(mk) || len(st.GetAll()) != len(model) {
			fs = append(fs, finding{"key-population:listing", fmt.Sprintf("%s: Len %d, %d keys listed, GetAll holds %d; the map holds %d", what, st.Len(), len(keys), len(st.GetAll()), len(model))})
			return
		}
		hidden, wrong := 0, 0
		first := ""
		for k, v := range model {
			got, ok := st.Get(k)
			if !ok || !st.Has(k) {
				hidden++
				if first == "" {
					first = k
				}
			} else if got != v {
				wrong++
			}
		}
		if hidden+wrong > 0 {
			fs = append(fs, finding{"key-population:point-reads", fmt.Sprintf("%s: %d of the map's %d keys are reported absent by Get/Has (first: %q), %d hold another value, although Len/Keys/GetAll list them", what, hidden, len(model), first, wrong)})
		}
	}
	for _, n := range []int{300, 4000} {
		st, model := flyt.NewSharedStore(), map[string]any{}
		for i := 0; i < n; i++ {
			k := fmt.Sprintf("%c%d", 'a'+i%2, i/2)
			st.Set(k, i)
			model[k] = i
		}
		compare(fmt.Sprintf("%d keys set", n), st, model)
		for i := 0; i < n; i += 2 {
			k := fmt.Sprintf("%c%d", 'a'+i%2, i/2)
			st.Delete(k)
			delete(model, k)
		}
		compare(fmt.Sprintf("%d keys set, every other one deleted", n), st, model)
		for i := 0; i < n; i += 2 {
			k := fmt.Sprintf("%c%d", 'a'+i%2, i/2)
			if st.Has(k) {
				if len(fs) < 4 {
					fs = append(fs, finding{"key-population:deleted-key-present", fmt.Sprintf("%d keys set, every other one deleted: deleted key %q is still reported present", n, k)})
				}
				break
			}
		}
		batch := map[string]any{}
		for i := 0; i < n; i += 4 {
			k := fmt.Sprintf("%c%d", 'a'+i%2, i/2)
			batch[k] = -i
			model[k] = -i
		}
		st.Merge(batch)
		compare(fmt.Sprintf("%d keys set, every other one deleted, every fourth merged back", n), st, model)
		st.Clear()
		compare("the same store after Clear", st, map[string]any{})
	}
	// pattern-like keys
	for _, pat := range []string{"item.*", "*", "item*", "item.?", "item.[0-9]", "%", "item.%", ".*", "item.", "", "item.0*"} {
		st, model := flyt.NewSharedStore(), map[string]any{}
		for _, k := range []string{"item.0", "item.1", "item", "other", "", "é"} {
			if k == pat {
				continue
			}
			st.Set(k, k)
			model[k] = k
		}
		_, ok := st.Get(pat)
		has := st.Has(pat)
		st.Delete(pat)
		compare(fmt.Sprintf("keys %v, then Get/Has/Delete of the absent key %q", []string{"item.0", "item.1", "item", "other", "", "é"}, pat), st, model)
		if (ok || has) && len(fs) < 4 {
			fs = append(fs, finding{"key-population:absent-pattern-present", fmt.Sprintf("absent key %q is reported present (Get ok=%v, Has=%v)", pat, ok, has)})
		}
		st.Set(pat, 1)
		model[pat] = 1
		st.Delete(pat)
		delete(model, pat)
		compare(fmt.Sprintf("the same store after Set and Delete of %q", pat), st, model)
	}
	return fs
}

// nearIntegerFloats (C15): a float a hair off an integer converts the way Go converts it (truncation), through every
// int accessor of results and of the store.
func nearIntegerFloats() (fs []finding) {
	vals := []float64{4.35 * 100, math.Nextafter(3, 0), math.Nextafter(-3, 0), math.Nextafter(1, 0), math.Nextafter(-1, 0), math.Nextafter(1e6, 0), 2.9999999999, -2.9999999999, 0.9999999999999999, 5e-324, -5e-324, math.Nextafter(1<<31, 0)}
	for _, f := range vals {
		want := int(f)
		r := flyt.NewResult(f)
		a, ok := r.AsInt()
		st := flyt.NewSharedStore()
		st.Set("k", f)
		got := map[string]int{"Result.AsInt": a, "Result.AsIntOr": r.AsIntOr(-77), "Result.MustInt": r.MustInt(), "SharedStore.GetInt": st.GetInt("k"), "SharedStore.GetIntOr": st.GetIntOr("k", -77)}
		for name, g := range got {
			if (g != want || !ok) && len(fs) < 3 {
				fs = append(fs, finding{"near-integer-float-to-int", fmt.Sprintf("%s on float64 %v gave %d (AsInt ok=%v); Go's conversion int(f) gives %d", name, f, g, ok, want)})
			}
		}
		f32 := float32(f)
		if g, ok32 := flyt.NewResult(f32).AsInt(); (g != int(f32) || !ok32) && len(fs) < 3 {
			fs = append(fs, finding{"near-integer-float-to-int", fmt.Sprintf("Result.AsInt on float32 %v gave %d (ok=%v); Go's conversion gives %d", f32, g, ok32, int(f32))})
		}
	}
	return fs
}

// startlessFlowDoneCtx (C05): a flow without a start node, run under a context that is already done, reports the
// context's error like any other flow — through both run routes, directly and as the start of enclosing flows.
func startlessFlowDoneCtx() (fs []finding) {
	for depth := 0; depth <= 2; depth++ {
		for route := 0; route < 2; route++ {
			for ck := 0; ck < 2; ck++ {
				f := flyt.NewFlow(nil)
				for d := 0; d < depth; d++ {
					f = flyt.NewFlow(f)
				}
				ctx, cancel := context.WithCancel(context.Background())
				if ck == 1 {
					ctx, cancel = context.WithDeadline(context.Background(), time.Now().Add(-time.Second))
				} else {
					cancel()
				}
				var err error
				if route == 0 {
					err = f.Run(ctx, flyt.NewSharedStore())
				} else {
					_, err = flyt.Run(ctx, f, flyt.NewSharedStore())
				}
				cancel()
				if (err == nil || !errors.Is(err, ctx.Err())) && len(fs) < 3 {
					fs = append(fs, finding{"startless-flow:done-context-not-reported", fmt.Sprintf("flow without a start node (wrapped %d deep), context already %s, run through %s: returned %v, want an error matching %v", depth, pick(ck == 0, "cancelled", "past its deadline"), pick(route == 0, "Flow.Run", "flyt.Run"), err, ctx.Err())})
				}
			}
		}
	}
	return fs
}

// limitWithRetrySettings (C08): the concurrency limit is the limit whatever retry settings the node carries: with a
// budget and a wait configured (and nothing failing) never more than c executions are in flight.
func limitWithRetrySettings() (fs []finding) {
	for _, c := range []int{1, 2, 3, 5} {
		for _, cfg := range [][2]int{{2, 1}, {3, 5}, {1, 5}, {4, 0}} {
			var in, peak atomic.Int32
			bn := flyt.NewBatchNode().WithBatchConcurrency(c).WithMaxRetries(cfg[0]).WithWait(time.Duration(cfg[1]) * time.Millisecond).
				WithPrepFunc(func(context.Context, *flyt.SharedStore) ([]flyt.Result, error) {
					rs := make([]flyt.Result, 4*c+3)
					for i := range rs {
						rs[i] = flyt.NewResult(i)
					}
					return rs, nil
				}).
				WithExecFunc(func(_ context.Context, it flyt.Result) (flyt.Result, error) {
					n := in.Add(1)
					for {
						p := peak.Load()
						if n <= p || peak.CompareAndSwap(p, n) {
							break
						}
					}
					time.Sleep(3 * time.Millisecond)
					in.Add(-1)
					return it, nil
				})
			_, err := flyt.Run(context.Background(), bn, flyt.NewSharedStore())
			if (int(peak.Load()) > c || err != nil) && len(fs) < 3 {
				fs = append(fs, finding{"limit-with-retry-settings", fmt.Sprintf("batch of %d items, concurrency %d, retry budget %d, wait %d ms, nothing fails: %d executions were in flight at once (err %v)", 4*c+3, c, cfg[0], cfg[1], peak.Load(), err)})
			}
		}
	}
	return fs
}

// fallbackSetTwice (C19, C02): the fallback set last is THE fallback: when it fails the run fails with its error, and
// a fallback that was set earlier is not consulted.
func fallbackSetTwice() (fs []finding) {
	lastErr := errors.New("the fallback set last gives up")
	for route := 0; route < 4; route++ {
		for budget := 1; budget <= 2; budget++ {
			var first, last, execs int
			fb1 := func(any, error) (any, error) { first++; return "rescued by the earlier fallback", nil }
			fb2 := func(any, error) (any, error) { last++; return nil, lastErr }
			ex := func(context.Context, flyt.Result) (flyt.Result, error) {
				execs++
				return flyt.Result{}, errors.New("exec fails")
			}
			var nb *flyt.NodeBuilder
			switch route {
			case 0:
				nb = flyt.NewNode().WithExecFunc(ex).WithMaxRetries(budget).WithExecFallbackFunc(fb1).WithExecFallbackFunc(fb2)
			case 1:
				nb = flyt.NewNode(flyt.WithExecFunc(ex), flyt.WithMaxRetries(budget), flyt.WithExecFallbackFunc(fb1), flyt.WithExecFallbackFunc(fb2))
			case 2:
				nb = flyt.NewNode(flyt.WithExecFunc(ex), flyt.WithMaxRetries(budget), flyt.WithExecFallbackFunc(fb1)).WithExecFallbackFunc(fb2)
			case 3:
				nb = flyt.NewNode(flyt.WithExecFunc(ex), flyt.WithExecFallbackFunc(fb1)).WithMaxRetries(budget).WithExecFallbackFunc(fb1).WithExecFallbackFunc(fb2)
			}
			act, err := flyt.Run(context.Background(), nb, flyt.NewSharedStore())
			if (err == nil || !errors.Is(err, lastErr) || first != 0 || last != 1 || execs != budget) && len(fs) < 3 {
				fs = append(fs, finding{"fallback-set-twice", fmt.Sprintf("function node (route %d: 0 builder methods, 1 options, 2 options then builder, 3 mixed) with budget %d whose fallback was set twice — first one that rescues, last one that fails: run returned (%q, %v); exec attempts %d, calls of the earlier fallback %d, of the last one %d; want the last fallback's error, %d attempts, 0 and 1 calls", route, budget, act, err, execs, first, last, budget)})
			}
		}
	}
	return fs
}

type typedNilErr struct{ msg string }

func (e *typedNilErr) Error() string {
	if e == nil {
		return "typed nil error"
	}
	return e.msg
}

// typedNilExecError (C19): an exec function that returns a non-nil error interface holding a nil pointer has failed,
// on every configuration route alike (the library's own `err != nil`): same attempts, same fallback call.
func typedNilExecError() (fs []finding) {
	type obs struct {
		Execs, FBs int
		Failed     bool
	}
	var ref *obs
	var refName string
	for route := 0; route < 4; route++ {
		o := &obs{}
		exAny := func(context.Context, any) (any, error) { o.Execs++; var e *typedNilErr; return "value", e }
		fb := func(any, error) (any, error) { o.FBs++; return "rescued", nil }
		post := func(_ context.Context, _ *flyt.SharedStore, _ flyt.Result, ex flyt.Result) (flyt.Action, error) {
			return "done", nil
		}
		var node flyt.Node
		name := ""
		switch route {
		case 0:
			name = "builder methods"
			node = flyt.NewNode().WithExecFuncAny(exAny).WithMaxRetries(3).WithExecFallbackFunc(fb).WithPostFunc(post)
		case 1:
			name = "constructor options"
			node = flyt.NewNode(flyt.WithExecFuncAny(exAny), flyt.WithMaxRetries(3), flyt.WithExecFallbackFunc(fb), flyt.WithPostFunc(post))
		case 2:
			name = "batch builder methods"
			node = flyt.NewBatchNode(flyt.WithExecFallbackFunc(fb)).WithMaxRetries(3).WithExecFuncAny(exAny).
				WithPrepFunc(func(context.Context, *flyt.SharedStore) ([]flyt.Result, error) {
					return []flyt.Result{flyt.NewResult(1)}, nil
				})
		case 3:
			name = "batch constructor options"
			node = flyt.NewBatchNode(flyt.WithExecFallbackFunc(fb), flyt.WithMaxRetries(3), flyt.WithExecFuncAny(exAny)).
				WithPrepFunc(func(context.Context, *flyt.SharedStore) ([]flyt.Result, error) {
					return []flyt.Result{flyt.NewResult(1)}, nil
				})
		}
		_, err := flyt.Run(context.Background(), node, flyt.NewSharedStore())
		o.Failed = err != nil
		if ref == nil {
			ref, refName = o, name
			if o.Execs != 3 || o.FBs != 1 {
				fs = append(fs, finding{"typed-nil-exec-error", fmt.Sprintf("Any-style exec function returning a non-nil error interface that holds a nil pointer, budget 3, a rescuing fallback (%s): %d exec attempts and %d fallback calls; want 3 and 1 (the error is not nil)", name, o.Execs, o.FBs)})
			}
		} else if *o != *ref && len(fs) < 3 {
			fs = append(fs, finding{"typed-nil-exec-error", fmt.Sprintf("Any-style exec function returning a non-nil error interface that holds a nil pointer, budget 3, a rescuing fallback: configured through %s it is attempted %d times with %d fallback calls (run failed: %v), through %s %d times with %d fallback calls (run failed: %v)", refName, ref.Execs, ref.FBs, ref.Failed, name, o.Execs, o.FBs, o.Failed)})
		}
	}
	return fs
}

// bindAliasedSubvalues (C16): values in which one map / slice / pointer is reachable twice (no cycle) bind exactly as
// their JSON round trip does.
func bindAliasedSubvalues() (fs []finding) {
	type leaf struct {
		N int `json:"n"`
	}
	type pair struct {
		L *leaf `json:"l"`
		R *leaf `json:"r"`
	}
	shared := map[string]any{"x": 1, "y": []any{"a", "b"}}
	lf := &leaf{N: 7}
	sl := []any{1, 2}
	vals := []any{
		map[string]any{"a": shared, "b": shared},
		[]any{shared, shared, shared},
		pair{L: lf, R: lf},
		map[string]any{"p": []any{sl, sl}, "q": sl},
		[]*leaf{lf, lf},
	}
	for vi, v := range vals {
		for route := 0; route < 2; route++ {
			var got any
			var err error
			var pn any
			func() {
				defer func() { pn = recover() }()
				if route == 0 {
					err = flyt.NewResult(v).Bind(&got)
				} else {
					st := flyt.NewSharedStore()
					st.Set("k", v)
					err = st.Bind("k", &got)
				}
			}()
			var want any
			b, _ := json.Marshal(v)
			werr := json.Unmarshal(b, &want)
			if (pn != nil || (err == nil) != (werr == nil) || (err == nil && !reflect.DeepEqual(got, want))) && len(fs) < 3 {
				fs = append(fs, finding{"bind-aliased-subvalues", fmt.Sprintf("value #%d (%T) in which one sub-value is reachable twice, bound into *any through route %d: got %v, error %v, panic %v; the JSON round trip gives %v, error %v", vi, v, route, got, err, pn, want, werr)})
			}
		}
	}
	return fs
}

// nodeRunAgainAfterCancelledRun (C02): a node object whose earlier run was cancelled in the middle of its retries gets
// its full budget in the next run: exactly min(k, N) attempts, the fallback only after N failures.
func nodeRunAgainAfterCancelledRun() (fs []finding) {
	for _, kind := range []string{"builder", "options", "struct"} {
		for n := 2; n <= 5; n++ {
			for cancelAfter := 1; cancelAfter < n; cancelAfter++ {
				for _, k := range []int{n, n + 1} { // second run: first success at attempt k (n+1: never)
					var pass, attempts, fbs int
					var cancel context.CancelFunc
					exec := func() error {
						attempts++
						if pass == 0 {
							if attempts == cancelAfter {
								cancel()
							}
							return errors.New("fails in the first run")
						}
						if attempts < k {
							return fmt.Errorf("attempt %d fails", attempts)
						}
						return nil
					}
					fb := func(any, error) (any, error) { fbs++; return "rescued", nil }
					var node flyt.Node
					switch kind {
					case "builder":
						node = flyt.NewNode().WithMaxRetries(n).WithExecFallbackFunc(fb).WithExecFunc(func(context.Context, flyt.Result) (flyt.Result, error) { return flyt.NewResult(1), exec() })
					case "options":
						node = flyt.NewNode(flyt.WithMaxRetries(n), flyt.WithExecFallbackFunc(fb), flyt.WithExecFuncAny(func(context.Context, any) (any, error) { return 1, exec() }))
					case "struct":
						node = &rerunNode{BaseNode: flyt.NewBaseNode(flyt.WithMaxRetries(n)), exec: exec, fb: fb}
					}
					var ctx context.Context
					ctx, cancel = context.WithCancel(context.Background())
					_, _ = flyt.Run(ctx, node, flyt.NewSharedStore())
					cancel()
					pass, attempts, fbs = 1, 0, 0
					_, err := flyt.Run(context.Background(), node, flyt.NewSharedStore())
					wantA, wantFB := n, 0
					if k > n {
						wantFB = 1
					}
					if (attempts != wantA || fbs != wantFB || err != nil) && len(fs) < 3 {
						fs = append(fs, finding{"budget-after-cancelled-run", fmt.Sprintf("%s node with budget %d whose first run was cancelled inside attempt %d, run again under a live context with its first success at attempt %d: %d attempts and %d fallback calls (err %v); want %d and %d", kind, n, cancelAfter, k, attempts, fbs, err, wantA, wantFB)})
					}
				}
			}
		}
	}
	return fs
}

type rerunNode struct {
	*flyt.BaseNode
	exec func() error
	fb   func(any, error) (any, error)
}

func (r *rerunNode) Exec(context.Context, any) (any, error)   { return 1, r.exec() }
func (r *rerunNode) ExecFallback(p any, e error) (any, error) { return r.fb(p, e) }

type nilJob struct{ ID int }

// typedListsWithNilEntries (C07, C06): a prep value that is a list of some element type with nil entries in it is a
// list of that many items: each entry — nil or not — is executed once and has its slot, in order.
func typedListsWithNilEntries() (fs []finding) {
	a, b := &nilJob{1}, &nilJob{2}
	e1 := errors.New("an error value that is an item")
	lists := []struct {
		name string
		v    any
		n    int
	}{
		{"[]*T with nil entries", []*nilJob{a, nil, b, nil, nil}, 5},
		{"[]any with nil entries", []any{1, nil, "x", nil}, 4},
		{"[]error with nil entries", []error{e1, nil, e1}, 3},
		{"[]map with nil entries", []map[string]int{nil, {"a": 1}, nil}, 3},
		{"[][]int with nil entries", [][]int{nil, {1}, nil, {2, 3}}, 4},
		{"[]func with nil entries", []func(){nil, func() {}}, 2},
		{"[]*T of nil entries only", []*nilJob{nil, nil}, 2},
	}
	for _, l := range lists {
		for _, c := range []int{0, 1, 3} {
			for _, budget := range []int{1, 3} {
				var execs atomic.Int32
				nItems, nRes := -1, -1
				bn := flyt.NewBatchNode(flyt.WithPrepFuncAny(func(context.Context, *flyt.SharedStore) (any, error) { return l.v, nil })).
					WithBatchConcurrency(c).WithMaxRetries(budget).
					WithExecFuncAny(func(_ context.Context, v any) (any, error) { execs.Add(1); return "done", nil }).
					WithPostFunc(func(_ context.Context, _ *flyt.SharedStore, items, res []flyt.Result) (flyt.Action, error) {
						nItems, nRes = len(items), len(res)
						return "done", nil
					})
				_, err := flyt.Run(context.Background(), bn, flyt.NewSharedStore())
				if (int(execs.Load()) != l.n || nItems != l.n || nRes != l.n || err != nil) && len(fs) < 3 {
					fs = append(fs, finding{"typed-list-with-nil-entries", fmt.Sprintf("prep (constructor option, Any style) returned a %s, %d entries; concurrency %d, budget %d: exec ran %d times, post received %d items and %d results (err %v); want %d of each", l.name, l.n, c, budget, execs.Load(), nItems, nRes, err, l.n)})
				}
			}
		}
	}
	return fs
}

// stopModeBatchInsideFlows (C09): a stop-mode batch node behaves the same whether it is run directly, as a step of a
// flow or inside nested flows, as a builder or as the *BatchNode behind it: sequentially, nothing after the first
// failing item is executed and the slots behind it are errors.
func stopModeBatchInsideFlows() (fs []finding) {
	for _, c := range []int{0, 1} {
		for failAt := 0; failAt < 4; failAt++ {
			for route := 0; route < 6; route++ {
				var mu sync.Mutex
				var ran []int
				var slots []flyt.Result
				bn := flyt.NewBatchNode().WithBatchConcurrency(c).WithBatchErrorHandling(false).
					WithPrepFunc(func(context.Context, *flyt.SharedStore) ([]flyt.Result, error) {
						return []flyt.Result{flyt.NewResult(0), flyt.NewResult(1), flyt.NewResult(2), flyt.NewResult(3), flyt.NewResult(4)}, nil
					}).
					WithExecFunc(func(_ context.Context, it flyt.Result) (flyt.Result, error) {
						i := it.Value().(int)
						mu.Lock()
						ran = append(ran, i)
						mu.Unlock()
						if i == failAt {
							return flyt.Result{}, errors.New("item fails")
						}
						return it, nil
					}).
					WithPostFunc(func(_ context.Context, _ *flyt.SharedStore, _, res []flyt.Result) (flyt.Action, error) {
						slots = res
						return "done", nil
					})
				var node flyt.Node = bn
				if route%2 == 1 {
					node = bn.BatchNode
				}
				var err error
				switch route / 2 {
				case 0:
					_, err = flyt.Run(context.Background(), node, flyt.NewSharedStore())
				case 1:
					err = flyt.NewFlow(node).Run(context.Background(), flyt.NewSharedStore())
				case 2:
					err = flyt.NewFlow(flyt.NewFlow(node)).Run(context.Background(), flyt.NewSharedStore())
				}
				after, okSlots := 0, 0
				for _, i := range ran {
					if i > failAt {
						after++
					}
				}
				for i := failAt; i < len(slots); i++ {
					if !slots[i].IsError() {
						okSlots++
					}
				}
				if (after != 0 || okSlots != 0 || len(slots) != 5 || err != nil) && len(fs) < 3 {
					fs = append(fs, finding{"stop-mode-batch-inside-flows", fmt.Sprintf("stop-mode batch of 5 items (concurrency %d, item %d fails), used as %s and run %s: items executed %v — %d after the failing one; %d of the slots from the failing item on are successes; err %v", c, failAt, pick(route%2 == 0, "a builder", "the *BatchNode"), []string{"directly", "as the only step of a flow", "inside two nested flows"}[route/2], ran, after, okSlots, err)})
				}
			}
		}
	}
	return fs
}
