package engines

import (
	"encoding/json"
	"fmt"
	"math"
	"reflect"
	"strings"

	flyt "github.com/mark3labs/flyt"

	"verif/harness/internal/zoo"
)

// ValCase identifies a value: a fixed zoo entry or a generated one (reproducible from the stream index).
type ValCase struct {
	Family string `json:"family"`
	Zoo    string `json:"zoo,omitempty"` // name in the fixed zoo
	Gen    int    `json:"gen,omitempty"` // index in the generated stream
	Depth  int    `json:"depth,omitempty"`
	Seed   int64  `json:"seed,omitempty"`
	Type   string `json:"type,omitempty"`
}

func (vc *ValCase) value(c *Cfg) any {
	if vc.Family == "result-typed" {
		switch vc.Zoo {
		case "result-of-int":
			return flyt.NewResult(42)
		case "result-of-slice":
			return flyt.NewResult([]int{1})
		case "error-result":
			return flyt.NewErrorResult(fmt.Errorf("e"))
		case "ptr-result":
			return &flyt.Result{}
		}
		return flyt.Result{}
	}
	if vc.Family == "large-slice" {
		if strings.Contains(vc.Type, "int32") {
			a := make([]int32, vc.Gen)
			for i := range a {
				a[i] = int32(i + 1)
			}
			return a
		}
		b := make([]zoo.T, vc.Gen)
		for i := range b {
			b[i] = zoo.T{A: i + 1, B: "x"}
		}
		return b
	}
	if vc.Zoo != "" {
		for _, z := range zoo.Fixed() {
			if z.Name == vc.Zoo {
				return z.V
			}
		}
		return nil
	}
	cc := *c
	cc.Seed = vc.Seed
	rg := cc.Rng("c15gen", vc.Gen)
	v, _ := zoo.Gen(rg, vc.Depth)
	return v
}

var intSrc = map[reflect.Type]bool{}
var floatSrc = map[reflect.Type]bool{}

func init() {
	for _, v := range []any{int(0), int8(0), int16(0), int32(0), int64(0), uint(0), uint8(0), uint16(0), uint32(0), uint64(0), float32(0), float64(0)} {
		intSrc[reflect.TypeOf(v)] = true
		floatSrc[reflect.TypeOf(v)] = true
	}
	register(&Engine{Prop: "C15", Doc: "typed accessors", Run: runC15, Replay: replayC15})
}

type finding struct{ key, detail string }

// call runs f under recover and reports a panic.
func call(f func()) (panicked bool, msg string) {
	defer func() {
		if p := recover(); p != nil {
			panicked, msg = true, fmt.Sprint(p)
		}
	}()
	f()
	return
}

func sameSliceElems(a, b []any) bool {
	if len(a) != len(b) {
		return false
	}
	for i := range a {
		if !zoo.Same(a[i], b[i]) {
			return false
		}
	}
	return true
}

func typeKey(v any) string {
	if v == nil {
		return "nil"
	}
	t := reflect.TypeOf(v)
	return t.Kind().String()
}

// checkAccessors evaluates every accessor family on one value, for Result and store.
func checkAccessors(v any) (fs []finding, stats map[string]int) {
	stats = map[string]int{}
	add := func(key, f string, a ...any) { fs = append(fs, finding{key, fmt.Sprintf(f, a...)}) }
	tk := typeKey(v)
	r := flyt.NewResult(v)
	s := flyt.NewSharedStore()
	s.Set("k", v)
	var rt reflect.Type
	if v != nil {
		rt = reflect.TypeOf(v)
	}
	guard := func(name string, f func()) bool {
		if p, msg := call(f); p {
			add("panic:"+name+":"+tk, "%s panicked on a value of type %T: %s", name, v, msg)
			return false
		}
		return true
	}
	mustCheck := func(name string, ok bool, f func() any, want any) {
		p, msg := call(func() {
			got := f()
			if ok && !zoo.Same(got, want) {
				add("must-value:"+name, "%s returned %s, the plain accessor returned %s", name, zoo.Describe(got), zoo.Describe(want))
			}
		})
		if p == ok {
			if ok {
				add("must-panics:"+name+":"+tk, "%s panicked (%s) although the plain accessor succeeds on %T", name, msg, v)
			} else {
				add("must-silent:"+name+":"+tk, "%s did not panic although the plain accessor fails on %T", name, v)
			}
		}
	}
	// ---- string
	{
		ws, wok := "", false
		if rt == reflect.TypeOf("") {
			ws, wok = v.(string), true
		}
		if guard("AsString", func() {
			gs, gok := r.AsString()
			if gok != wok || gs != ws {
				add("string:"+tk, "AsString on %T = (%q,%v), want (%q,%v)", v, gs, gok, ws, wok)
			}
			if or := r.AsStringOr("DFLT"); (wok && or != ws) || (!wok && or != "DFLT") {
				add("string-or:"+tk, "AsStringOr on %T = %q", v, or)
			}
		}) {
			mustCheck("MustString", wok, func() any { return r.MustString() }, ws)
		}
		guard("GetString", func() {
			if g := s.GetString("k"); g != ws {
				add("store-string:"+tk, "store.GetString on %T = %q, result accessor gives %q", v, g, ws)
			}
			if g := s.GetStringOr("k", "DFLT"); (wok && g != ws) || (!wok && g != "DFLT") {
				add("store-string-or:"+tk, "store.GetStringOr on %T = %q", v, g)
			}
			if g := s.GetStringOr("missing", "DFLT"); g != "DFLT" {
				add("store-string-missing", "GetStringOr(missing) = %q", g)
			}
		})
		stats["string.ok"] += b2i(wok)
	}
	// ---- int
	{
		wi, wok := 0, false
		if rt != nil && intSrc[rt] {
			wok = true
			wi = int(reflect.ValueOf(v).Convert(reflect.TypeOf(int(0))).Int())
		}
		if guard("AsInt", func() {
			gi, gok := r.AsInt()
			if gok != wok || gi != wi {
				add("int:"+rtName(rt), "AsInt on %T(%v) = (%d,%v), want (%d,%v): conversion must succeed exactly for the documented numeric types and equal Go's conversion", v, v, gi, gok, wi, wok)
			}
			if or := r.AsIntOr(-4242); (wok && or != wi) || (!wok && or != -4242) {
				add("int-or:"+rtName(rt), "AsIntOr on %T(%v) = %d (plain accessor: %d,%v)", v, v, or, wi, wok)
			}
		}) {
			mustCheck("MustInt", wok, func() any { return r.MustInt() }, wi)
		}
		guard("GetInt", func() {
			if g := s.GetInt("k"); g != wi {
				add("store-int:"+rtName(rt), "store.GetInt on %T(%v) = %d, result accessor gives %d", v, v, g, wi)
			}
			if g := s.GetIntOr("k", -4242); (wok && g != wi) || (!wok && g != -4242) {
				add("store-int-or:"+rtName(rt), "store.GetIntOr on %T(%v) = %d (result accessor: %d,%v)", v, v, g, wi, wok)
			}
			if g := s.GetIntOr("missing", -4242); g != -4242 {
				add("store-int-missing", "GetIntOr(missing) = %d", g)
			}
		})
		stats["int.ok"] += b2i(wok)
	}
	// ---- float64
	{
		wf, wok := 0.0, false
		if rt != nil && floatSrc[rt] {
			wok = true
			wf = reflect.ValueOf(v).Convert(reflect.TypeOf(float64(0))).Float()
		}
		eq := func(a, b float64) bool { return math.Float64bits(a) == math.Float64bits(b) }
		if guard("AsFloat64", func() {
			gf, gok := r.AsFloat64()
			if gok != wok || !eq(gf, wf) {
				add("float:"+rtName(rt), "AsFloat64 on %T(%v) = (%v,%v), want (%v,%v)", v, v, gf, gok, wf, wok)
			}
			if or := r.AsFloat64Or(-42.5); (wok && !eq(or, wf)) || (!wok && or != -42.5) {
				add("float-or:"+rtName(rt), "AsFloat64Or on %T(%v) = %v", v, v, or)
			}
		}) {
			mustCheck("MustFloat64", wok, func() any { return r.MustFloat64() }, wf)
		}
		guard("GetFloat64", func() {
			if g := s.GetFloat64("k"); !eq(g, wf) {
				add("store-float:"+rtName(rt), "store.GetFloat64 on %T(%v) = %v, result accessor gives %v", v, v, g, wf)
			}
			if g := s.GetFloat64Or("k", -42.5); (wok && !eq(g, wf)) || (!wok && g != -42.5) {
				add("store-float-or:"+rtName(rt), "store.GetFloat64Or on %T(%v) = %v", v, v, g)
			}
		})
		stats["float.ok"] += b2i(wok)
	}
	// ---- bool
	{
		wb, wok := false, false
		if rt == reflect.TypeOf(true) {
			wb, wok = v.(bool), true
		}
		if guard("AsBool", func() {
			gb, gok := r.AsBool()
			if gok != wok || gb != wb {
				add("bool:"+tk, "AsBool on %T = (%v,%v), want (%v,%v)", v, gb, gok, wb, wok)
			}
			if or := r.AsBoolOr(!wb); (wok && or != wb) || (!wok && or != !wb) {
				add("bool-or:"+tk, "AsBoolOr on %T = %v", v, or)
			}
		}) {
			mustCheck("MustBool", wok, func() any { return r.MustBool() }, wb)
		}
		guard("GetBool", func() {
			if g := s.GetBool("k"); g != wb {
				add("store-bool:"+tk, "store.GetBool on %T = %v", v, g)
			}
			if g := s.GetBoolOr("k", true); (wok && g != wb) || (!wok && g != true) {
				add("store-bool-or:"+tk, "store.GetBoolOr on %T = %v", v, g)
			}
		})
		stats["bool.ok"] += b2i(wok)
	}
	// ---- slice and ToSlice
	{
		var want []any
		wok := false
		if rt != nil && rt.Kind() == reflect.Slice {
			wok = true
			rv := reflect.ValueOf(v)
			want = make([]any, rv.Len())
			for i := range want {
				want[i] = rv.Index(i).Interface()
			}
		}
		var ts []any
		tsOK := guard("ToSlice", func() {
			ts = flyt.ToSlice(v)
			switch {
			case v == nil:
				if ts == nil || len(ts) != 0 {
					add("toslice-nil", "ToSlice(nil) = %v, want an empty non-nil slice", ts)
				}
			case wok:
				if !sameSliceElems(ts, want) {
					add("toslice-slice:"+tk, "ToSlice(%T) = %v, want the elements %v in order", v, ts, want)
				}
			default:
				if len(ts) != 1 || !zoo.Same(ts[0], v) {
					add("toslice-single:"+tk, "ToSlice(%T) = %v, want a one-element slice holding the value", v, ts)
				}
			}
		})
		dflt := []any{"DEFAULT-SENTINEL"}
		if guard("AsSlice", func() {
			gs, gok := r.AsSlice()
			if gok != wok {
				add("slice-ok:"+sliceClass(v, rt), "AsSlice on %T (%s) ok=%v, want %v: must succeed exactly for slice values", v, zoo.Describe(v), gok, wok)
			} else if wok && tsOK && !sameSliceElems(gs, ts) {
				add("slice-elems:"+tk, "AsSlice on %T = %v, ToSlice gives %v", v, gs, ts)
			}
			or := r.AsSliceOr(dflt)
			if (wok && !sameSliceElems(or, want)) || (!wok && !sameSliceElems(or, dflt)) {
				add("slice-or:"+sliceClass(v, rt), "AsSliceOr on %T = %v (slice value: %v)", v, or, wok)
			}
		}) {
			p, msg := call(func() {
				got := r.MustSlice()
				if wok && !sameSliceElems(got, want) {
					add("must-value:MustSlice", "MustSlice on %T = %v", v, got)
				}
			})
			if p == wok {
				add("must-mismatch:MustSlice:"+sliceClass(v, rt), "MustSlice on %T: panicked=%v (%s) but slice value=%v", v, p, msg, wok)
			}
		}
		guard("GetSlice", func() {
			g := s.GetSlice("k")
			if (wok && !sameSliceElems(g, want)) || (!wok && g != nil) {
				add("store-slice:"+sliceClass(v, rt), "store.GetSlice on %T = %v (slice value: %v)", v, g, wok)
			}
			g = s.GetSliceOr("k", dflt)
			if (wok && !sameSliceElems(g, want)) || (!wok && !sameSliceElems(g, dflt)) {
				add("store-slice-or:"+sliceClass(v, rt), "store.GetSliceOr on %T = %v (slice value: %v)", v, g, wok)
			}
		})
		stats["slice.ok"] += b2i(wok)
	}
	// ---- map
	{
		var wm map[string]any
		wok := false
		if rt == reflect.TypeOf(map[string]any(nil)) {
			wm, wok = v.(map[string]any), true
		}
		sameMap := func(a, b map[string]any) bool {
			return (a == nil) == (b == nil) && (a == nil || reflect.ValueOf(a).Pointer() == reflect.ValueOf(b).Pointer())
		}
		dm := map[string]any{"DEFAULT": 1}
		if guard("AsMap", func() {
			gm, gok := r.AsMap()
			if gok != wok || !sameMap(gm, wm) {
				add("map:"+tk, "AsMap on %T = (%v,%v), want ok=%v and the very map", v, gm, gok, wok)
			}
			or := r.AsMapOr(dm)
			if (wok && !sameMap(or, wm)) || (!wok && !sameMap(or, dm)) {
				add("map-or:"+tk, "AsMapOr on %T = %v", v, or)
			}
		}) {
			p, msg := call(func() { _ = r.MustMap() })
			if p == wok {
				add("must-mismatch:MustMap:"+tk, "MustMap on %T: panicked=%v (%s), map value=%v", v, p, msg, wok)
			}
		}
		guard("GetMap", func() {
			if g := s.GetMap("k"); !sameMap(g, wm) {
				add("store-map:"+tk, "store.GetMap on %T = %v", v, g)
			}
			g := s.GetMapOr("k", dm)
			if (wok && !sameMap(g, wm)) || (!wok && !sameMap(g, dm)) {
				add("store-map-or:"+tk, "store.GetMapOr on %T = %v", v, g)
			}
		})
		stats["map.ok"] += b2i(wok)
	}
	// ---- Bind is an accessor too: it may fail, it must not panic (its results are C16's business)
	guard("Result.Bind", func() {
		var d any
		_ = r.Bind(&d)
		var m map[string]any
		_ = r.Bind(&m)
		var i int
		_ = r.Bind(&i)
		_ = r.Bind(nil)
	})
	guard("SharedStore.Bind", func() {
		var d any
		_ = s.Bind("k", &d)
		_ = s.Bind("missing", &d)
		var m map[string]any
		_ = s.Bind("k", &m)
		var i int
		_ = s.Bind("k", &i)
		var sl []any
		_ = s.Bind("k", &sl)
		_ = s.Bind("k", nil)
	})
	// ---- generic As / IsNil / Value / Type
	guard("As", func() {
		if x, ok := flyt.As[string](r); ok != (rt == reflect.TypeOf("")) || (ok && x != v.(string)) {
			add("as-generic:string", "As[string] on %T = (%q,%v)", v, x, ok)
		}
		if _, ok := flyt.As[int](r); ok != (rt == reflect.TypeOf(0)) {
			add("as-generic:int", "As[int] on %T ok=%v", v, ok)
		}
		if _, ok := flyt.As[*zoo.T](r); ok != (rt == reflect.TypeOf(&zoo.T{})) {
			add("as-generic:ptr", "As[*T] on %T ok=%v", v, ok)
		}
		if _, ok := flyt.As[any](r); ok != (v != nil) {
			add("as-generic:any", "As[any] on %T ok=%v", v, ok)
		}
		if r.IsNil() != (v == nil) || !zoo.Same(r.Value(), v) || r.IsError() {
			add("value-roundtrip:"+tk, "NewResult(%T): IsNil=%v IsError=%v Value=%s", v, r.IsNil(), r.IsError(), zoo.Describe(r.Value()))
		}
		if v == nil && r.Type() != "nil" {
			add("type-nil", "Type() of nil result = %q", r.Type())
		}
	})
	return
}

func b2i(b bool) int {
	if b {
		return 1
	}
	return 0
}

func rtName(t reflect.Type) string {
	if t == nil {
		return "nil"
	}
	s := t.String()
	if len(s) > 24 {
		s = t.Kind().String()
	}
	return s
}

// sliceClass groups failing slice-accessor inputs by what makes them special.
func sliceClass(v any, rt reflect.Type) string {
	if rt == nil {
		return "nil"
	}
	if rt.Kind() == reflect.Slice {
		return "slice"
	}
	if !rt.Comparable() {
		return "uncomparable-" + rt.Kind().String()
	}
	if p, _ := call(func() { _ = v == v }); p {
		return "comparable-type-uncomparable-value-" + rt.Kind().String()
	}
	if v != v {
		return "not-self-equal-" + rt.Kind().String()
	}
	return rt.Kind().String()
}

// storeAgreesWithResult compares every store getter on key with the result accessors on the value the
// reference map holds for it (the store must answer for the CURRENT value, whatever was read or merged before).
func storeAgreesWithResult(s *flyt.SharedStore, key string, v any) (string, string) {
	r := flyt.NewResult(v)
	var k, d string
	p, msg := call(func() {
		if g, w := s.GetString(key), r.AsStringOr(""); g != w {
			k, d = "stateful-store-string", fmt.Sprintf("GetString(%q)=%q, result accessor on the stored %T gives %q", key, g, v, w)
		}
		if g, w := s.GetIntOr(key, -4242), r.AsIntOr(-4242); g != w {
			k, d = "stateful-store-int", fmt.Sprintf("GetIntOr(%q)=%d, result accessor on the stored %T gives %d", key, g, v, w)
		}
		if g, w := s.GetFloat64Or(key, -42.5), r.AsFloat64Or(-42.5); math.Float64bits(g) != math.Float64bits(w) {
			k, d = "stateful-store-float", fmt.Sprintf("GetFloat64Or(%q)=%v, result accessor on the stored %T gives %v", key, g, v, w)
		}
		if g, w := s.GetBoolOr(key, true), r.AsBoolOr(true); g != w {
			k, d = "stateful-store-bool", fmt.Sprintf("GetBoolOr(%q)=%v, result accessor gives %v", key, g, w)
		}
		dflt := []any{"DEFAULT-SENTINEL"}
		if g, w := s.GetSliceOr(key, dflt), r.AsSliceOr(dflt); !sameSliceElems(g, w) {
			k, d = "stateful-store-slice", fmt.Sprintf("GetSliceOr(%q)=%v, but the slice accessor on the value stored now (%T) gives %v", key, g, v, w)
		}
		gm, wm := s.GetMap(key), r.AsMapOr(nil)
		if (gm == nil) != (wm == nil) || (gm != nil && reflect.ValueOf(gm).Pointer() != reflect.ValueOf(wm).Pointer()) {
			k, d = "stateful-store-map", fmt.Sprintf("GetMap(%q) is not the map stored now", key)
		}
	})
	if p {
		return "stateful-panic", msg
	}
	return k, d
}

// statefulZoo: the values the stateful store families draw from — container-heavy, so that conversions,
// caches and in-place updates matter.
func statefulZoo() []zoo.Named {
	var out []zoo.Named
	for _, z := range zoo.Fixed() {
		for _, p := range []string{"slice-", "map-", "named-", "rec-", "int-1", "string", "nil", "float64-1.5", "float64-0", "float64-neg0", "float32-0", "float32-neg0", "bool-true", "struct", "ptr-"} {
			if strings.HasPrefix(z.Name, p) {
				out = append(out, z)
				break
			}
		}
	}
	return out
}

// signedZeroCase: one key overwritten alternately with +0 and -0 (Set and Merge): the store holds the LAST value.
func signedZeroCase(z []zoo.Named, i int) *StoreCase {
	idx := func(name string) int {
		for j, x := range z {
			if x.Name == name {
				return j
			}
		}
		return 0
	}
	pairs := [][2]string{{"float64-0", "float64-neg0"}, {"float32-0", "float32-neg0"}, {"float64-neg0", "float64-0"}, {"float32-neg0", "float32-0"}}
	pr := pairs[(i/40)%len(pairs)]
	cs := &StoreCase{Family: "signed-zero-overwrites"}
	k := (i / 160) % 4
	for rep := 0; rep < 3; rep++ {
		cs.Steps = append(cs.Steps, StoreStep{Op: "set", Key: k, Val: idx(pr[0])}, StoreStep{Op: "set", Key: k, Val: idx(pr[1])},
			StoreStep{Op: "merge", Arg: []int{k, idx(pr[0])}}, StoreStep{Op: "set", Key: k, Val: idx(pr[1])}, StoreStep{Op: "read-typed", Key: k})
	}
	return cs
}

func runC15Stateful(c *Cfg) {
	r := c.Rep
	n := c.Pick(6000, 300000)
	parallel(c, n, func(i int) {
		cs := genStoreCase(c, 1_000_000+i, 120)
		// interleave in-place mutations
		rg := c.Rng("c15st", i)
		if i%40 == 7 {
			// overwrites with values that compare equal (==) yet are different values: +0 / -0 of both float widths
			cs = signedZeroCase(statefulZoo(), i)
		}
		for j := range cs.Steps {
			if rg.IntN(5) == 0 {
				cs.Steps[j].Op = "mutate-in-place"
			}
		}
		key, detail, stats := runStoreCaseWith(cs, statefulZoo(), func(si int, st StoreStep, s *flyt.SharedStore, ref map[string]any) (string, string) {
			for _, k := range storeKeys {
				if v, ok := ref[k]; ok {
					if fk, fd := storeAgreesWithResult(s, k, v); fk != "" {
						return fk, fmt.Sprintf("step %d (%s): %s", si, st.Op, fd)
					}
				}
			}
			return "", ""
		})
		r.Eval()
		r.Count("stateful.sequences", 1)
		r.Count("stateful.steps", int64(stats["steps"]))
		r.Count("stateful.in_place_mutations", int64(stats["in_place_mutations"]))
		if key != "" && strings.HasPrefix(key, "stateful") {
			cs.Family = "stateful"
			r.Violate("C15", "C15:"+key, detail, cs)
		}
		b, _ := json.Marshal(cs.Steps)
		r.Nontrivial("st:" + string(b))
	})
}

// sliceResultsIndependent: what one slice conversion returned is the caller's: appending to it (or writing into it)
// never changes what another conversion returned. Returns a description of the first interference found.
func sliceResultsIndependent(route string, a, b any) string {
	conv := func(v any) []any {
		switch route {
		case "ToSlice":
			return flyt.ToSlice(v)
		case "Result.AsSlice":
			r, _ := flyt.NewResult(v).AsSlice()
			return r
		case "Result.AsSliceOr":
			return flyt.NewResult(v).AsSliceOr(nil)
		default:
			s := flyt.NewSharedStore()
			s.Set("k", v)
			return s.GetSlice("k")
		}
	}
	r1 := conv(a)
	r2 := conv(b)
	want := append([]any(nil), r2...)
	r1 = append(r1, "appended-1", "appended-2", "appended-3")
	for i := range r1 {
		if i < len(r1)-3 {
			continue
		}
		_ = r1[i]
	}
	if len(r2) != len(want) {
		return fmt.Sprintf("%s: the second result changed length %d -> %d after an append to the first", route, len(want), len(r2))
	}
	for i := range want {
		if !zoo.Same(r2[i], want[i]) {
			return fmt.Sprintf("%s(%T) returned %v; after appending to the result of an EARLIER %s(%T) call, its element %d reads %s — two conversion results share memory", route, b, want, route, a, i, zoo.Describe(r2[i]))
		}
	}
	return ""
}

// sliceOrResultsStable: two successful Or-conversions with ONE default value (an empty slice with spare capacity, as a
// caller re-using a buffer would pass): the first result still reads the same after the second call.
func sliceOrResultsStable(route string, a, b any) string {
	def := make([]any, 0, 64)
	conv := func(v any) []any {
		if route == "Result.AsSliceOr" {
			return flyt.NewResult(v).AsSliceOr(def)
		}
		s := flyt.NewSharedStore()
		s.Set("k", v)
		return s.GetSliceOr("k", def)
	}
	r1 := conv(a)
	want := append([]any(nil), r1...)
	ref := flyt.ToSlice(a)
	r2 := conv(b)
	_ = r2
	if len(r1) != len(ref) {
		return fmt.Sprintf("%s(%T, default) has %d elements, ToSlice gives %d", route, a, len(r1), len(ref))
	}
	for i := range want {
		if !zoo.Same(r1[i], want[i]) {
			return fmt.Sprintf("%s(%T, d) returned %v; after a second call %s(%T, d) with the same default d (empty, capacity 64) element %d of the FIRST result reads %s — the result of a conversion lives in the caller's default value", route, a, want, route, b, i, zoo.Describe(r1[i]))
		}
	}
	return ""
}

func runC15(c *Cfg) {
	r := c.Rep
	runSpecial(c, "C15", "same-name-slice-types")
	runSpecial(c, "C15", "or-default-on-absent-keys")
	runSpecial(c, "C15", "near-integer-floats")
	runC15Stateful(c)
	// results of consecutive slice conversions are independent of each other
	typed := []any{[]int{1, 2, 3}, []string{"a", "b"}, []float64{1.5}, []map[string]any{{"a": 1}}, []int{7}, zoo.NamedSlice{4, 5}, []bool{true, false}, make([]int, 32), make([]string, 33), []any{1, "x"}}
	for _, route := range []string{"ToSlice", "Result.AsSlice", "Result.AsSliceOr", "SharedStore.GetSlice"} {
		for ai, a := range typed {
			for bi, b := range typed {
				r.Eval()
				r.Count("slice_independence.pairs", 1)
				if msg := sliceResultsIndependent(route, a, b); msg != "" {
					r.Violate("C15", "C15:slice-results-share-memory:"+route, msg, map[string]any{"family": "slice-independence", "route": route, "a": ai, "b": bi})
				}
				r.Nontrivial(fmt.Sprintf("si %s %d %d", route, ai, bi))
			}
		}
	}
	for _, route := range []string{"Result.AsSliceOr", "SharedStore.GetSliceOr"} {
		for ai, a := range typed {
			for bi, b := range typed {
				r.Eval()
				r.Count("slice_or_default.pairs", 1)
				if msg := sliceOrResultsStable(route, a, b); msg != "" {
					r.Violate("C15", "C15:slice-result-lives-in-the-default:"+route, msg, map[string]any{"family": "slice-or-default", "route": route, "a": ai, "b": bi})
				}
				r.Nontrivial(fmt.Sprintf("sod %s %d %d", route, ai, bi))
			}
		}
	}
	fixed := zoo.Fixed()
	kindsSeen := map[string]bool{}
	for _, z := range fixed {
		fs, stats := checkAccessors(z.V)
		r.Eval()
		vc := ValCase{Family: "zoo", Zoo: z.Name, Type: fmt.Sprintf("%T", z.V)}
		for _, f := range fs {
			r.Violate("C15", "C15:"+f.key, f.detail, vc)
		}
		for k, v := range stats {
			r.Count(k, int64(v))
		}
		r.Nontrivial("zoo:" + z.Name)
		kindsSeen[typeKey(z.V)] = true
		r.Count("zoo.values", 1)
	}
	for k := range kindsSeen {
		r.Count("zoo.kind."+k, 1)
	}
	// values whose dynamic type is flyt.Result itself: an ordinary struct as far as the accessors are concerned
	for _, rv := range []zoo.Named{{Name: "result-of-int", V: flyt.NewResult(42)}, {Name: "result-of-slice", V: flyt.NewResult([]int{1})}, {Name: "error-result", V: flyt.NewErrorResult(fmt.Errorf("e"))}, {Name: "zero-result", V: flyt.Result{}}, {Name: "ptr-result", V: &flyt.Result{}}} {
		fs, _ := checkAccessors(rv.V)
		r.Eval()
		for _, f := range fs {
			r.Violate("C15", "C15:"+f.key, "(value of type flyt.Result) "+f.detail, ValCase{Family: "result-typed", Zoo: rv.Name, Type: fmt.Sprintf("%T", rv.V)})
		}
		// Set and Merge store the very same value
		st := flyt.NewSharedStore()
		st.Set("a", rv.V)
		st.Merge(map[string]any{"b": rv.V})
		ga, _ := st.Get("a")
		gb, _ := st.Get("b")
		if !zoo.Same(ga, rv.V) || !zoo.Same(gb, rv.V) {
			r.Violate("C15", "C15:result-typed-value-altered", fmt.Sprintf("a %T stored with Set / Merge comes back as %s / %s", rv.V, zoo.Describe(ga), zoo.Describe(gb)), ValCase{Family: "result-typed", Zoo: rv.Name})
		}
		r.Count("result_typed.values", 1)
		r.Nontrivial("result-typed:" + rv.Name)
	}
	// large slices of types without a fast path in ToSlice (size thresholds, chunking)
	for _, n := range []int{8193, 20003, 65537} {
		a := make([]int32, n)
		for i := range a {
			a[i] = int32(i + 1)
		}
		b := make([]zoo.T, n)
		for i := range b {
			b[i] = zoo.T{A: i + 1, B: "x"}
		}
		for _, v := range []any{a, b} {
			fs, _ := checkAccessors(v)
			r.Eval()
			vc := ValCase{Family: "large-slice", Gen: n, Type: fmt.Sprintf("%T", v)}
			for _, f := range fs {
				d := f.detail
				if len(d) > 300 {
					d = d[:300] + "…"
				}
				r.Violate("C15", "C15:"+f.key, fmt.Sprintf("(slice of %d elements) %s", n, d), vc)
			}
			r.Count("large_slices.values", 1)
			r.Nontrivial(fmt.Sprintf("large:%T:%d", v, n))
		}
	}
	r.Sample("zoo", map[string]any{"names": zooNames(fixed)})
	n := c.Pick(100000, 4000000)
	parallel(c, n, func(i int) {
		vc := ValCase{Family: "generated", Gen: i, Depth: 1 + i%4, Seed: c.Seed}
		var v any
		if p, msg := call(func() { v = vc.value(c) }); p {
			r.Count("generated.generator_panics", 1)
			_ = msg
			return
		}
		vc.Type = fmt.Sprintf("%T", v)
		fs, stats := checkAccessors(v)
		r.Eval()
		for _, f := range fs {
			r.Violate("C15", "C15:"+f.key, f.detail, vc)
		}
		for k, x := range stats {
			r.Count(k, int64(x))
		}
		r.Count("generated.values", 1)
		r.Count("generated.kind."+typeKey(v), 1)
		r.Nontrivial("gen:" + vc.Type + ":" + strings.TrimSpace(zoo.Describe(v)))
		if i < 3 {
			r.Sample("generated", map[string]any{"case": vc, "value": zoo.Describe(v)})
		}
	})
}

func zooNames(z []zoo.Named) []string {
	var n []string
	for _, x := range z {
		n = append(n, x.Name)
	}
	return n
}

func replayC15(c *Cfg, spec json.RawMessage) {
	var probeFam struct {
		Family string `json:"family"`
	}
	if json.Unmarshal(spec, &probeFam) == nil && probeFam.Family == "stateful" {
		var cs StoreCase
		_ = json.Unmarshal(spec, &cs)
		key, detail, _ := runStoreCaseWith(&cs, statefulZoo(), func(si int, st StoreStep, s *flyt.SharedStore, ref map[string]any) (string, string) {
			for _, k := range storeKeys {
				if v, ok := ref[k]; ok {
					if fk, fd := storeAgreesWithResult(s, k, v); fk != "" {
						return fk, fmt.Sprintf("step %d (%s): %s", si, st.Op, fd)
					}
				}
			}
			return "", ""
		})
		if key != "" {
			fmt.Printf(" * finding %s: %s\n", key, detail)
			c.Rep.Violate("C15", "C15:"+key, detail, cs)
		}
		return
	}
	var vc ValCase
	if err := json.Unmarshal(spec, &vc); err != nil {
		fmt.Println("cannot parse:", err)
		return
	}
	v := vc.value(c)
	fmt.Printf("value: %T %s\n", v, zoo.Describe(v))
	fs, _ := checkAccessors(v)
	for _, f := range fs {
		fmt.Printf(" * finding %s: %s\n", f.key, f.detail)
		c.Rep.Violate("C15", "C15:"+f.key, f.detail, vc)
	}
}
