package engines

import (
	"context"
	"encoding/json"
	"fmt"
	"math/rand/v2"
	"runtime"
	"sort"
	"sync"
	"sync/atomic"
	"time"

	flyt "github.com/mark3labs/flyt"

	"verif/harness/internal/quiesce"
	"verif/harness/internal/scen"
)

// PoolCase is the replayable case of the worker-pool monitors.
type PoolCase struct {
	Family     string `json:"family"`
	Workers    int    `json:"workers"` // as passed to NewWorkerPool (<= 0 means 1)
	Tasks      int    `json:"tasks"`   // per round
	Submitters int    `json:"submitters"`
	Rounds     int    `json:"rounds"`
	Gated      bool   `json:"gated"`
	Policy     string `json:"policy,omitempty"` // first | last | random
	PSeed      uint64 `json:"pseed,omitempty"`
	SleepUs    int    `json:"sleep_us,omitempty"`
	LateWaits  bool   `json:"late_waits,omitempty"` // the second goroutine calls Wait too, after its Submits: every waiter gets the barrier
	IdleMs     int    `json:"idle_ms,omitempty"`    // after every round the pool is left idle this long; nothing may run meanwhile
	LateTasks  int    `json:"late_tasks,omitempty"` // gated: tasks submitted by a second goroutine while the waiter is already inside Wait (its own tasks still parked); they are released first
	DwellMs    int    `json:"dwell_ms,omitempty"` // gated: wait this long at the first two quiescent points with a blocked submitter
	Lean       bool   `json:"lean,omitempty"` // tasks only do plain (non-atomic) writes; no harness synchronisation
	PingPong   int    `json:"ping_pong,omitempty"`  // > 0: this many tiny tasks, each submitted the moment the previous one signals its completion (the submitter meets a worker that is just going idle), with a swept delay of a few spin steps
	OpenPools  int    `json:"open_pools,omitempty"` // this many other 16-worker pools are created, used once and kept open while the case runs
	PreTasks   int `json:"pre_tasks,omitempty"` // this many trivial tasks are submitted and waited for before every round (shifts whatever per-submit bookkeeping the pool keeps)
	PingWait bool `json:"ping_wait,omitempty"` // with PingPong: submit, submit (racing the first task's completion), Wait — every round
	EarlyWait int `json:"early_wait,omitempty"` // 1: Wait is called on the pool right after NewWorkerPool (nothing submitted); 2: one trivial task, then Wait — before anything else happens
	NestedKids int `json:"nested_kids,omitempty"` // follow-up tasks per task (default 1); Tasks*NestedKids <= 2*workers: they fit the queue exactly
	NestedSubmit bool `json:"nested_submit,omitempty"` // gated, Tasks <= workers: every task submits one follow-up task to its own pool (while the waiter is inside Wait) before it finishes
}

// PoolObs is the observation of one pool run.
type PoolObs struct {
	Incon        string   `json:"inconclusive,omitempty"`
	Deadlock     bool     `json:"deadlock,omitempty"`
	Dump         string   `json:"dump,omitempty"`
	Panic        string   `json:"panic,omitempty"`
	ExecCounts   []int32  `json:"-"`
	NotOnce      []string `json:"not_once,omitempty"` // "round.task=count"
	HighWater    int      `json:"high_water"`
	Points       []QPoint `json:"points,omitempty"`
	WaitEarly    []string `json:"wait_early,omitempty"`    // Wait had returned while tasks were parked / unfinished
	SubmitOverrun []string `json:"submit_overrun,omitempty"` // Submit returned although workers and queue were full
	UnderUse     []string `json:"under_use,omitempty"`     // fewer parked than min(workers, unfinished)
	OverLimit    []string `json:"over_limit,omitempty"`    // more parked than workers
	Invisible    []string `json:"invisible,omitempty"`     // effect of a task not visible after Wait
	LateTasks    []string `json:"late_tasks,omitempty"`    // free-running: a task was still running after Wait returned
	Leaked       []string `json:"leaked,omitempty"`        // goroutines still present after Close
	Baseline     int      `json:"baseline_goroutines"`
	PoolGs       int      `json:"pool_goroutines_seen"`    // goroutines that appeared with the pool
	Snapshots    int64    `json:"snapshots"`
	TasksRun     int      `json:"tasks_run"`
	SubmitBlocks int      `json:"submit_blocked_points"` // quiescent points at which a submitter was blocked in Submit
}

// plainDone reads a task's end stamp (written inside the task before it returns; read at quiescent points only).
func plainDone(endSeq []int64, id int) int64 { return atomic.LoadInt64(&endSeq[id]) }

func effWorkers(w int) int {
	if w <= 0 {
		return 1
	}
	return w
}

func runPoolCase(cs *PoolCase) *PoolObs {
	o := &PoolObs{}
	self := quiesce.Self()
	var st quiesce.Stats
	// census before the pool exists
	base, ok := quiesce.Wait(self, quiesceBudget, &st)
	if !ok {
		o.Incon = "no quiescent baseline before the pool was created"
		return o
	}
	baseline := map[int]bool{}
	for id := range base.States {
		baseline[id] = true
	}
	o.Baseline = len(baseline)

	var mu sync.Mutex
	parked := map[int]chan struct{}{}
	var inflight, hw atomic.Int32
	var completed atomic.Int64
	var seq atomic.Int64
	prng := rand.New(rand.NewPCG(cs.PSeed, 5))
	var prngMu sync.Mutex

	defer func() {
		if p := recover(); p != nil {
			o.Panic = fmt.Sprint(p)
		}
	}()
	var others []*flyt.WorkerPool
	for i := 0; i < cs.OpenPools; i++ {
		op := flyt.NewWorkerPool(16)
		var ran atomic.Int32
		for j := 0; j < 3; j++ {
			op.Submit(func() { ran.Add(1) })
		}
		op.Wait()
		others = append(others, op)
	}
	defer func() {
		for _, op := range others {
			op.Close()
		}
	}()
	beforePool := baseline
	if len(others) > 0 {
		if sn, ok := quiesce.Wait(self, quiesceBudget, &st); ok {
			beforePool = map[int]bool{}
			for id := range sn.States {
				beforePool[id] = true
			}
		}
	}
	pool := flyt.NewWorkerPool(cs.Workers)
	we := effWorkers(cs.Workers)
	switch cs.EarlyWait { // the very first thing that happens to the new pool is a Wait (its workers may not even be running yet)
	case 1:
		pool.Wait()
	case 2:
		var ran atomic.Int32
		pool.Submit(func() { ran.Add(1) })
		pool.Wait()
		if ran.Load() != 1 {
			o.NotOnce = append(o.NotOnce, fmt.Sprintf("the first task submitted to the new pool had run %d times when Wait returned", ran.Load()))
		}
	}
	if cs.PingPong > 0 {
		runPingPong(cs, pool, o, self, &st)
		if o.Deadlock || o.Incon != "" {
			return o
		}
	}
	afterNew, _ := quiesce.Wait(self, quiesceBudget, &st)
	for id := range afterNew.States {
		if !beforePool[id] {
			o.PoolGs++
		}
	}
	rounds := cs.Rounds
	if rounds < 1 {
		rounds = 1
	}
	for round := 0; round < rounds; round++ {
		if cs.PreTasks > 0 {
			var ran atomic.Int32
			for k := 0; k < cs.PreTasks+round; k++ {
				pool.Submit(func() { ran.Add(1) })
			}
			pool.Wait()
			if int(ran.Load()) != cs.PreTasks+round {
				o.NotOnce = append(o.NotOnce, fmt.Sprintf("round %d: %d of %d warm-up tasks had run when Wait returned", round, ran.Load(), cs.PreTasks+round))
			}
		}
		pre := cs.Tasks // submitted before Wait
		n := cs.Tasks + cs.LateTasks
		kids := cs.NestedKids
		if kids < 1 {
			kids = 1
		}
		if cs.NestedSubmit {
			n = (1 + kids) * cs.Tasks
		}
		lateGo := make(chan struct{})
		lateDone := make(chan struct{})
		lateStarted := false
		counts := make([]int32, n)
		plain := make([]int, n) // written non-atomically by the tasks, read by the waiter after Wait
		endSeq := make([]int64, n)
		completedAtRoundStart := completed.Load()
		var task func(id int) func()
		task = func(id int) func() {
			return func() {
				if cs.Lean {
					plain[id] = id + 1
					counts[id]++ // unsynchronised on purpose: one task, one slot
					if cs.SleepUs > 0 {
						time.Sleep(time.Duration((id*13)%cs.SleepUs) * time.Microsecond)
					}
					return
				}
				in := inflight.Add(1)
				for {
					h := hw.Load()
					if in <= h || hw.CompareAndSwap(h, in) {
						break
					}
				}
				atomic.AddInt32(&counts[id], 1)
				if cs.Gated {
					ch := make(chan struct{})
					mu.Lock()
					parked[id] = ch
					mu.Unlock()
					<-ch
					if cs.NestedSubmit && id < pre {
						for k := 0; k < kids; k++ {
							pool.Submit(task(pre + id*kids + k)) // at most 2*workers follow-ups in all: they fit the queue
						}
					}
				} else if cs.SleepUs > 0 {
					prngMu.Lock()
					d := prng.IntN(cs.SleepUs + 1)
					prngMu.Unlock()
					time.Sleep(time.Duration(d) * time.Microsecond)
				}
				plain[id] = id + 1
				atomic.StoreInt64(&endSeq[id], seq.Add(1))
				inflight.Add(-1)
				completed.Add(1)
			}
		}
		subs := cs.Submitters
		if subs < 1 {
			subs = 1
		}
		var waitReturned, lateWaitReturned atomic.Bool
		var accepted atomic.Int64
		var waitSeq int64
		done := make(chan struct{})
		go func() { // waiter: joins the submitters, then Wait (sync.WaitGroup's contract: no Add-from-zero concurrent with Wait)
			defer close(done)
			var swg sync.WaitGroup
			for s := 0; s < subs; s++ {
				swg.Add(1)
				go func(s int) {
					defer swg.Done()
					for id := s; id < pre; id += subs {
						pool.Submit(task(id))
						accepted.Add(1)
					}
				}(s)
			}
			swg.Wait()
			pool.Wait()
			waitSeq = seq.Add(1)
			waitReturned.Store(true)
			if cs.LateTasks > 0 {
				<-lateDone
				pool.Wait() // the late tasks as well, before the round is over
			}
		}()
		if cs.LateTasks > 0 {
			go func() { // second submitter: starts only when the controller has seen the waiter blocked in Wait
				defer close(lateDone)
				<-lateGo
				for id := pre; id < n; id++ {
					pool.Submit(task(id))
				}
				if cs.LateWaits {
					pool.Wait()
					lateWaitReturned.Store(true)
				}
			}()
		}
		if cs.Gated {
			step := 0
			dwells := 0
			for {
				sn, ok := quiesce.Wait(self, quiesceBudget, &st)
				if !ok {
					o.Incon = fmt.Sprintf("quiescence not reached (round %d step %d, states %v)", round, step, sn.States)
					mu.Lock()
					for k, ch := range parked {
						close(ch)
						delete(parked, k)
					}
					mu.Unlock()
					return o
				}
				fin := false
				select {
				case <-done:
					fin = true
				default:
				}
				if fin {
					mu.Lock()
					np := len(parked)
					mu.Unlock()
					if unfinished := n - int(completed.Load()-completedAtRoundStart); np > 0 || unfinished > 0 {
						// the round's waiter is through (its Wait has returned) although tasks of the round are still parked or
						// not even started: a verdict — and the end of this case (going on would block the harness itself in
						// Submit behind tasks nobody releases)
						o.WaitEarly = append(o.WaitEarly, fmt.Sprintf("round %d: Wait had returned with %d tasks unfinished (%d parked, nothing else runnable)", round, unfinished, np))
						mu.Lock()
						for k, ch := range parked {
							close(ch)
							delete(parked, k)
						}
						mu.Unlock()
						o.HighWater = int(hw.Load())
						o.Snapshots = st.Snapshots
						return o
					}
					break
				}
				if cs.DwellMs > 0 && dwells < 2 {
					blocked := false
					for id, s := range sn.States {
						if s == "chan send" || (s == "select" && !baseline[id]) {
							blocked = true
						}
					}
					if blocked && int(completed.Load()-completedAtRoundStart) < n {
						dwells++
						time.Sleep(time.Duration(cs.DwellMs) * time.Millisecond)
						if sn, ok = quiesce.Wait(self, quiesceBudget, &st); !ok {
							o.Incon = "quiescence not reached after dwell"
							return o
						}
					}
				}
				mu.Lock()
				keys := make([]int, 0, len(parked))
				for k := range parked {
					keys = append(keys, k)
				}
				mu.Unlock()
				sort.Ints(keys)
				doneThisRound := int(completed.Load() - completedAtRoundStart)
				unfinished := n - doneThisRound
				qp := QPoint{Parked: keys, Width: len(keys), Started: doneThisRound + len(keys), Released: -1, Goroutines: sn.Goroutines}
				blockedSend := 0
				for id, s := range sn.States {
					if s == "chan send" && !baseline[id] {
						blockedSend++
					}
				}
				if blockedSend > 0 {
					o.SubmitBlocks++
				}
				if cs.LateTasks > 0 && !lateStarted {
					// the waiter is blocked inside Wait now (its own tasks are parked): let the second goroutine submit
					lateStarted = true
					close(lateGo)
					continue
				}
				if cs.LateWaits && lateWaitReturned.Load() && unfinished > 0 {
					o.WaitEarly = append(o.WaitEarly, fmt.Sprintf("round %d: a second goroutine's Wait (overlapping the first waiter's) returned while %d previously submitted tasks, its own among them, were still unfinished", round, unfinished))
				}
				if cs.LateTasks > 0 {
					preUnfinished := 0
					for id := 0; id < pre; id++ {
						if plainDone(endSeq, id) == 0 {
							preUnfinished++
						}
					}
					if waitReturned.Load() && preUnfinished > 0 {
						o.WaitEarly = append(o.WaitEarly, fmt.Sprintf("round %d: Wait returned while %d of the %d tasks submitted before it were still unfinished (tasks submitted later by another goroutine had completed)", round, preUnfinished, pre))
					}
				} else if waitReturned.Load() && unfinished > 0 {
					o.WaitEarly = append(o.WaitEarly, fmt.Sprintf("round %d: Wait had returned with %d tasks unfinished (%d parked)", round, unfinished, len(keys)))
				}
				// Submit blocks while the queue (2*workers) is full: never more than workers + 2*workers tasks accepted and unfinished
				if acc := int(accepted.Load()) - int(completed.Load()-completedAtRoundStart); acc > 3*we {
					o.SubmitOverrun = append(o.SubmitOverrun, fmt.Sprintf("round %d point %d: %d Submit calls have returned for tasks that are not finished, but %d workers plus a queue of %d can hold only %d — Submit did not block on the full queue", round, step, acc, we, 2*we, 3*we))
				}
				want := minInt(we, unfinished)
				if cs.LateTasks > 0 || cs.NestedSubmit {
					want = 0
				}
				if len(keys) < want {
					o.UnderUse = append(o.UnderUse, fmt.Sprintf("round %d point %d: %d tasks parked, want min(workers=%d, unfinished=%d)", round, step, len(keys), we, unfinished))
				}
				if len(keys) > we {
					o.OverLimit = append(o.OverLimit, fmt.Sprintf("round %d point %d: %d tasks in flight with %d workers", round, step, len(keys), we))
				}
				if len(keys) == 0 {
					o.Deadlock = true
					o.Points = append(o.Points, qp)
					dump := make([]byte, 1<<16)
					o.Dump = string(dump[:runtimeStack(dump)])
					return o
				}
				var idx int
				switch cs.Policy {
				case "late-first": // keys are sorted: late tasks have the highest ids
					idx = len(keys) - 1
				case "last":
					idx = len(keys) - 1
				case "random":
					idx = prng.IntN(len(keys))
				}
				qp.Released = keys[idx]
				if len(o.Points) < 64 {
					o.Points = append(o.Points, qp)
				}
				mu.Lock()
				ch := parked[keys[idx]]
				delete(parked, keys[idx])
				mu.Unlock()
				close(ch)
				step++
			}
		} else {
			t0 := time.Now()
		waitRound:
			for {
				select {
				case <-done:
					break waitRound
				case <-time.After(250 * time.Millisecond):
				}
				// not finished yet: if every goroutine is blocked (twice in a row, nothing asleep in a timer), nothing
				// can ever run again — the round is stuck for good, which is a verdict, not a timeout
				if sn, ok := quiesce.Wait(self, 300*time.Millisecond, &st); ok && sn.Sleepers == 0 {
					select {
					case <-done:
						break waitRound
					default:
					}
					o.Deadlock = true
					dump := make([]byte, 1<<16)
					o.Dump = string(dump[:runtimeStack(dump)])
					return o
				}
				if time.Since(t0) > 120*time.Second {
					o.Incon = "free-running pool round did not finish within 120s"
					return o
				}
			}
		}
		// the waiter's view after Wait: every effect must be visible (under -race a missing barrier is a report)
		for id := 0; id < n; id++ {
			if plain[id] != id+1 {
				o.Invisible = append(o.Invisible, fmt.Sprintf("round %d task %d: effect not visible after Wait (got %d)", round, id, plain[id]))
			}
			cnt := counts[id]
			if cnt != 1 {
				o.NotOnce = append(o.NotOnce, fmt.Sprintf("round %d task %d executed %d times", round, id, cnt))
			}
			if !cs.Lean && id < pre && endSeq[id] > waitSeq {
				o.LateTasks = append(o.LateTasks, fmt.Sprintf("round %d task %d finished after Wait had returned", round, id))
			}
			o.TasksRun += int(cnt)
		}
		if cs.IdleMs > 0 {
			time.Sleep(time.Duration(cs.IdleMs) * time.Millisecond)
			for id := 0; id < n; id++ {
				if cnt := atomic.LoadInt32(&counts[id]); cnt != 1 {
					o.NotOnce = append(o.NotOnce, fmt.Sprintf("round %d task %d had been executed %d times after the pool sat idle for %d ms", round, id, cnt, cs.IdleMs))
				}
			}
		}
	}
	o.HighWater = int(hw.Load())
	o.Snapshots = st.Snapshots
	pool.Close()
	for _, op := range others {
		op.Close()
	}
	others = nil
	// goroutine census: everything that appeared since the baseline must be gone (worker exit is asynchronous: poll)
	deadline := time.Now().Add(10 * time.Second)
	for {
		sn := quiesce.Snap(self)
		var left []string
		for id, s := range sn.States {
			if !baseline[id] {
				left = append(left, fmt.Sprintf("g%d[%s]", id, s))
			}
		}
		if len(left) == 0 {
			break
		}
		if time.Now().After(deadline) {
			sort.Strings(left)
			o.Leaked = left
			break
		}
		time.Sleep(200 * time.Microsecond)
	}
	return o
}

// runPingPong: tiny tasks submitted one at a time, each the moment the previous one has signalled its completion —
// the submitter keeps meeting a worker that is just about to go idle. Every task must run; the hand-over may not
// depend on which side gets there first.
var spinSink atomic.Int64

func runPingPong(cs *PoolCase, pool *flyt.WorkerPool, o *PoolObs, self int, st *quiesce.Stats) {
	var flag atomic.Int64
	var ran atomic.Int64
	sink := 0
	if cs.PingWait {
		// the LAST Submit before a Wait meets a pool that is just going idle (the task before it is finishing at that
		// very moment, with a swept skew): Wait still covers it
		for it := 1; it <= cs.PingPong; it++ {
			var aStarted atomic.Bool
			pool.Submit(func() {
				aStarted.Store(true)
				ran.Add(1)
				for d := it % 32; d > 0; d-- { // its last statements: the skew between its return and the next Submit is swept
					spinSink.Add(1)
				}
			})
			for spins := 0; !aStarted.Load(); spins++ {
				if spins > 2000 {
					runtime.Gosched()
				}
			}
			pool.Submit(func() {
				for t0 := time.Now(); time.Since(t0) < 20*time.Microsecond; { // (long enough for a Wait that does not wait to be seen)
				}
				ran.Add(1)
			})
			pool.Wait()
			if got := ran.Load(); got != int64(2*it) {
				o.WaitEarly = append(o.WaitEarly, fmt.Sprintf("round %d of a submit/submit/Wait loop: Wait returned with %d of the %d tasks submitted so far executed (the task submitted last met a pool that was just going idle)", it, got, 2*it))
				for spins := 0; ran.Load() != int64(2*it) && spins < 50000000; spins++ {
					runtime.Gosched()
				}
				break
			}
		}
		o.TasksRun += int(ran.Load())
		_ = sink
		return
	}
	for it := 1; it <= cs.PingPong; it++ {
		want := int64(it)
		for d := (it * 7) % 48; d > 0; d-- { // swept delay, a few spin steps
			sink += d
		}
		pool.Submit(func() {
			ran.Add(1)
			for d := (it * 5) % 32; d > 0; d-- {
				sink++
			}
			flag.Store(want)
		})
		for spins := 0; flag.Load() != want; spins++ {
			if spins > 2000 {
				runtime.Gosched()
			}
			if spins > 400000 && spins%100000 == 0 {
				// the task has not run for a long while: stuck for good iff everything is blocked
				if sn, ok := quiesce.Wait(self, 300*time.Millisecond, st); ok && sn.Sleepers == 0 && flag.Load() != want {
					o.Deadlock = true
					dump := make([]byte, 1<<16)
					o.Dump = fmt.Sprintf("ping-pong iteration %d of %d: the submitted task never ran\n%s", it, cs.PingPong, dump[:runtimeStack(dump)])
					return
				}
				if spins > 400000000 {
					o.Incon = "ping-pong task did not complete and the process never became quiescent"
					return
				}
			}
		}
	}
	pool.Wait()
	if got := ran.Load(); got != int64(cs.PingPong) {
		o.NotOnce = append(o.NotOnce, fmt.Sprintf("ping-pong: %d tasks submitted one after the other, %d executions", cs.PingPong, got))
	}
	o.TasksRun += int(ran.Load())
	_ = sink
}

// runCloseBusyCase: w tasks are parked on the workers, `queued` more sit in the queue, and Close is called (by a
// helper goroutine) while they do. Whatever becomes of the queued tasks, never more than w tasks are in flight.
func runCloseBusyCase(w, queued int) (over string, seen int, incon string) {
	self := quiesce.Self()
	var st quiesce.Stats
	var mu sync.Mutex
	parked := map[int]chan struct{}{}
	pool := flyt.NewWorkerPool(w)
	we := effWorkers(w)
	n := we + queued
	for id := 0; id < n; id++ {
		id := id
		pool.Submit(func() {
			ch := make(chan struct{})
			mu.Lock()
			parked[id] = ch
			mu.Unlock()
			<-ch
		})
	}
	if _, ok := quiesce.Wait(self, quiesceBudget, &st); !ok {
		return "", 0, "quiescence not reached before Close"
	}
	closed := make(chan struct{})
	go func() { defer close(closed); defer func() { recover() }(); pool.Close() }()
	for round := 0; round < 4*n+8; round++ {
		if _, ok := quiesce.Wait(self, quiesceBudget, &st); !ok {
			return over, seen, "quiescence not reached after Close"
		}
		mu.Lock()
		k := len(parked)
		if k > seen {
			seen = k
		}
		if k > we && over == "" {
			over = fmt.Sprintf("pool of %d workers, %d tasks parked on the workers and %d more queued when Close was called: %d tasks are in flight at once", w, we, queued, k)
		}
		if k == 0 {
			mu.Unlock()
			return over, seen, ""
		}
		for id, ch := range parked { // release one
			close(ch)
			delete(parked, id)
			break
		}
		mu.Unlock()
	}
	return over, seen, ""
}

func judgePool(cs *PoolCase, o *PoolObs) []scen.Finding {
	var fs []scen.Finding
	add := func(prop, key, f string, a ...any) {
		fs = append(fs, scen.Finding{Prop: prop, Key: key, Detail: fmt.Sprintf(f, a...)})
	}
	if o.Incon != "" {
		return fs
	}
	w := fmt.Sprintf("w%s", map[bool]string{true: "<=0", false: "N"}[cs.Workers <= 0])
	if o.Panic != "" {
		add("C12", "panic", "worker pool panicked: %s", o.Panic)
		return fs
	}
	if o.Deadlock {
		add("C12", "stuck:"+w, "pool(%d) with %d tasks: everything is blocked, no task is parked, Wait has not returned — a submitted task never ran (dropped or lost)", cs.Workers, cs.Tasks)
		add("C08", "pool-stuck:"+w, "pool(%d) stopped making progress with tasks outstanding", cs.Workers)
		return fs
	}
	for _, s := range o.NotOnce {
		add("C12", "not-exactly-once:"+w, "%s (pool of %d, %d tasks, %d submitters)", s, cs.Workers, cs.Tasks, cs.Submitters)
		break
	}
	for _, s := range o.WaitEarly {
		add("C12", "wait-early:"+w, "%s", s)
		break
	}
	for _, s := range o.SubmitOverrun {
		add("C12", "submit-did-not-block:"+w, "%s", s)
		break
	}
	for _, s := range o.LateTasks {
		add("C12", "wait-early-free:"+w, "%s", s)
		break
	}
	for _, s := range o.Invisible {
		add("C12", "effects-invisible:"+w, "%s", s)
		break
	}
	if len(o.Leaked) > 0 {
		add("C12", "goroutine-leak:"+w, "after Wait and Close %d goroutines created by the pool are still present: %v", len(o.Leaked), o.Leaked)
	}
	for _, s := range o.UnderUse {
		add("C08", "pool-under-use:"+w, "%s: the worker limit is not fully usable", s)
		break
	}
	for _, s := range o.OverLimit {
		add("C08", "pool-over-limit:"+w, "%s", s)
		break
	}
	if !cs.Lean && o.HighWater > effWorkers(cs.Workers) {
		add("C08", "pool-over-limit-hw:"+w, "%d tasks were in flight at once in a pool of %d workers", o.HighWater, cs.Workers)
	}
	return fs
}

func runAndJudgePool(c *Cfg, prop string, cs *PoolCase) *PoolObs {
	logCase(c, cs)
	o := runPoolCase(cs)
	c.Rep.Eval()
	if o.Incon != "" {
		c.Rep.Incon(o.Incon)
		return o
	}
	c.Rep.Count("pool.quiescent_points", int64(len(o.Points)))
	c.Rep.Count("pool.stack_snapshots", o.Snapshots)
	c.Rep.Count("pool.tasks_run", int64(o.TasksRun))
	c.Rep.Count("pool.points_with_blocked_submitter", int64(o.SubmitBlocks))
	c.Rep.HighWater("pool.in_flight_high_water", int64(o.HighWater))
	for _, f := range judgePool(cs, o) {
		if f.Prop == prop {
			c.Rep.Violate(prop, prop+":"+f.Key, f.Detail, cs)
		}
	}
	return o
}

func isPoolCase(spec json.RawMessage) bool {
	var probe struct {
		Workers *int `json:"workers"`
		Tasks   *int `json:"tasks"`
	}
	return json.Unmarshal(spec, &probe) == nil && probe.Workers != nil && probe.Tasks != nil
}

func replayPool(c *Cfg, prop string, spec json.RawMessage) {
	var cs PoolCase
	if err := json.Unmarshal(spec, &cs); err != nil {
		fmt.Println("cannot parse pool case:", err)
		return
	}
	o := runPoolCase(&cs)
	b, _ := json.MarshalIndent(o, "", " ")
	fmt.Println(string(b))
	for _, f := range judgePool(&cs, o) {
		mark := " "
		if f.Prop == prop {
			mark = "*"
			c.Rep.Violate(prop, prop+":"+f.Key, f.Detail, cs)
		}
		fmt.Printf(" %s finding %s %s: %s\n", mark, f.Prop, f.Key, f.Detail)
	}
}

func poolLoop(c *Cfg, n int, gen func(i int) *PoolCase, each func(i int, cs *PoolCase, o *PoolObs), prop string) {
	defer setGCOff()()
	ran := 0
	for i := 0; i < n; i++ {
		if !c.Mine(i) {
			continue
		}
		if ran++; ran%128 == 0 {
			runGC()
		}
		cs := gen(i)
		o := runAndJudgePool(c, prop, cs)
		if o.Incon != "" || o.Deadlock || len(o.Leaked) > 0 {
			c.Rep.Note(fmt.Sprintf("stopped shard after stuck/inconclusive/leaking pool case %d: %s", i, o.Dump))
			mine := false
			for _, f := range judgePool(cs, o) {
				if f.Prop == prop {
					mine = true
				}
			}
			if !mine && o.Incon == "" {
				c.Rep.Incon(fmt.Sprintf("shard stopped after pool case %d got stuck or leaked (a finding of another property); the remaining cases were not run", i))
			}
			return
		}
		if each != nil {
			each(i, cs, o)
		}
	}
}

func init() {
	register(&Engine{Prop: "C08", Doc: "concurrency limit hard and usable", Gated: true, Run: runC08, Replay: func(c *Cfg, s json.RawMessage) {
		var cb struct {
			Family  string `json:"family"`
			Workers int    `json:"workers"`
			Queued  int    `json:"queued"`
		}
		if json.Unmarshal(s, &cb) == nil && cb.Family == "close-while-busy" {
			defer setGCOff()()
			over, seen, incon := runCloseBusyCase(cb.Workers, cb.Queued)
			fmt.Println("max in flight:", seen, incon)
			if over != "" {
				fmt.Println(" * finding pool-over-limit-at-close:", over)
				c.Rep.Violate("C08", "C08:pool-over-limit-at-close", over, cb)
			}
			return
		}
		var nc NestedCase
		if json.Unmarshal(s, &nc) == nil && nc.Nested {
			fs, seen, incon := runNestedCase(&nc)
			fmt.Println("inner executions in flight:", seen, incon)
			for _, f := range fs {
				fmt.Printf(" * finding %s: %s\n", f.Key, f.Detail)
				c.Rep.Violate("C08", "C08:"+f.Key, f.Detail, nc)
			}
		} else if isPoolCase(s) {
			replayPool(c, "C08", s)
		} else {
			replayBatch(c, "C08", s)
		}
	}})
	register(&Engine{Prop: "C12", Doc: "worker pool", Gated: true, Run: runC12, Replay: func(c *Cfg, s json.RawMessage) { replayPool(c, "C12", s) }})
}

// equalPayloadLimitRun: a concurrent batch over string items of which several (or all) are EQUAL, each execution
// blocking until the controller lets go: at the first quiescent point min(c, n) executions are parked — equal payloads
// are separate items and each occupies a slot of its own.
func equalPayloadLimitRun(cc, n int, allEqual bool) (parked int, incon string) {
	defer setGCOff()()
	self := quiesce.Self()
	var st quiesce.Stats
	var in atomic.Int32
	release := make(chan struct{})
	bn := flyt.NewBatchNode(flyt.WithPrepFuncAny(func(ctx context.Context, s *flyt.SharedStore) (any, error) {
		l := make([]string, n)
		for i := range l {
			l[i] = "same prompt"
			if !allEqual && i%2 == 1 {
				l[i] = "other prompt"
			}
		}
		return l, nil
	}), flyt.WithBatchConcurrency(cc)).WithExecFuncAny(func(ctx context.Context, v any) (any, error) {
		in.Add(1)
		<-release
		return v, nil
	})
	done := make(chan struct{})
	go func() {
		defer close(done)
		_, _ = flyt.Run(context.Background(), bn, flyt.NewSharedStore())
	}()
	_, ok := quiesce.Wait(self, quiesceBudget, &st)
	parked = int(in.Load())
	close(release)
	select {
	case <-done:
	case <-time.After(60 * time.Second):
		return parked, "batch did not finish after the executions were released"
	}
	if !ok {
		return parked, "quiescence not reached"
	}
	return parked, ""
}

func runC08(c *Cfg) {
	runSpecial(c, "C08", "limit-with-retry-settings")
	r := c.Rep
	if RaceEnabled {
		runBatchRace(c, "C08")
		nr := c.Pick(60, 600)
		poolLoop(c, nr, func(i int) *PoolCase {
			rg := c.Rng("c08racepool", i)
			return &PoolCase{Family: "race-pool", Workers: rg.IntN(18) - 1, Tasks: rg.IntN(300), Submitters: 1 + rg.IntN(4), Rounds: 1 + rg.IntN(3), SleepUs: 30, PSeed: rg.Uint64()}
		}, func(i int, cs *PoolCase, o *PoolObs) { r.Count("race.pool_runs", 1); r.Nontrivial(fmt.Sprintf("rp %d %d %d", cs.Workers, cs.Tasks, cs.Submitters)) }, "C08")
		return
	}
	// equal payloads are separate items: c executions that all block run simultaneously also when their payloads are equal
	for _, cc := range []int{2, 3, 5} {
		for _, n := range []int{cc, 2*cc + 1} {
			for _, all := range []bool{true, false} {
				if !c.Mine(cc + n) {
					continue
				}
				got, incon := equalPayloadLimitRun(cc, n, all)
				r.Eval()
				if incon != "" {
					r.Incon(incon)
					continue
				}
				r.Count("equal_payloads.runs", 1)
				if want := minInt(cc, n); got != want {
					key := "under-use:equal-payloads"
					if got > want {
						key = "over-limit:equal-payloads"
					}
					r.Violate("C08", "C08:"+key, fmt.Sprintf("concurrent batch (concurrency %d) over %d string items (all equal: %v), every execution blocking: %d executions are in flight when nothing moves any more, want min(c, n) = %d", cc, n, all, got, want), map[string]any{"family": "equal-payloads-limit", "c": cc, "n": n, "all_equal": all})
				}
				r.Nontrivial(fmt.Sprintf("ep %d %d %v", cc, n, all))
			}
		}
	}
	orders := c.Pick(3, 100)
	var cases []*BatchCase
	idx := 0
	for cc := 0; cc <= 16; cc++ {
		ce := cc
		if ce == 0 {
			ce = 1
		}
		seenN := map[int]bool{}
		for _, n := range []int{1, ce - 1, ce, ce + 1, 2*ce + 1, 4*ce + 8} {
			if n < 1 || seenN[n] {
				continue
			}
			seenN[n] = true
			for ord := 0; ord < orders; ord++ {
				budget := 1 + ord%2
				it := make([]ItemScript, n)
				for j := range it {
					it[j].K = 1
					if budget == 2 && (j+ord)%3 == 0 {
						it[j].K = 2 + (j+ord)%2 // needs its retry / fails for good
					}
				}
				cs := &BatchCase{Family: "limit-grid", N: n, C: cc, Budget: budget, Items: it, Shape: "results", Build: "builder", ExecStyle: []string{"result", "any"}[idx%2], Gated: true, Policy: []string{"random", "first", "last"}[ord%3], PSeed: uint64(c.Seed)*104729 + uint64(idx)}
				if ord%3 == 0 {
					cs.Policy = "random"
				}
				cases = append(cases, cs)
				idx++
			}
		}
	}
	// batches much larger than the pool (>= 32*c items): the limit stays fully usable from the first to the last item
	for _, cc := range []int{2, 3} {
		n := 32*cc + 5
		it := make([]ItemScript, n)
		for j := range it {
			it[j].K = 1
		}
		cases = append(cases, &BatchCase{Family: "limit-large-batch", N: n, C: cc, Budget: 1, Items: it, Shape: "results", Build: "builder", ExecStyle: "any", Gated: true, Policy: []string{"last", "random"}[cc%2], PSeed: uint64(cc)})
	}
	// a positive concurrency given to the constructor, then 0 through the builder method: sequential, in item order
	for _, n := range []int{3, 9} {
		it := make([]ItemScript, n)
		for j := range it {
			it[j].K = 1
		}
		cases = append(cases, &BatchCase{Family: "limit-option-then-builder", N: n, C: 0, Budget: 1, Items: it, Shape: "results", Build: "option-then-builder", ExecStyle: "result", Gated: true, Policy: "first"})
		cases = append(cases, &BatchCase{Family: "limit-option-then-builder", N: n, C: 2, Budget: 1, Items: it, Shape: "results", Build: "option-then-builder", ExecStyle: "result", Gated: true, Policy: "random", PSeed: uint64(n)})
	}
	// the limit the node's own prep chooses for this run (builder methods inside prep) is the limit of this run: hard
	// and usable — whatever the node was built with
	for _, pc := range [][2]int{{0, 3}, {4, 0}, {6, 2}, {1, 4}, {2, 1}, {0, 1}} { // {built with, prep sets}
		for _, n := range []int{5, 9} {
			it := make([]ItemScript, n)
			for j := range it {
				it[j].K = 1
			}
			cases = append(cases, &BatchCase{Family: "limit-chosen-in-prep", N: n, C: pc[1], Budget: 1, Items: it, Shape: "results", Build: []string{"builder", "options"}[n%2], ExecStyle: []string{"result", "any"}[pc[0]%2], Gated: true, Policy: []string{"last", "first", "random"}[(pc[0]+n)%3], PSeed: uint64(n + pc[0]), PrepSets: &PrepSets{BuiltC: pc[0]}})
		}
	}
	// stop mode with retries: while one item is between two of its attempts (the retry is parked, it has not failed for
	// good), a worker that becomes free takes the next item — the limit stays usable
	for _, cc := range []int{2, 3} {
		for _, n := range []int{cc + 2, 3 * cc} {
			it := make([]ItemScript, n)
			for j := range it {
				it[j].K = 1
			}
			it[0].K = 2
			// release item 0's failing first attempt, then (with its second attempt parked) the OTHER executions, highest first
			cases = append(cases, &BatchCase{Family: "limit-in-stop-mode-with-an-open-retry", N: n, C: cc, Stop: true, SetMode: true, Budget: 2, Items: it, Shape: "results", Build: "builder", ExecStyle: []string{"result", "any"}[n%2], Gated: true, Policy: "last", Choices: []int{0}})
			cases = append(cases, &BatchCase{Family: "limit-in-stop-mode-with-an-open-retry", N: n, C: cc, Stop: true, SetMode: true, Budget: 3, Items: it, Shape: "results", Build: "options", ExecStyle: "result", Gated: true, Policy: "last", Choices: []int{0}})
		}
	}
	// long sequential batches: strictly one at a time, in item order
	for _, n := range []int{41, 64} {
		it := make([]ItemScript, n)
		for j := range it {
			it[j].K = 1 + j%2
		}
		cases = append(cases, &BatchCase{Family: "sequential-order", N: n, C: 0, Budget: 2, Items: it, Shape: "results", Build: "builder", ExecStyle: "any", Gated: true, Policy: "first"})
		cases = append(cases, &BatchCase{Family: "sequential-order", N: n, C: 0, Budget: 1, Items: it, Shape: "ints", Build: "compose", ExecStyle: "result", SleepUs: 5})
	}
	// sequential batches with retries and a wait: an item is finished (all its attempts, its fallback) before the next one starts
	for _, n := range []int{3, 6} {
		for _, budget := range []int{2, 3} {
			it := make([]ItemScript, n)
			for j := range it {
				it[j].K = 1 + (j+1)%2*budget // every other item fails all its attempts
			}
			it[0].K = 2
			cases = append(cases, &BatchCase{Family: "sequential-order-with-retry-wait", N: n, C: 0, Budget: budget, FB: n == 6, Items: it, Shape: map[bool]string{true: "any", false: "results"}[n == 6], Build: map[bool]string{true: "compose", false: "builder"}[n == 6], ExecStyle: "any", WaitMs: 2, SleepUs: 0})
			cases = append(cases, &BatchCase{Family: "sequential-order-with-retry-wait", N: n, C: 0, Budget: budget, Items: it, Shape: "results", Build: "options", ExecStyle: "result", WaitMs: 1, Gated: true, Policy: "first"})
		}
	}
	// the same node object run before with fewer items than workers: the limit must still be fully usable afterwards
	for _, cc := range []int{2, 3, 5, 8} {
		for _, pn := range []int{1, cc - 1} {
			n := 2*cc + 1
			it := make([]ItemScript, n)
			for j := range it {
				it[j].K = 1
			}
			cases = append(cases, &BatchCase{Family: "limit-after-earlier-run", N: n, C: cc, Budget: 1, Items: it, Shape: "results", Build: "builder", ExecStyle: "result", Gated: true, Policy: "random", PSeed: uint64(cc*10 + pn),
				Prelude: &Prelude{N: pn, Items: make([]ItemScript, pn)}})
		}
	}
	// retries with a (short) wait: a waiting item still occupies its slot — never more than c in flight
	for _, cc := range []int{1, 2, 3, 4} {
		n := cc + 2
		it := make([]ItemScript, n)
		for j := range it {
			it[j].K = 1
		}
		it[0].K = 2
		cases = append(cases, &BatchCase{Family: "limit-with-retry-wait", N: n, C: cc, Budget: 2, Items: it, Shape: "results", Build: "builder", ExecStyle: "any", Gated: true, Policy: "holdfail", WaitMs: 1, DwellMs: 4})
		cases = append(cases, &BatchCase{Family: "limit-with-retry-wait", N: n, C: cc, Budget: 3, Items: it, Shape: "results", Build: "options", ExecStyle: "result", SleepUs: 300, WaitMs: 1})
	}
	// every item fails its attempt and sits in its fallback: the fallback runs inside the item's slot, so c items can
	// be in their fallbacks together (c fallbacks that wait for each other cannot deadlock the batch)
	for _, cc := range []int{2, 3, 4} {
		for _, build := range []string{"options", "compose"} {
			n := cc + 1
			it := make([]ItemScript, n)
			for j := range it {
				it[j].K = 2
				it[j].FBE = j%2 == 1
			}
			cases = append(cases, &BatchCase{Family: "limit-inside-fallback", N: n, C: cc, Budget: 1, FB: true, GateFB: true, Items: it, Shape: map[string]string{"options": "results", "compose": "any"}[build], Build: build, ExecStyle: []string{"result", "any"}[cc%2], Gated: true, Policy: "hold-fallbacks", PSeed: uint64(cc)})
		}
	}
	// stop mode: as long as nothing has failed the limit is as usable as in continue mode (also for the very first items)
	for _, cc := range []int{2, 3, 5, 8} {
		for _, n := range []int{cc, cc + 3, 4*cc + 8} {
			it := make([]ItemScript, n)
			for j := range it {
				it[j].K = 1
			}
			cases = append(cases, &BatchCase{Family: "limit-stop-mode", N: n, C: cc, Stop: true, SetMode: true, Budget: 1, Items: it, Shape: "results", Build: []string{"builder", "options", "builder-mode-first"}[(cc+n)%3], ExecStyle: []string{"result", "any"}[n%2], Gated: true, Policy: []string{"last", "first", "random"}[cc%3], PSeed: uint64(cc*100 + n)})
		}
	}
	// dwell cases: the controller waits 150 ms at saturated quiescent points, so behaviour triggered by time
	// (e.g. a submit that gives up blocking after a grace period) gets its chance to exceed the limit
	for _, cc := range []int{1, 2, 3} {
		for _, n := range []int{3*cc + 3, 4*cc + 8} {
			it := make([]ItemScript, n)
			for j := range it {
				it[j].K = 1
			}
			cases = append(cases, &BatchCase{Family: "limit-dwell", N: n, C: cc, Budget: 1, Items: it, Shape: "results", Build: "builder", ExecStyle: "result", Gated: true, Policy: "first", DwellMs: 150})
		}
	}
	gatedLoop(c, len(cases), func(i int) *BatchCase { return cases[i] }, func(i int, cs *BatchCase, o *BatchObs) {
		r.Count("batch.runs", 1)
		if cs.DwellMs > 0 {
			r.Count("batch.runs.with_dwell", 1)
		}
		full := 0
		lim := cs.C
		if lim == 0 {
			lim = 1
		}
		for _, p := range o.Points {
			if len(p.Parked) == lim {
				full++
			}
		}
		r.Count("batch.points_at_full_limit", int64(full))
		r.Nontrivial(fmt.Sprintf("b %d %d %d %s", cs.N, cs.C, cs.Budget, completionOrder(o)))
		if cs.C >= 3 && cs.N > cs.C && r.SampleWanted("limit") {
			r.Sample("limit", map[string]any{"case": cs, "points": o.Points[:minInt(len(o.Points), 8)], "high_water": o.HighWater})
		}
	}, "C08")
	// nested batches (an item's exec runs another batch with the same concurrency): limits are per batch
	func() {
		defer setGCOff()()
		for cc := 1; cc <= 4; cc++ {
			if !c.Mine(cc) {
				continue
			}
			nc := &NestedCase{Family: "nested-batches", C: cc, Nested: true}
			for vi, seq := range []string{"explicit", "default", "explicit-option"} {
				if cc < 2 {
					continue
				}
				sq := &NestedCase{Family: "nested-sequential-inner", C: cc, Nested: true, InnerSeq: seq, ViaFlow: (cc+vi)%2 == 0}
				logCase(c, sq)
				fs, seen, incon := runNestedCase(sq)
				r.Eval()
				if incon != "" {
					r.Incon(incon)
					return
				}
				r.Count("nested.sequential_inner_runs", 1)
				_ = seen
				for _, f := range fs {
					r.Violate("C08", "C08:"+f.Key, f.Detail, sq)
				}
				r.Nontrivial(fmt.Sprintf("nested-seq %d %s", cc, seq))
				if len(fs) > 0 {
					return
				}
			}
			logCase(c, nc)
			fs, seen, incon := runNestedCase(nc)
			r.Eval()
			if incon != "" {
				r.Incon(incon)
				return
			}
			r.Count("nested.runs", 1)
			r.HighWater("nested.inner_executions_in_flight", int64(seen))
			for _, f := range fs {
				r.Violate("C08", "C08:"+f.Key, f.Detail, nc)
			}
			r.Nontrivial(fmt.Sprintf("nested %d", cc))
			if len(fs) > 0 {
				return // stuck goroutines left behind
			}
		}
	}()
	// the same directly on NewWorkerPool(w), w in -1..16
	var pcs []*PoolCase
	for w := -1; w <= 16; w++ {
		we := effWorkers(w)
		for _, n := range []int{1, we, we + 1, 3*we + 1, 4*we + 8} {
			for ord := 0; ord < orders; ord++ {
				pcs = append(pcs, &PoolCase{Family: "pool-limit", Workers: w, Tasks: n, Submitters: 1 + ord%3, Rounds: 1, Gated: true, Policy: []string{"random", "first", "last"}[ord%3], PSeed: uint64(c.Seed)*31 + uint64(len(pcs))})
			}
		}
	}
	// Close called while the workers are busy and tasks are still queued: the bound holds then as well
	func() {
		defer setGCOff()()
		idx := 0
		for _, w := range []int{-1, 1, 2, 3, 8} {
			for _, q := range []int{1, effWorkers(w), 2 * effWorkers(w)} {
				idx++
				if !c.Mine(idx) {
					continue
				}
				cb := map[string]any{"family": "close-while-busy", "workers": w, "tasks": effWorkers(w) + q, "queued": q}
				logCase(c, cb)
				over, seen, incon := runCloseBusyCase(w, q)
				r.Eval()
				if incon != "" {
					r.Incon(incon)
					return
				}
				r.Count("pool.close_while_busy_cases", 1)
				r.HighWater("pool.close_while_busy_in_flight", int64(seen))
				if over != "" {
					r.Violate("C08", "C08:pool-over-limit-at-close", over, cb)
				}
				r.Nontrivial(fmt.Sprintf("cb %d %d", w, q))
			}
		}
	}()
	for _, w := range []int{-1, 1, 2, 3} {
		if w > 1 {
			for ew := 1; ew <= 2; ew++ { // a Wait on the brand-new pool (idle, or after one trivial task), then load: the limit is what it was made with
				pcs = append(pcs, &PoolCase{Family: "pool-limit-after-wait-on-a-fresh-pool", Workers: w, Tasks: 3*w + 1, Submitters: 1, Rounds: 2, Gated: true, Policy: []string{"first", "last"}[ew%2], EarlyWait: ew})
			}
		}
		if w > 1 {
			// the pool sits idle for a while (before its first task, between rounds): all w workers are still there afterwards
			pcs = append(pcs, &PoolCase{Family: "pool-limit-after-idle", Workers: w, Tasks: 2 * w, Submitters: 1, Rounds: 3, Gated: true, Policy: "first", IdleMs: 650, EarlyWait: 1})
		}
		if w > 1 {
			// hundreds of quick tasks first (workers going to sleep and being woken over and over), then tasks that all block:
			// every one of the w workers still takes one
			pcs = append(pcs, &PoolCase{Family: "pool-limit-after-churn", Workers: w, Tasks: 2 * w, Submitters: 1, Rounds: 4, Gated: true, Policy: "last", PreTasks: 300})
			pcs = append(pcs, &PoolCase{Family: "pool-limit-after-churn", Workers: 4 * w, Tasks: 4 * w, Submitters: 2, Rounds: 3, Gated: true, Policy: "first", PreTasks: 500})
		}
		pcs = append(pcs, &PoolCase{Family: "pool-limit-dwell", Workers: w, Tasks: 3*effWorkers(w) + 4, Submitters: 1 + (w+1)%2, Rounds: 1, Gated: true, Policy: "first", DwellMs: 350})
	}
	poolLoop(c, len(pcs), func(i int) *PoolCase { return pcs[i] }, func(i int, cs *PoolCase, o *PoolObs) {
		r.Count("pool.runs", 1)
		if cs.DwellMs > 0 {
			r.Count("pool.runs.with_dwell", 1)
		}
		r.Nontrivial(fmt.Sprintf("p %d %d %d %s", cs.Workers, cs.Tasks, cs.Submitters, cs.Policy))
	}, "C08")
}

func runC12(c *Cfg) {
	r := c.Rep
	if RaceEnabled {
		nr := c.Pick(200, 2000)
		poolLoop(c, nr, func(i int) *PoolCase {
			rg := c.Rng("c12race", i)
			return &PoolCase{Family: "race-pool", Workers: rg.IntN(18) - 1, Tasks: rg.IntN(501), Submitters: 1 + rg.IntN(4), Rounds: 1 + rg.IntN(5), SleepUs: rg.IntN(40), PSeed: rg.Uint64(), Lean: i%2 == 0}
		}, func(i int, cs *PoolCase, o *PoolObs) {
			r.Count("race.pool_runs", 1)
			r.Nontrivial(fmt.Sprintf("rp %d %d %d %d %v", cs.Workers, cs.Tasks, cs.Submitters, cs.Rounds, cs.Lean))
		}, "C12")
		return
	}
	// gated: every pool size, task counts around the queue capacity (2*workers) and far beyond
	var pcs []*PoolCase
	reps := c.Pick(1, 20)
	for w := -1; w <= 16; w++ {
		we := effWorkers(w)
		for _, n := range []int{0, 1, we, 2 * we, 3 * we, 3*we + 1, 5*we + 3} {
			for subs := 1; subs <= 4; subs++ {
				for rep := 0; rep < reps; rep++ {
					pcs = append(pcs, &PoolCase{Family: "gated", Workers: w, Tasks: n, Submitters: subs, Rounds: 1 + (len(pcs) % 3), Gated: true, Policy: []string{"random", "first", "last"}[len(pcs)%3], PSeed: uint64(c.Seed)*131 + uint64(len(pcs))})
				}
			}
		}
	}
	// idle periods between rounds (time-triggered behaviour such as idle timers gets its chance)
	for _, w := range []int{1, 2, 3, 6} {
		for ew := 1; ew <= 2; ew++ {
			pcs = append(pcs, &PoolCase{Family: "wait-on-a-fresh-pool", Workers: w, Tasks: 2*w + 1, Submitters: 2, Rounds: 2, Gated: true, Policy: "random", PSeed: uint64(w + ew), EarlyWait: ew})
		}
		pcs = append(pcs, &PoolCase{Family: "idle-between-rounds", Workers: w, Tasks: w + 1, Submitters: 1, Rounds: 2, Gated: true, Policy: "first", IdleMs: 650})
	}
	// saturated pool left alone for 350 ms: Submit keeps blocking (a grace period after which it "helps out" would show)
	for _, w := range []int{1, 2, 4} {
		pcs = append(pcs, &PoolCase{Family: "saturated-dwell", Workers: w, Tasks: 3*w + 3, Submitters: 1, Rounds: 1, Gated: true, Policy: "first", DwellMs: 350})
	}
	// a second goroutine submits while the first is inside Wait; its tasks complete first (out-of-order completion)
	for w := 2; w <= 8; w++ {
		for pre := 1; pre < w; pre++ {
			if pre > 3 && pre != w-1 {
				continue
			}
			pcs = append(pcs, &PoolCase{Family: "late-submitter", Workers: w, Tasks: pre, LateTasks: pre + 1 + (w+pre)%3, Submitters: 1, Rounds: 1, Gated: true, Policy: "late-first"})
			pcs = append(pcs, &PoolCase{Family: "two-waiters", Workers: w, Tasks: pre, LateTasks: 1 + (w+pre)%3, LateWaits: true, Submitters: 1, Rounds: 1, Gated: true, Policy: []string{"first", "late-first", "random"}[(w+pre)%3], PSeed: uint64(w*31 + pre)})
		}
	}
	// submit-on-completion chains (the submitter meets a worker that is just going idle)
	for _, w := range []int{1, 1, 2, 3} {
		pcs = append(pcs, &PoolCase{Family: "ping-pong", Workers: w, Tasks: 2 * w, Submitters: 1, Rounds: 1, Gated: true, Policy: "first", PingPong: c.Pick(12000, 400000)})
	}
	for _, w := range []int{1, 2, 3} {
		pcs = append(pcs, &PoolCase{Family: "last-submit-meets-a-pool-going-idle", Workers: w, Tasks: w, Submitters: 1, Rounds: 1, Gated: true, Policy: "first", PingPong: c.Pick(40000, 600000), PingWait: true})
	}
	// tasks that submit a follow-up task to their own pool while another goroutine is inside Wait
	for _, w := range []int{1, 2, 3, 8} {
		for _, pre := range []int{1, w} {
			pcs = append(pcs, &PoolCase{Family: "nested-submit-during-wait", Workers: w, Tasks: pre, Submitters: 1, Rounds: 2, Gated: true, Policy: []string{"first", "last", "random"}[(w+pre)%3], PSeed: uint64(w*7 + pre), NestedSubmit: true})
		}
	}
	for k := 1; k <= 9; k++ { // the same after k earlier submissions (whatever per-submit bookkeeping the pool keeps is shifted by k)
		pcs = append(pcs, &PoolCase{Family: "nested-submit-during-wait-shifted", Workers: 1 + k%3, Tasks: 1, Submitters: 1, Rounds: 3, Gated: true, Policy: "first", NestedSubmit: true, PreTasks: k})
	}
	for _, w := range []int{2, 9, 12, 16} { // two follow-ups per task: 2*workers queued, exactly what the queue holds
		pcs = append(pcs, &PoolCase{Family: "nested-submit-filling-the-queue", Workers: w, Tasks: w, Submitters: 1, Rounds: 1, Gated: true, Policy: "first", NestedSubmit: true, NestedKids: 2})
	}
	// well over a thousand submissions in one round while the very first task stays parked to the end (whatever
	// bookkeeping the pool keeps per submission, Wait still covers the early straggler)
	for _, w := range []int{2, 4} {
		pcs = append(pcs, &PoolCase{Family: "early-straggler-behind-many-tasks", Workers: w, Tasks: 1300, Submitters: 4, Rounds: 1, Gated: true, Policy: "last"})
	}
	// many other pools alive at the same time (17 x 16 workers): this pool behaves as if it were alone
	for _, w := range []int{1, 4, 16} {
		pcs = append(pcs, &PoolCase{Family: "many-open-pools", Workers: w, Tasks: 3*w + 1, Submitters: 2, Rounds: 2, Gated: true, Policy: "random", PSeed: uint64(w), OpenPools: 17})
	}
	poolLoop(c, len(pcs), func(i int) *PoolCase { return pcs[i] }, func(i int, cs *PoolCase, o *PoolObs) {
		r.Count("gated.runs", 1)
		if cs.PingPong > 0 {
			r.Count("ping_pong.tasks", int64(cs.PingPong))
		}
		if cs.LateTasks > 0 {
			r.Count("gated.runs.late_submitter", 1)
		}
		r.HighWater("pool.goroutines_created", int64(o.PoolGs))
		if cs.Tasks > 0 {
			r.Nontrivial(fmt.Sprintf("g %d %d %d %d %s", cs.Workers, cs.Tasks, cs.Submitters, cs.Rounds, cs.Policy))
		}
		if cs.Tasks > 3*effWorkers(cs.Workers) && cs.Workers >= 2 && cs.Workers <= 3 && r.SampleWanted("gated") {
			r.Sample("gated", map[string]any{"case": cs, "points": o.Points[:minInt(len(o.Points), 10)], "submit_blocked_points": o.SubmitBlocks, "pool_goroutines": o.PoolGs})
		}
	}, "C12")
	// free-running with random durations, up to 500 tasks
	nr := c.Pick(150, 10000)
	poolLoop(c, nr, func(i int) *PoolCase {
		rg := c.Rng("c12free", i)
		return &PoolCase{Family: "free", Workers: rg.IntN(18) - 1, Tasks: rg.IntN(501), Submitters: 1 + rg.IntN(4), Rounds: 1 + rg.IntN(5), SleepUs: rg.IntN(30), PSeed: rg.Uint64()}
	}, func(i int, cs *PoolCase, o *PoolObs) {
		r.Count("free.runs", 1)
		if cs.Tasks > 0 {
			r.Nontrivial(fmt.Sprintf("f %d %d %d %d", cs.Workers, cs.Tasks, cs.Submitters, cs.Rounds))
		}
	}, "C12")
}

// NestedCase: an outer batch (concurrency C, C items) whose exec runs an inner batch (concurrency C, C items);
// every inner item parks. Each batch has its own limit, so all C*C inner executions must be in flight together.
type NestedCase struct {
	Family string `json:"family"`
	C      int    `json:"c"`
	Nested bool   `json:"nested"`
	// InnerSeq: the inner batches have concurrency 0 ("explicit": set to 0; "default": never set): each of them runs
	// strictly one item at a time, in item order, whatever the enclosing batch's concurrency is
	InnerSeq string `json:"inner_seq,omitempty"`
	ViaFlow  bool   `json:"via_flow,omitempty"` // the inner batch is started through a Flow instead of flyt.Run
}

func runNestedCase(cs *NestedCase) (fs []scen.Finding, parkedSeen int, incon string) {
	self := quiesce.Self()
	var mu sync.Mutex
	parked := map[int]chan struct{}{}
	c := cs.C
	inner := func(o int) flyt.Node {
		bn := flyt.NewBatchNode()
		switch cs.InnerSeq {
		case "":
			bn = bn.WithBatchConcurrency(c)
		case "explicit":
			bn = bn.WithBatchConcurrency(0)
		case "explicit-option":
			bn = flyt.NewBatchNode(flyt.WithBatchConcurrency(0))
		}
		return bn.
			WithPrepFunc(func(ctx context.Context, s *flyt.SharedStore) ([]flyt.Result, error) {
				r := make([]flyt.Result, c)
				for i := range r {
					r[i] = flyt.NewResult(o*100 + i)
				}
				return r, nil
			}).
			WithExecFuncAny(func(ctx context.Context, v any) (any, error) {
				ch := make(chan struct{})
				mu.Lock()
				parked[v.(int)] = ch
				mu.Unlock()
				<-ch
				return v, nil
			})
	}
	outer := flyt.NewBatchNode().WithBatchConcurrency(c).
		WithPrepFunc(func(ctx context.Context, s *flyt.SharedStore) ([]flyt.Result, error) {
			r := make([]flyt.Result, c)
			for i := range r {
				r[i] = flyt.NewResult(i)
			}
			return r, nil
		}).
		WithExecFuncAny(func(ctx context.Context, v any) (any, error) {
			var err error
			if cs.ViaFlow {
				err = flyt.NewFlow(inner(v.(int))).Run(ctx, flyt.NewSharedStore())
			} else {
				_, err = flyt.Run(ctx, inner(v.(int)), flyt.NewSharedStore())
			}
			return v, err
		})
	done := make(chan struct{})
	go func() {
		defer close(done)
		defer func() { recover() }()
		_, _ = flyt.Run(context.Background(), outer, flyt.NewSharedStore())
	}()
	var st quiesce.Stats
	innerNext := map[int]int{}
	for round := 0; round < 10*c*c+10; round++ {
		if _, ok := quiesce.Wait(self, quiesceBudget, &st); !ok {
			return nil, parkedSeen, "quiescence not reached in nested batch case"
		}
		select {
		case <-done:
			return fs, parkedSeen, ""
		default:
		}
		mu.Lock()
		n := len(parked)
		if n > parkedSeen {
			parkedSeen = n
		}
		if cs.InnerSeq != "" {
			// per outer item at most one inner execution in flight, and it is the lowest item not yet executed
			per := map[int][]int{}
			for k := range parked {
				per[k/100] = append(per[k/100], k%100)
			}
			for o, ks := range per {
				if len(ks) > 1 {
					fs = append(fs, scen.Finding{Prop: "C08", Key: "nested-sequential-over-limit", Detail: fmt.Sprintf("an inner batch with concurrency 0 (%s), run from item %d of an outer batch with concurrency %d: %d of its items are in flight at once (%v) — concurrency 0 means strictly one at a time, in item order", cs.InnerSeq, o, c, len(ks), ks)})
				} else if ks[0] != innerNext[o] {
					fs = append(fs, scen.Finding{Prop: "C08", Key: "nested-sequential-order", Detail: fmt.Sprintf("an inner sequential batch (outer item %d) is executing its item %d, but item %d is the next in item order", o, ks[0], innerNext[o])})
				}
			}
			if len(fs) > 0 {
				for k, ch := range parked {
					close(ch)
					delete(parked, k)
				}
				mu.Unlock()
				return fs, parkedSeen, ""
			}
			if n == 0 {
				mu.Unlock()
				fs = append(fs, scen.Finding{Prop: "C08", Key: "nested-deadlock", Detail: fmt.Sprintf("nested batches (inner sequential) with c=%d: everything is blocked, nothing is parked, the outer run has not returned", c)})
				return fs, parkedSeen, ""
			}
			for k, ch := range parked {
				innerNext[k/100] = k%100 + 1
				close(ch)
				delete(parked, k)
			}
			mu.Unlock()
			continue
		}
		if round == 0 && n != c*c {
			fs = append(fs, scen.Finding{Prop: "C08", Key: "nested-under-use", Detail: fmt.Sprintf("outer batch (c=%d, %d items) whose items each run an inner batch (c=%d, %d items): %d inner executions are in flight at the first quiescent point, want %d — each batch must be able to use its own limit fully, also while another batch is running", c, c, c, c, n, c*c)})
		}
		if n == 0 {
			mu.Unlock()
			fs = append(fs, scen.Finding{Prop: "C08", Key: "nested-deadlock", Detail: fmt.Sprintf("nested batches with c=%d: everything is blocked, nothing is parked, the outer run has not returned", c)})
			return fs, parkedSeen, ""
		}
		for k, ch := range parked {
			close(ch)
			delete(parked, k)
		}
		mu.Unlock()
	}
	return fs, parkedSeen, "nested batch case did not finish"
}
