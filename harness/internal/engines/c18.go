package engines

import (
	"context"
	"errors"
	"encoding/json"
	"fmt"
	"io"
	"time"

	flyt "github.com/mark3labs/flyt"

	"verif/harness/internal/scen"
	"verif/harness/internal/zoo"
)

// ActCase: one point of the "a successful run never yields the empty action" grid.
type ActCase struct {
	Family string `json:"family"`
	Kind   string `json:"kind"` // scripted kind name | "flow" | "flow-in-flow" | "batch"
	Post   string `json:"post"` // action the post phase returns: "", "default", "custom"
	Routed bool   `json:"routed"`
	// batch only
	N     int    `json:"n,omitempty"`
	C     int    `json:"c,omitempty"`
	Shape string `json:"shape,omitempty"`
	Build string `json:"build,omitempty"`
	Stop  bool   `json:"stop,omitempty"`
	FailAt int   `json:"fail_at"` // batch: index of an item whose exec fails (-1: none)
	// scripted kinds: 0 exec succeeds at once, 1 succeeds on the second attempt, 2 every attempt fails and the fallback recovers
	ExecPath int `json:"exec_path,omitempty"`
	// > "": the same node object was run once before and returned this (custom) action then
	Earlier string `json:"earlier,omitempty"`
	CancelInExec bool `json:"cancel_in_exec,omitempty"` // the context is cancelled inside the (successful) exec: the run still succeeds and still reports a non-empty action
	ExecVal string `json:"exec_val,omitempty"` // scripted kinds: name of the zoo value the exec phase produces (e.g. a value of type flyt.Action, empty or not)
	NilEnd  bool   `json:"nil_end,omitempty"`  // flow kinds: the inner flow ends because its last node's action is connected to nil (not because it is unconnected)
	PostByOption string `json:"post_by_option,omitempty"` // batch-post-by-option kind: the post function is handed to NewBatchNode as a constructor option ("result" / "any" form)
	CancelInPrep bool `json:"cancel_in_prep,omitempty"` // batch kind: the context is cancelled inside the batch's own prep (the run may fail with the context's error; if it succeeds, its action is not empty)
	EmptyLast bool `json:"empty_last,omitempty"` // routed: the (inert) connection on the empty action is made AFTER the others
	EarlierInFlow bool `json:"earlier_in_flow,omitempty"` // routed, with Earlier: the earlier run went through the SAME flow object (and ended at this node, whose action was not connected then)
	SelfLoop bool `json:"self_loop,omitempty"` // routed: the connection on the expected action leads back to the node itself (its second visit returns "leave", which leads to the probe)
}

// zeroBaseNode embeds a BaseNode that did not come from NewBaseNode (zero value, by value / by pointer) and
// supplies its own retry settings.
type zeroBaseNode struct {
	flyt.BaseNode
	post string
}

func (n *zeroBaseNode) GetMaxRetries() int { return 1 }
func (n *zeroBaseNode) Post(ctx context.Context, s *flyt.SharedStore, p, e any) (flyt.Action, error) {
	return flyt.Action(n.post), nil
}

// wiringNode calls wire(phase) from each of its callbacks.
type wiringNode struct {
	*flyt.BaseNode
	post string
	wire func(string)
}

func (n *wiringNode) Prep(ctx context.Context, s *flyt.SharedStore) (any, error) { n.wire("prep"); return nil, nil }
func (n *wiringNode) Exec(ctx context.Context, p any) (any, error)               { n.wire("exec"); return nil, nil }
func (n *wiringNode) Post(ctx context.Context, s *flyt.SharedStore, p, e any) (flyt.Action, error) {
	n.wire("post")
	return flyt.Action(n.post), nil
}

// oddExecNode's exec always fails with a fixed error.
type oddExecNode struct {
	*flyt.BaseNode
	post  string
	err   error
	calls *int
}

func (n *oddExecNode) Exec(ctx context.Context, p any) (any, error) { *n.calls++; return nil, n.err }
func (n *oddExecNode) Post(ctx context.Context, s *flyt.SharedStore, p, e any) (flyt.Action, error) {
	return flyt.Action(n.post), nil
}

// oddPostNode's post returns a fixed action and error.
type oddPostNode struct {
	*flyt.BaseNode
	post string
	err  error
}

func (n *oddPostNode) Post(ctx context.Context, s *flyt.SharedStore, p, e any) (flyt.Action, error) {
	return flyt.Action(n.post), n.err
}

type zeroBasePtrNode struct {
	*flyt.BaseNode
	post string
}

func (n *zeroBasePtrNode) GetMaxRetries() int { return 1 }
func (n *zeroBasePtrNode) Post(ctx context.Context, s *flyt.SharedStore, p, e any) (flyt.Action, error) {
	return flyt.Action(n.post), nil
}

// panicNode: one of its phases panics with a value that is neither an error nor a string (an abort signal, a
// status code). Whatever the library does about a panicking callback (today: the panic propagates), the run must
// not come back as a success with the empty action.
type panicNode struct {
	*flyt.BaseNode
	phase string
	val   any
}

func (n *panicNode) Prep(ctx context.Context, s *flyt.SharedStore) (any, error) {
	if n.phase == "prep" {
		panic(n.val)
	}
	return nil, nil
}
func (n *panicNode) Exec(ctx context.Context, p any) (any, error) {
	if n.phase == "exec" {
		panic(n.val)
	}
	return nil, nil
}
func (n *panicNode) Post(ctx context.Context, s *flyt.SharedStore, p, e any) (flyt.Action, error) {
	if n.phase == "post" {
		panic(n.val)
	}
	return "custom", nil
}

type abortSignal struct{ Code int }

// belowOneNode is a struct node whose retry budget is below 1 (set by option, or the zero value of a BaseNode that did
// not come from NewBaseNode). Budgets below 1 are outside the quantifier of the retry properties, so NOTHING is demanded
// about attempts, about post's arguments or about whether such a run succeeds at all — only C18's own statement:
// IF the run succeeds its action is not empty, and a flow that went on after it followed the default connection.
type belowOneNode struct {
	*flyt.BaseNode
	post string
}

func (n *belowOneNode) Post(ctx context.Context, s *flyt.SharedStore, p, e any) (flyt.Action, error) {
	return flyt.Action(n.post), nil
}

type probeNode struct {
	*flyt.BaseNode
	visited *int
}

func (p *probeNode) Exec(ctx context.Context, v any) (any, error) { *p.visited++; return nil, nil }

func runActCase(cs *ActCase) (fs []finding) {
	add := func(key, f string, a ...any) { fs = append(fs, finding{key, fmt.Sprintf(f, a...)}) }
	defer func() {
		if p := recover(); p != nil {
			fs = append(fs, finding{"panic:" + cs.Kind, fmt.Sprint(p)})
		}
	}()
	want := cs.Post
	if want == "" {
		want = "default"
	}
	var node flyt.Node
	runCtx := context.Background()
	switch cs.Kind {
	case "batch":
		post := cs.Post
		bc := &BatchCase{Family: "c18", N: cs.N, C: cs.C, Budget: 1, Items: make([]ItemScript, cs.N), Shape: cs.Shape, Build: cs.Build, ExecStyle: "result", Post: &post, Stop: cs.Stop, SetMode: cs.Stop}
		for i := range bc.Items {
			bc.Items[i].K = 1
			if i == cs.FailAt {
				bc.Items[i].K = 2
			}
		}
		br := newBatchRun(bc)
		node = br.build()
		if cs.CancelInPrep {
			bc.Cancel = &CancelSpec{Kind: "cancel", InPrep: true}
			cctx, cancel := context.WithCancel(context.Background())
			defer cancel()
			runCtx, br.cancel = cctx, cancel
		}
	case "panicking-callback":
		vals := map[string]any{"int": 42, "struct": abortSignal{3}, "ptr": &abortSignal{4}, "nil-error-iface": (*scen.NilableErr)(nil), "bool": false}
		pn := &panicNode{BaseNode: flyt.NewBaseNode(), phase: cs.Shape, val: vals[cs.Build]}
		var act flyt.Action
		var err error
		panicked := func() (p bool) {
			defer func() {
				if recover() != nil {
					p = true
				}
			}()
			if cs.Routed {
				f := flyt.NewFlow(pn)
				act, err = flyt.Run(context.Background(), f, flyt.NewSharedStore())
			} else {
				act, err = flyt.Run(context.Background(), pn, flyt.NewSharedStore())
			}
			return false
		}()
		if !panicked && err == nil && act == "" {
			add("empty-action:panicking-callback:"+cs.Shape, "the %s callback panicked with a value of kind %s; the run came back as a SUCCESS with the empty action (routed inside a flow: %v)", cs.Shape, cs.Build, cs.Routed)
		}
		return
	case "post-fails-with-odd-error":
		// post reports the empty action next to an error value that looks harmless (an aggregate without entries, a
		// typed nil, io.EOF): the run either fails or — were it to succeed — still reports a non-empty action
		errs := map[string]error{"empty-batch-error": &flyt.BatchError{}, "wrapped-empty-batch-error": fmt.Errorf("post: %w", &flyt.BatchError{}), "nil-batch-error": (*flyt.BatchError)(nil),
			"typed-nil": (*scen.NilableErr)(nil), "io.EOF": io.EOF, "nil-slice-error": scen.MultiErr(nil), "empty-joined": errors.Join(&flyt.BatchError{}, &flyt.BatchError{})}
		pe := errs[cs.Build]
		switch cs.Shape {
		case "batch-builder", "batch-node":
			bn := flyt.NewBatchNode().WithBatchConcurrency(cs.C).
				WithPrepFunc(func(ctx context.Context, s *flyt.SharedStore) ([]flyt.Result, error) {
					items := make([]flyt.Result, cs.N)
					for i := range items {
						items[i] = flyt.NewResult(i)
					}
					return items, nil
				}).
				WithExecFuncAny(func(ctx context.Context, v any) (any, error) { return v, nil }).
				WithPostFunc(func(ctx context.Context, s *flyt.SharedStore, items, results []flyt.Result) (flyt.Action, error) {
					return flyt.Action(cs.Post), pe
				})
			node = bn
			if cs.Shape == "batch-node" {
				node = bn.BatchNode
			}
		case "func":
			node = flyt.NewNode().WithPostFuncAny(func(ctx context.Context, s *flyt.SharedStore, p, e any) (flyt.Action, error) { return flyt.Action(cs.Post), pe })
		default:
			node = &oddPostNode{flyt.NewBaseNode(), cs.Post, pe}
		}
		var hit int
		var act flyt.Action
		var err error
		if cs.Routed {
			f := flyt.NewFlow(node)
			f.Connect(node, flyt.DefaultAction, &probeNode{flyt.NewBaseNode(), &hit})
			act, err = flyt.Run(context.Background(), f, flyt.NewSharedStore())
			if err == nil && hit == 0 {
				add("default-connection-not-followed:post-fails-with-odd-error:"+cs.Build, "post of a %s node returned (%q, %s error); the flow run SUCCEEDED, and the connection on the default action was not followed: the node's run ended without error and without a usable action", cs.Shape, cs.Post, cs.Build)
			}
			return
		}
		act, err = flyt.Run(context.Background(), node, flyt.NewSharedStore())
		if err == nil && act == "" {
			add("empty-action:post-fails-with-odd-error:"+cs.Build, "post of a %s node returned (%q, %s error); the run came back as a SUCCESS with the empty action (n=%d c=%d)", cs.Shape, cs.Post, cs.Build, cs.N, cs.C)
		}
		return
	case "wire-successor-while-running":
		// the step has no outgoing connection when it starts; its own callback (cs.Build: prep / exec / post) connects its
		// successor on the default action; it reports the empty (or the default) action: the connection exists when the
		// action is routed, so it is followed
		var hit int
		probe := &probeNode{flyt.NewBaseNode(), &hit}
		var f *flyt.Flow
		var self flyt.Node
		wire := func(ph string) {
			if ph == cs.Build {
				f.Connect(self, flyt.DefaultAction, probe)
			}
		}
		switch cs.Shape {
		case "func":
			self = flyt.NewNode().
				WithPrepFuncAny(func(ctx context.Context, s *flyt.SharedStore) (any, error) { wire("prep"); return nil, nil }).
				WithExecFuncAny(func(ctx context.Context, p any) (any, error) { wire("exec"); return nil, nil }).
				WithPostFuncAny(func(ctx context.Context, s *flyt.SharedStore, p, e any) (flyt.Action, error) { wire("post"); return flyt.Action(cs.Post), nil })
		case "batch":
			self = flyt.NewBatchNode().WithBatchConcurrency(cs.C).
				WithPrepFunc(func(ctx context.Context, s *flyt.SharedStore) ([]flyt.Result, error) {
					wire("prep")
					items := make([]flyt.Result, cs.N)
					for i := range items {
						items[i] = flyt.NewResult(i)
					}
					return items, nil
				}).
				WithExecFuncAny(func(ctx context.Context, v any) (any, error) {
					if v == any(0) {
						wire("exec")
					}
					return v, nil
				}).
				WithPostFunc(func(ctx context.Context, s *flyt.SharedStore, items, results []flyt.Result) (flyt.Action, error) {
					wire("post")
					return flyt.Action(cs.Post), nil
				})
		default:
			self = &wiringNode{BaseNode: flyt.NewBaseNode(), post: cs.Post, wire: wire}
		}
		head := flyt.NewNode()
		if cs.Routed { // the step is not the start node
			f = flyt.NewFlow(head)
			f.Connect(head, flyt.DefaultAction, self)
		} else {
			f = flyt.NewFlow(self)
		}
		if err := f.Run(context.Background(), flyt.NewSharedStore()); err != nil {
			add("flow-failed:wire-successor-while-running", "flow failed: %v", err)
			return
		}
		if hit != 1 {
			add("connection-not-followed:wired-while-running:"+cs.Shape, "a %s step without any outgoing connection connected its successor on the default action from inside its own %s callback and reported %q: the successor ran %d times, want once — when the action is routed the connection is there", cs.Shape, cs.Build, cs.Post, hit)
		}
		return
	case "exec-fails-with-odd-error":
		// every exec attempt fails with an error that wraps a context error of ANOTHER context (a node-local timeout that
		// really expired) while the run's own context is alive; no fallback: the run fails — were it to succeed, its action
		// would still not be empty
		lctx, lcancel := context.WithTimeout(context.Background(), time.Nanosecond)
		<-lctx.Done()
		lcancel()
		errs := map[string]error{"local-deadline": fmt.Errorf("call timed out: %w", lctx.Err()), "local-deadline-bare": lctx.Err(), "local-cancel": fmt.Errorf("sub-operation: %w", context.Canceled), "io.EOF": io.EOF, "typed-nil": (*scen.NilableErr)(nil), "empty-batch-error": &flyt.BatchError{}}
		ee := errs[cs.Build]
		calls := 0
		switch cs.Shape {
		case "func":
			node = flyt.NewNode().WithMaxRetries(cs.N).WithExecFuncAny(func(ctx context.Context, p any) (any, error) { calls++; return nil, ee }).
				WithPostFuncAny(func(ctx context.Context, s *flyt.SharedStore, p, e any) (flyt.Action, error) { return flyt.Action(cs.Post), nil })
		default:
			node = &oddExecNode{flyt.NewBaseNode(flyt.WithMaxRetries(cs.N)), cs.Post, ee, &calls}
		}
		var hit int
		if cs.Routed {
			var f flyt.Node = func() flyt.Node {
				fl := flyt.NewFlow(node)
				fl.Connect(node, flyt.DefaultAction, &probeNode{flyt.NewBaseNode(), &hit})
				fl.Connect(node, flyt.Action(cs.Post), &probeNode{flyt.NewBaseNode(), &hit})
				return fl
			}()
			if cs.C > 0 {
				f = flyt.NewFlow(f) // one level further down
			}
			_, err := flyt.Run(context.Background(), f, flyt.NewSharedStore())
			if err == nil && hit == 0 {
				add("default-connection-not-followed:exec-fails-with-odd-error:"+cs.Build, "every exec attempt of a %s node (budget %d) failed with a %s error while the run's context was alive; the flow run SUCCEEDED without following any connection of that node: its run ended without an error and without a usable action", cs.Shape, cs.N, cs.Build)
			}
			return
		}
		act, err := flyt.Run(context.Background(), node, flyt.NewSharedStore())
		if err == nil && act == "" {
			add("empty-action:exec-fails-with-odd-error:"+cs.Build, "every exec attempt of a %s node (budget %d, %d attempts made) failed with a %s error while the run's context was alive; the run came back as a SUCCESS with the empty action", cs.Shape, cs.N, calls, cs.Build)
		}
		return
	case "run-inside-flow-step":
		// a callback of a flow step starts another run by hand, with the context it was given: that run is a run like any
		// other — when it succeeds, its action is not empty
		var sub flyt.Node
		mkBatch := func() *flyt.BatchNodeBuilder {
			return flyt.NewBatchNode().WithBatchConcurrency(cs.C).
				WithPrepFunc(func(ctx context.Context, s *flyt.SharedStore) ([]flyt.Result, error) {
					items := make([]flyt.Result, cs.N)
					for i := range items {
						items[i] = flyt.NewResult(i)
					}
					return items, nil
				}).
				WithExecFuncAny(func(ctx context.Context, v any) (any, error) { return v, nil }).
				WithPostFunc(func(ctx context.Context, s *flyt.SharedStore, items, results []flyt.Result) (flyt.Action, error) {
					return flyt.Action(cs.Post), nil
				})
		}
		switch cs.Build {
		case "struct":
			sub = &oddPostNode{flyt.NewBaseNode(), cs.Post, nil}
		case "struct-default-post":
			sub = &struct{ *flyt.BaseNode }{flyt.NewBaseNode()}
		case "func-options":
			sub = flyt.NewNode(flyt.WithPostFuncAny(func(ctx context.Context, s *flyt.SharedStore, p, e any) (flyt.Action, error) { return flyt.Action(cs.Post), nil }))
		case "func-builder":
			sub = flyt.NewNode().WithPostFuncAny(func(ctx context.Context, s *flyt.SharedStore, p, e any) (flyt.Action, error) { return flyt.Action(cs.Post), nil })
		case "func-no-post":
			sub = flyt.NewNode().WithExecFuncAny(func(ctx context.Context, p any) (any, error) { return 1, nil })
		case "batch-builder":
			sub = mkBatch()
		case "batch-node":
			sub = mkBatch().BatchNode
		case "flow":
			sub = flyt.NewFlow(&oddPostNode{flyt.NewBaseNode(), cs.Post, nil})
		}
		store := flyt.NewSharedStore()
		var subAct flyt.Action
		var subErr error
		ran := false
		hand := func(ctx context.Context) { subAct, subErr = flyt.Run(ctx, sub, store); ran = true }
		step := flyt.NewNode().
			WithPrepFuncAny(func(ctx context.Context, s *flyt.SharedStore) (any, error) {
				if cs.Shape == "prep" {
					hand(ctx)
				}
				return nil, nil
			}).
			WithExecFuncAny(func(ctx context.Context, p any) (any, error) {
				if cs.Shape == "exec" {
					hand(ctx)
				}
				return nil, nil
			}).
			WithPostFuncAny(func(ctx context.Context, s *flyt.SharedStore, p, e any) (flyt.Action, error) {
				if cs.Shape == "post" {
					hand(ctx)
				}
				return "stepped", nil
			})
		var outer flyt.Node = flyt.NewFlow(step)
		if cs.Routed {
			outer = flyt.NewFlow(outer) // the step sits one level further down
		}
		if _, err := flyt.Run(context.Background(), outer, store); err != nil {
			add("flow-failed:run-inside-flow-step", "the surrounding flow failed: %v", err)
			return
		}
		wantSub := want
		if cs.Build == "struct-default-post" || cs.Build == "func-no-post" {
			wantSub = "default"
		}
		switch {
		case !ran:
			add("hand-started-run-missing", "the %s callback of the flow step never ran", cs.Shape)
		case subErr != nil:
			add("run-failed:run-inside-flow-step:"+cs.Build, "a %s node run by hand from the %s callback of a flow step failed: %v", cs.Build, cs.Shape, subErr)
		case subAct == "":
			add("empty-action:run-inside-flow-step:"+cs.Build, "a %s node run by hand (flyt.Run with the callback's context) from the %s callback of a flow step succeeded with the empty action (its post returned %q)", cs.Build, cs.Shape, cs.Post)
		case string(subAct) != wantSub:
			add("wrong-action:run-inside-flow-step:"+cs.Build, "a %s node run by hand from the %s callback of a flow step returned action %q, want %q", cs.Build, cs.Shape, subAct, wantSub)
		}
		return
	case "batch-no-exec":
		// a batch node with a prep and a post but no exec function (an aggregating step): still a successful run with a non-empty action
		prep := func(ctx context.Context, s *flyt.SharedStore) ([]flyt.Result, error) {
			items := make([]flyt.Result, cs.N)
			for i := range items {
				items[i] = flyt.NewResult(i)
			}
			return items, nil
		}
		bn := flyt.NewBatchNode().WithBatchConcurrency(cs.C).WithPrepFunc(prep).
			WithPostFunc(func(ctx context.Context, s *flyt.SharedStore, items, results []flyt.Result) (flyt.Action, error) {
				return flyt.Action(cs.Post), nil
			})
		node = bn
		if cs.N%2 == 1 {
			node = bn.BatchNode
		}
	case "connect-after-run":
		// the flow has run once (the node returned another action then); the connection on the reported action is made
		// afterwards, on a node that already has connections
		kind := 0
		for i, n := range scen.KindNames {
			if n == cs.Shape {
				kind = i
			}
		}
		sc := &scen.Scenario{Nodes: []scen.NodeSpec{{Kind: kind, N: 1, Visits: []scen.Visit{{FirstOK: 1, Post: cs.Post}, {FirstOK: 1, Post: cs.Post}}}}, Root: 0, Runs: 1} // the first run reports the same action, unconnected then
		n0 := scen.NewExec(sc).RootNode()
		hits := 0
		probe := &probeNode{flyt.NewBaseNode(), &hits}
		other := &probeNode{flyt.NewBaseNode(), new(int)}
		f := flyt.NewFlow(n0)
		f.Connect(n0, "elsewhere", other)
		var outer flyt.Node = f
		if cs.Build == "nested" {
			outer = flyt.NewFlow(f)
		}
		if _, err := flyt.Run(context.Background(), outer, flyt.NewSharedStore()); err != nil {
			add("flow-failed:"+cs.Kind, "first run failed: %v", err)
			return
		}
		f.Connect(n0, flyt.Action(want), probe) // after the first run
		if _, err := flyt.Run(context.Background(), outer, flyt.NewSharedStore()); err != nil {
			add("flow-failed:"+cs.Kind, "second run failed: %v", err)
			return
		}
		if hits != 1 {
			add("connection-not-followed:connect-after-run:"+cs.Shape, "the flow had run once; then (%s node, %q) was connected and the flow run again with post returning %q: the new connection was followed %d times", cs.Shape, want, cs.Post, hits)
		}
		return
	case "batch-post-by-option":
		// whatever the library does with a post function given as a constructor option (today: the batch's own default
		// post stays in charge), a successful run reports a non-empty action
		postA := func(ctx context.Context, s *flyt.SharedStore, p, e any) (flyt.Action, error) { return flyt.Action(cs.Post), nil }
		postR := func(ctx context.Context, s *flyt.SharedStore, p, e flyt.Result) (flyt.Action, error) {
			return flyt.Action(cs.Post), nil
		}
		prep := func(ctx context.Context, s *flyt.SharedStore) (any, error) {
			items := make([]any, cs.N)
			for i := range items {
				items[i] = i
			}
			return items, nil
		}
		exec := func(ctx context.Context, v any) (any, error) { return v, nil }
		opts := []any{flyt.WithPrepFuncAny(prep), flyt.WithExecFuncAny(exec), flyt.WithBatchConcurrency(cs.C)}
		if cs.PostByOption == "result" {
			opts = append(opts, flyt.WithPostFunc(postR))
		} else {
			opts = append(opts, flyt.WithPostFuncAny(postA))
		}
		bn := flyt.NewBatchNode(opts...)
		node = bn
		if cs.N%2 == 1 {
			node = bn.BatchNode
		}
		// the action is the option-post's or the default post's: both are acceptable as long as it is not empty
		act, err := flyt.Run(context.Background(), node, flyt.NewSharedStore())
		if err != nil {
			add("run-failed:"+cs.Kind, "run failed: %v", err)
		} else if act == "" {
			add("empty-action:"+cs.Kind+":"+cs.PostByOption, "run of a batch node whose post function was given as a constructor option (%s form, returning %q) succeeded with the empty action — n=%d c=%d", cs.PostByOption, cs.Post, cs.N, cs.C)
		}
		return
	case "budget-below-one":
		budget := -cs.N // 0 or -1
		switch cs.Shape {
		case "struct":
			node = &belowOneNode{BaseNode: flyt.NewBaseNode(flyt.WithMaxRetries(budget)), post: cs.Post}
		case "zero-value":
			node = &belowOneNode{BaseNode: &flyt.BaseNode{}, post: cs.Post}
		case "func":
			node = flyt.NewNode(flyt.WithMaxRetries(budget), flyt.WithPostFuncAny(func(ctx context.Context, s *flyt.SharedStore, p, e any) (flyt.Action, error) {
				return flyt.Action(cs.Post), nil
			}))
		default: // func-builder
			node = flyt.NewNode().WithPostFuncAny(func(ctx context.Context, s *flyt.SharedStore, p, e any) (flyt.Action, error) {
				return flyt.Action(cs.Post), nil
			}).WithMaxRetries(budget)
		}
		if !cs.Routed {
			if act, err := flyt.Run(context.Background(), node, flyt.NewSharedStore()); err == nil && act == "" {
				add("empty-action:budget-below-one:"+cs.Shape, "run of a %s node with retry budget %d SUCCEEDED with the empty action (post returned %q)", cs.Shape, budget, cs.Post)
			}
			return
		}
		var hit, decoyEmpty int
		f := flyt.NewFlow(node)
		f.Connect(node, "", &probeNode{flyt.NewBaseNode(), &decoyEmpty})
		f.Connect(node, flyt.Action(want), &probeNode{flyt.NewBaseNode(), &hit})
		if err := f.Run(context.Background(), flyt.NewSharedStore()); err != nil {
			return // a library that refuses such a budget with an error is within the statement
		}
		if decoyEmpty > 0 {
			add("routed-on-empty-action:budget-below-one:"+cs.Shape, "after a %s node with retry budget %d whose post returned %q the flow followed the connection on the empty action instead of %q", cs.Shape, budget, cs.Post, want)
		} else if hit != 1 {
			add("connection-not-followed:budget-below-one:"+cs.Shape, "after a %s node with retry budget %d whose post returned %q the flow run succeeded but the connection on %q was followed %d times", cs.Shape, budget, cs.Post, want, hit)
		}
		return
	case "zero-basenode-by-value":
		node = &zeroBaseNode{post: cs.Post}
	case "zero-basenode-by-pointer":
		node = &zeroBasePtrNode{BaseNode: &flyt.BaseNode{}, post: cs.Post}
	case "flow", "flow-in-flow":
		sc := &scen.Scenario{Nodes: []scen.NodeSpec{
			{Kind: scen.KBase, N: 1, Visits: []scen.Visit{{FirstOK: 1, Post: cs.Post}}},
			{Kind: scen.KFlow, N: 1, Flow: &scen.FlowSpec{Start: 0}},
			{Kind: scen.KFlow, N: 1, Flow: &scen.FlowSpec{Start: 1}},
		}, Root: 1, Runs: 1}
		if cs.NilEnd {
			for _, a := range []string{"", "default", "custom", " ", "\t\n"} {
				sc.Nodes[1].Flow.Conns = append(sc.Nodes[1].Flow.Conns, scen.Conn{From: 0, Action: a, To: -1})
			}
		}
		if cs.Kind == "flow-in-flow" {
			sc.Root = 2
		}
		node = scen.NewExec(sc).RootNode()
	default:
		kind := -1
		for i, n := range scen.KindNames {
			if n == cs.Kind {
				kind = i
			}
		}
		ns := scen.NodeSpec{Kind: kind, N: 1, HasFB: true, Visits: []scen.Visit{{FirstOK: 1, Post: cs.Post}}}
		if cs.SelfLoop {
			ns.Visits = append(ns.Visits, scen.Visit{FirstOK: 1, Post: "leave"})
		}
		if cs.Earlier != "" {
			ns.Visits = []scen.Visit{{FirstOK: 1, Post: cs.Earlier}, {FirstOK: 1, Post: cs.Post}}
		}
		if cs.ExecVal != "" {
			for vi := range ns.Visits {
				ns.Visits[vi].Payload = zoo.Index(cs.ExecVal) - 1 // attempt 1 yields zoo[Payload+1]
				if cs.ExecPath == 1 {
					ns.Visits[vi].Payload-- // attempt 2 yields it
				} else if cs.ExecPath == 2 {
					ns.Visits[vi].Payload++ // the fallback yields zoo[Payload]
				}
			}
		}
		switch cs.ExecPath {
		case 1:
			ns.N, ns.Visits[0].FirstOK = 2, 2
		case 2:
			ns.N = 2
			ns.Visits[0].FirstOK = 3
		}
		sc := &scen.Scenario{Nodes: []scen.NodeSpec{ns}, Root: 0, Runs: 1}
		if cs.CancelInExec {
			sc.Inject = scen.Inject{Kind: "cancel", At: 1} // callback #1 is the first exec attempt
			o := scen.NewExec(sc).RunOnce()
			if !o.ErrNil {
				add("cancel-in-exec-failed:"+cs.Kind, "context cancelled inside a successful exec: run returned %q", o.ErrText)
			} else if o.Action == "" {
				add("empty-action:"+cs.Kind+":cancel-in-exec", "run of a %s node succeeded with the empty action (post returned %q; the context was cancelled inside exec)", cs.Kind, cs.Post)
			} else if o.Action != want {
				add("wrong-action:"+cs.Kind+":cancel-in-exec", "run returned action %q, want %q", o.Action, want)
			}
			return
		}
		node = scen.NewExec(sc).RootNode()
		if cs.Earlier != "" && !cs.EarlierInFlow { // first use of this node object
			if a, err := flyt.Run(context.Background(), node, flyt.NewSharedStore()); err != nil || string(a) != cs.Earlier {
				add("earlier-run:"+cs.Kind, "the earlier run of the node returned (%q, %v), want %q", a, err, cs.Earlier)
			}
		}
	}
	if !cs.Routed {
		act, err := flyt.Run(runCtx, node, flyt.NewSharedStore())
		if err != nil {
			if cs.CancelInPrep && errors.Is(err, context.Canceled) {
				return // a cancelled batch may report the context's error
			}
			add("run-failed:"+cs.Kind, "run failed: %v", err)
			return
		}
		if act == "" {
			add("empty-action:"+cs.Kind+":"+cs.Shape, "run of a %s node succeeded with the empty action (post returned %q) — n=%d c=%d", cs.Kind, cs.Post, cs.N, cs.C)
		} else if string(act) != want {
			add("wrong-action:"+cs.Kind, "run of a %s node returned action %q, post returned %q (want %q)", cs.Kind, act, cs.Post, want)
		}
		return
	}
	var hit, decoyEmpty, decoyOther int
	probe := &probeNode{flyt.NewBaseNode(), &hit}
	dEmpty := &probeNode{flyt.NewBaseNode(), &decoyEmpty}
	dOther := &probeNode{flyt.NewBaseNode(), &decoyOther}
	f := flyt.NewFlow(node)
	f.Connect(node, "abort", nil) // an explicit end on ANOTHER action says nothing about the action the node reports
	if !cs.EmptyLast {
		f.Connect(node, "", dEmpty)
	}
	defer func() {}()
	for _, a := range []string{"default", "custom", "done", " ", "\t\n", "earlier-custom"} {
		if a == want {
			if cs.SelfLoop {
				f.Connect(node, flyt.Action(a), node) // back to the node itself; its second visit leaves through "leave"
				f.Connect(node, "leave", probe)
			} else {
				f.Connect(node, flyt.Action(a), probe)
			}
		} else {
			f.Connect(node, flyt.Action(a), dOther)
		}
	}
	f.Connect(node, "give-up", nil)
	if cs.EmptyLast {
		f.Connect(node, "", dEmpty) // configured last: still a pair of its own that a successful run never selects
	}
	if cs.EarlierInFlow {
		// the very same flow object has run before; the node answered with another (unconnected) action then, which ended that run
		if err := f.Run(context.Background(), flyt.NewSharedStore()); err != nil {
			add("flow-failed:"+cs.Kind, "first run of the flow failed: %v", err)
			return
		}
		hit, decoyEmpty, decoyOther = 0, 0, 0
	}
	if err := f.Run(runCtx, flyt.NewSharedStore()); err != nil {
		if cs.CancelInPrep && errors.Is(err, context.Canceled) {
			return
		}
		add("flow-failed:"+cs.Kind, "flow failed: %v", err)
		return
	}
	if hit != 1 {
		switch {
		case decoyEmpty > 0:
			add("routed-on-empty-action:"+cs.Kind+":"+cs.Shape, "after a %s node whose post returned %q the flow followed the connection on the empty action instead of %q (n=%d c=%d)", cs.Kind, cs.Post, want, cs.N, cs.C)
		case decoyOther > 0:
			add("routed-elsewhere:"+cs.Kind, "after a %s node whose post returned %q the flow followed another connection than %q", cs.Kind, cs.Post, want)
		default:
			add("connection-not-followed:"+cs.Kind+":"+cs.Shape, "after a %s node whose post returned %q the connection on %q was not followed (n=%d c=%d)", cs.Kind, cs.Post, want, cs.N, cs.C)
		}
	}
	return
}

func init() {
	register(&Engine{Prop: "C18", Doc: "a successful run never yields the empty action", Run: runC18, Replay: replayC18})
}

func runC18(c *Cfg) {
	r := c.Rep
	runSpecial(c, "C18", "default-post")
	runSpecial(c, "C18", "zero-size-pointer-nodes")
	runSpecial(c, "C18", "wildcard-lookalike-actions")
	var cases []*ActCase
	for _, post := range []string{"", "default", "custom", " ", "\t\n"} {
		for _, routed := range []bool{false, true} {
			for k := 0; k < scen.NumScriptedKinds; k++ {
				cases = append(cases, &ActCase{Family: "grid", Kind: scen.KindNames[k], Post: post, Routed: routed, FailAt: -1})
				if scen.KindHasRetry(k) {
					cases = append(cases, &ActCase{Family: "grid", Kind: scen.KindNames[k], Post: post, Routed: routed, FailAt: -1, ExecPath: 1})
				}
				if scen.KindCanFB(k) {
					cases = append(cases, &ActCase{Family: "grid", Kind: scen.KindNames[k], Post: post, Routed: routed, FailAt: -1, ExecPath: 2})
				}
				if !routed {
					cases = append(cases, &ActCase{Family: "grid-cancel-in-exec", Kind: scen.KindNames[k], Post: post, FailAt: -1, CancelInExec: true})
				}
				// the exec phase yields a value of type flyt.Action (empty / non-empty): still only post decides the action
				for _, ev := range []string{"flyt-action-empty", "flyt-action", "flyt-action-default"} {
					for ep := 0; ep < 3; ep++ {
						if (ep == 1 && !scen.KindHasRetry(k)) || (ep == 2 && !scen.KindCanFB(k)) {
							continue
						}
						cases = append(cases, &ActCase{Family: "grid-action-typed-exec-value", Kind: scen.KindNames[k], Post: post, Routed: routed, FailAt: -1, ExecPath: ep, ExecVal: ev})
					}
				}
				if routed {
					cases = append(cases, &ActCase{Family: "grid-second-run-of-the-same-flow", Kind: scen.KindNames[k], Post: post, Routed: true, FailAt: -1, Earlier: "unconnected-the-first-time", EarlierInFlow: true})
					cases = append(cases, &ActCase{Family: "grid-empty-action-connected-last", Kind: scen.KindNames[k], Post: post, Routed: true, FailAt: -1, EmptyLast: true})
					cases = append(cases, &ActCase{Family: "grid-self-loop-on-the-reported-action", Kind: scen.KindNames[k], Post: post, Routed: true, FailAt: -1, SelfLoop: true})
				}
				// the node object has been used before and returned a custom action then
				cases = append(cases, &ActCase{Family: "grid-reused-node", Kind: scen.KindNames[k], Post: post, Routed: routed, FailAt: -1, Earlier: "earlier-custom"})
			}
			cases = append(cases, &ActCase{Family: "grid", Kind: "zero-basenode-by-value", Post: post, Routed: routed, FailAt: -1}, &ActCase{Family: "grid", Kind: "zero-basenode-by-pointer", Post: post, Routed: routed, FailAt: -1})
			for _, sh := range []string{"struct", "zero-value", "func", "func-builder"} {
				for n := 0; n <= 1; n++ {
					if sh == "zero-value" && n > 0 {
						continue
					}
					cases = append(cases, &ActCase{Family: "grid-retry-budget-below-one", Kind: "budget-below-one", Post: post, Routed: routed, N: n, FailAt: -1, Shape: sh})
				}
			}
			cases = append(cases, &ActCase{Family: "grid", Kind: "flow", Post: post, Routed: routed, FailAt: -1}, &ActCase{Family: "grid", Kind: "flow-in-flow", Post: post, Routed: routed, FailAt: -1})
			cases = append(cases, &ActCase{Family: "grid-flow-ending-on-nil-connection", Kind: "flow", Post: post, Routed: routed, FailAt: -1, NilEnd: true}, &ActCase{Family: "grid-flow-ending-on-nil-connection", Kind: "flow-in-flow", Post: post, Routed: routed, FailAt: -1, NilEnd: true})
			if post == "" {
				for _, ph := range []string{"prep", "exec", "post"} {
					for _, vk := range []string{"int", "struct", "ptr", "nil-error-iface", "bool"} {
						cases = append(cases, &ActCase{Family: "grid-panicking-callback", Kind: "panicking-callback", Post: post, Routed: routed, FailAt: -1, Shape: ph, Build: vk})
					}
				}
			}
			for _, ek := range []string{"empty-batch-error", "wrapped-empty-batch-error", "nil-batch-error", "typed-nil", "io.EOF", "nil-slice-error", "empty-joined"} {
				for _, sh := range []string{"batch-builder", "batch-node", "func", "struct"} {
					for n := 0; n <= 2; n++ {
						if n > 0 && sh != "batch-builder" && sh != "batch-node" {
							continue
						}
						cases = append(cases, &ActCase{Family: "grid-post-failing-with-a-harmless-looking-error", Kind: "post-fails-with-odd-error", Post: post, Routed: routed, N: n, C: n, FailAt: -1, Shape: sh, Build: ek})
					}
				}
			}
			if post == "" || post == "default" {
				for _, sh := range []string{"struct", "func", "batch"} {
					for _, ph := range []string{"prep", "exec", "post"} {
						for n := 1; n <= 3; n += 2 {
							if sh != "batch" && n > 1 {
								continue
							}
							cases = append(cases, &ActCase{Family: "grid-successor-wired-while-the-step-runs", Kind: "wire-successor-while-running", Post: post, Routed: routed, N: n, C: n - 1, FailAt: -1, Shape: sh, Build: ph})
						}
					}
				}
			}
			for _, ek := range []string{"local-deadline", "local-deadline-bare", "local-cancel", "io.EOF", "typed-nil", "empty-batch-error"} {
				for _, sh := range []string{"func", "struct"} {
					for n := 1; n <= 3; n++ {
						cases = append(cases, &ActCase{Family: "grid-exec-failing-with-a-foreign-context-error", Kind: "exec-fails-with-odd-error", Post: post, Routed: routed, N: n, C: n % 2, FailAt: -1, Shape: sh, Build: ek})
					}
				}
			}
			for _, ph := range []string{"prep", "exec", "post"} {
				for _, b := range []string{"struct", "struct-default-post", "func-options", "func-builder", "func-no-post", "batch-builder", "batch-node", "flow"} {
					cases = append(cases, &ActCase{Family: "grid-run-started-by-hand-inside-a-flow-step", Kind: "run-inside-flow-step", Post: post, Routed: routed, N: 2, C: len(ph) % 3, FailAt: -1, Shape: ph, Build: b})
				}
			}
			for n := 1; n <= 3; n++ {
				for cc := 0; cc <= 2; cc++ {
					cases = append(cases, &ActCase{Family: "grid-batch-without-exec-function", Kind: "batch-no-exec", Post: post, Routed: routed, N: n, C: cc, FailAt: -1})
				}
			}
			if routed {
				for _, kn := range []string{"base", "fnBldAny", "plain"} {
					for _, b := range []string{"flat", "nested"} {
						cases = append(cases, &ActCase{Family: "grid-connect-after-first-run", Kind: "connect-after-run", Post: post, Routed: true, FailAt: -1, Shape: kn, Build: b})
					}
				}
			}
			if !routed {
				for n := 0; n <= 3; n++ {
					for cc := 0; cc <= 2; cc++ {
						for _, form := range []string{"result", "any"} {
							cases = append(cases, &ActCase{Family: "grid-batch-post-by-option", Kind: "batch-post-by-option", Post: post, N: n, C: cc, FailAt: -1, PostByOption: form})
						}
					}
				}
			}
			for n := 0; n <= 3; n++ {
				for cc := 0; cc <= 2; cc++ {
					for _, stop := range []bool{false, true} {
						if n == 0 {
							for _, sh := range []string{"empty-results", "nil", "empty-any", "results", "any"} {
								b := "compose"
								if sh == "empty-results" || sh == "results" {
									b = "builder"
								}
								cases = append(cases, &ActCase{Family: "grid", Kind: "batch", Post: post, Routed: routed, N: 0, C: cc, Shape: sh, Build: b, Stop: stop, FailAt: -1})
							}
							continue
						}
						cases = append(cases, &ActCase{Family: "grid-batch-cancelled-in-prep", Kind: "batch", Post: post, Routed: routed, N: n, C: cc, Shape: "results", Build: "builder", Stop: stop, FailAt: -1, CancelInPrep: true})
						cases = append(cases, &ActCase{Family: "grid-empty-action-connected-last", Kind: "batch", Post: post, Routed: routed, N: n, C: cc, Shape: "any", Build: "compose", Stop: stop, FailAt: -1, EmptyLast: true})
						for fail := -1; fail < n; fail++ {
							cases = append(cases, &ActCase{Family: "grid", Kind: "batch", Post: post, Routed: routed, N: n, C: cc, Shape: "results", Build: "builder", Stop: stop, FailAt: fail})
							cases = append(cases, &ActCase{Family: "grid", Kind: "batch", Post: post, Routed: routed, N: n, C: cc, Shape: "any", Build: "compose", Stop: stop, FailAt: fail})
						}
					}
				}
			}
		}
	}
	for i, cs := range cases {
		if !c.Mine(i) {
			continue
		}
		fs := runActCase(cs)
		r.Eval()
		r.Count("kind."+cs.Kind, 1)
		if cs.Kind == "batch" && cs.N == 0 {
			r.Count("batch.no_items", 1)
		}
		for _, f := range fs {
			r.Violate("C18", "C18:"+f.key, f.detail, cs)
		}
		b, _ := json.Marshal(cs)
		r.Nontrivial(string(b))
		if cs.Kind == "batch" && cs.N == 0 && cs.Post == "" && r.SampleWanted("grid") {
			r.Sample("grid", cs)
		}
	}
	r.Exhaustive = true
	r.Note(fmt.Sprintf("grid enumerated completely: %d cases (11 node kinds x exec path {direct, success on retry, rescued by fallback} + flow + flow-in-flow + batch sizes 0..3 x concurrency 0..2 x stop/continue x failing item position x prep shapes) x post in {\"\", default, custom} x {direct, routed}", len(cases)))
}

func replayC18(c *Cfg, spec json.RawMessage) {
	var cs ActCase
	if err := json.Unmarshal(spec, &cs); err != nil {
		fmt.Println("cannot parse:", err)
		return
	}
	for _, f := range runActCase(&cs) {
		fmt.Printf(" * finding %s: %s\n", f.key, f.detail)
		c.Rep.Violate("C18", "C18:"+f.key, f.detail, cs)
	}
}
