//go:build !race

package engines

const RaceEnabled = false
