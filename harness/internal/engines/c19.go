package engines

import (
	"context"
	"encoding/json"
	"errors"
	"fmt"
	"reflect"
	"strings"
	"sync"
	"time"

	flyt "github.com/mark3labs/flyt"
)

// Setting kinds.
const (
	sRetries = iota
	sWait
	sConc
	sMode
	sPrep
	sExec
	sPost
	sFB
	numSettings
)

var settingNames = []string{"retries", "wait", "concurrency", "errmode", "prep", "exec", "post", "fallback"}

// Setting is one configuration step: kind and which of its two values.
type Setting struct {
	Kind int `json:"kind"`
	Val  int `json:"val"`
}

// CfgCase: the sequence is applied as constructor options Seq[:Split] followed by builder calls Seq[Split:].
type CfgCase struct {
	Family string    `json:"family"`
	Batch  bool      `json:"batch"`
	Seq    []Setting `json:"seq"`
	Split  int       `json:"split"`
}

var retryVals = []int{2, 3}
var waitVals = []time.Duration{3 * time.Nanosecond, 7 * time.Nanosecond}
var concVals = []int{2, 0} // 0 = sequential is a setting like any other: it must win over an earlier positive one
var modeVals = []bool{false, true} // continueOnError

type cfgProbe struct {
	prepTag, execTag, postTag, fbTag int // which function variant ran (-1 none)
	execCalls                        int
	prepSeenByPost                   string // dynamic type of the prep value as the post function saw it
	sliceChanged                     bool
	twin                             *flyt.NodeBuilder
}

func sameOpt(a, b any) bool {
	va, vb := reflect.ValueOf(a), reflect.ValueOf(b)
	if va.Kind() != vb.Kind() || va.Type() != vb.Type() {
		return false
	}
	if va.Kind() == reflect.Func || va.Kind() == reflect.Ptr {
		return va.Pointer() == vb.Pointer()
	}
	return true
}

var errProbe = errors.New("probe exec failure")

// errProbeCtx: the same failure reported as a per-attempt timeout (wraps a context error although the run's context is alive)
var errProbeCtx = fmt.Errorf("%w: sub-request: %w", errProbe, context.DeadlineExceeded)

func probeErr(cs *CfgCase) error {
	if (len(cs.Seq)+cs.Split)%2 == 1 {
		return errProbeCtx
	}
	return errProbe
}

// buildPlain constructs a NodeBuilder along the case's route and returns it with its probe.
func buildPlain(cs *CfgCase) (*flyt.NodeBuilder, *cfgProbe) {
	pr := &cfgProbe{prepTag: -1, execTag: -1, postTag: -1, fbTag: -1}
	// two variants per function; variant 0 is Result style, variant 1 is Any style
	prepR := func(tag int) func(context.Context, *flyt.SharedStore) (flyt.Result, error) {
		return func(context.Context, *flyt.SharedStore) (flyt.Result, error) { pr.prepTag = tag; return flyt.NewResult("p"), nil }
	}
	prepA := func(tag int) func(context.Context, *flyt.SharedStore) (any, error) {
		// the Any-style prep hands back a payload whose dynamic type is flyt.Result: a value like any other, in both forms
		return func(context.Context, *flyt.SharedStore) (any, error) { pr.prepTag = tag; return flyt.NewResult("inner"), nil }
	}
	execR := func(tag int) func(context.Context, flyt.Result) (flyt.Result, error) {
		return func(context.Context, flyt.Result) (flyt.Result, error) {
			pr.execTag = tag
			pr.execCalls++
			return flyt.Result{}, probeErr(cs)
		}
	}
	execA := func(tag int) func(context.Context, any) (any, error) {
		return func(context.Context, any) (any, error) { pr.execTag = tag; pr.execCalls++; return nil, probeErr(cs) }
	}
	postR := func(tag int) func(context.Context, *flyt.SharedStore, flyt.Result, flyt.Result) (flyt.Action, error) {
		return func(_ context.Context, _ *flyt.SharedStore, pv, _ flyt.Result) (flyt.Action, error) {
			pr.postTag = tag
			pr.prepSeenByPost = fmt.Sprintf("%T", pv.Value())
			return "ok", nil
		}
	}
	postA := func(tag int) func(context.Context, *flyt.SharedStore, any, any) (flyt.Action, error) {
		return func(_ context.Context, _ *flyt.SharedStore, pv, _ any) (flyt.Action, error) {
			pr.postTag = tag
			pr.prepSeenByPost = fmt.Sprintf("%T", pv)
			return "ok", nil
		}
	}
	fb := func(tag int) func(any, error) (any, error) {
		return func(any, error) (any, error) { pr.fbTag = tag; return "rescued", nil }
	}
	var opts []any
	for si, s := range cs.Seq[:cs.Split] {
		raw := (si+len(cs.Seq))%2 == 1 // the same option as a plain func(*BaseNode): accepted by the constructors too, in its position
		switch s.Kind {
		case sRetries:
			opts = append(opts, rawOr(flyt.WithMaxRetries(retryVals[s.Val]), raw))
		case sWait:
			opts = append(opts, rawOr(flyt.WithWait(waitVals[s.Val]), raw))
		case sConc:
			opts = append(opts, rawOr(flyt.WithBatchConcurrency(concVals[s.Val]), raw))
		case sMode:
			opts = append(opts, rawOr(flyt.WithBatchErrorHandling(modeVals[s.Val]), raw))
		case sPrep:
			if s.Val == 2 {
				opts = append(opts, flyt.WithPrepFunc(nil))
			} else if s.Val == 0 {
				opts = append(opts, flyt.WithPrepFunc(prepR(0)))
			} else {
				opts = append(opts, flyt.WithPrepFuncAny(prepA(1)))
			}
		case sExec:
			if s.Val == 2 {
				opts = append(opts, flyt.WithExecFunc(nil))
			} else if s.Val == 0 {
				opts = append(opts, flyt.WithExecFunc(execR(0)))
			} else {
				opts = append(opts, flyt.WithExecFuncAny(execA(1)))
			}
		case sPost:
			if s.Val == 2 {
				opts = append(opts, flyt.WithPostFunc(nil))
			} else if s.Val == 0 {
				opts = append(opts, flyt.WithPostFunc(postR(0)))
			} else {
				opts = append(opts, flyt.WithPostFuncAny(postA(1)))
			}
		case sFB:
			if s.Val == 2 {
				opts = append(opts, flyt.WithExecFallbackFunc(nil))
			} else {
				opts = append(opts, flyt.WithExecFallbackFunc(fb(s.Val)))
			}
		}
	}
	optsBefore := append([]any(nil), opts...)
	b := flyt.NewNode(opts...)
	pr.sliceChanged = false
	for i := range opts {
		if !sameOpt(opts[i], optsBefore[i]) {
			pr.sliceChanged = true // the constructor modified the caller's option slice
		}
	}
	if cs.Split > 0 {
		pr.twin = flyt.NewNode(opts...) // a second node from the very same slice must come out configured the same way
	}
	for _, s := range cs.Seq[cs.Split:] {
		switch s.Kind {
		case sRetries:
			b = b.WithMaxRetries(retryVals[s.Val])
		case sWait:
			b = b.WithWait(waitVals[s.Val])
		case sConc:
			b = b.WithBatchConcurrency(concVals[s.Val])
		case sMode:
			b = b.WithBatchErrorHandling(modeVals[s.Val])
		case sPrep:
			if s.Val == 2 {
				b = b.WithPrepFunc(nil)
			} else if s.Val == 0 {
				b = b.WithPrepFunc(prepR(0))
			} else {
				b = b.WithPrepFuncAny(prepA(1))
			}
		case sExec:
			if s.Val == 2 {
				b = b.WithExecFunc(nil)
			} else if s.Val == 0 {
				b = b.WithExecFunc(execR(0))
			} else {
				b = b.WithExecFuncAny(execA(1))
			}
		case sPost:
			if s.Val == 2 {
				b = b.WithPostFunc(nil)
			} else if s.Val == 0 {
				b = b.WithPostFunc(postR(0))
			} else {
				b = b.WithPostFuncAny(postA(1))
			}
		case sFB:
			if s.Val == 2 {
				b = b.WithExecFallbackFunc(nil)
			} else {
				b = b.WithExecFallbackFunc(fb(s.Val))
			}
		}
	}
	return b, pr
}

// rawOr returns the option either as the named NodeOption type or as a plain func(*BaseNode).
func rawOr(o flyt.NodeOption, raw bool) any {
	if raw {
		return (func(*flyt.BaseNode))(o)
	}
	return o
}

// fold computes the last-wins value of every parameter (-1 = never set).
func fold(seq []Setting) [numSettings]int {
	var f [numSettings]int
	for i := range f {
		f[i] = -1
	}
	for _, s := range seq {
		f[s.Kind] = s.Val
		if s.Kind >= sPrep && s.Val == 2 {
			f[s.Kind] = -1 // a nil function: the phase is back at its default
		}
	}
	return f
}

type cfgGetters interface {
	GetMaxRetries() int
	GetWait() time.Duration
	GetBatchConcurrency() int
	GetBatchErrorHandling() string
}

func checkGetters(g cfgGetters, f [numSettings]int, add func(key, format string, a ...any), route string) {
	wantR, wantW, wantC, wantM := 1, time.Duration(0), 0, "continue"
	if f[sRetries] >= 0 {
		wantR = retryVals[f[sRetries]]
	}
	if f[sWait] >= 0 {
		wantW = waitVals[f[sWait]]
	}
	if f[sConc] >= 0 {
		wantC = concVals[f[sConc]]
	}
	if f[sMode] >= 0 && !modeVals[f[sMode]] {
		wantM = "stop"
	}
	if g.GetMaxRetries() != wantR {
		add("retries:"+route, "GetMaxRetries()=%d, the last setting says %d (default 1)", g.GetMaxRetries(), wantR)
	}
	if g.GetWait() != wantW {
		add("wait:"+route, "GetWait()=%v, the last setting says %v (default 0)", g.GetWait(), wantW)
	}
	if g.GetBatchConcurrency() != wantC {
		add("concurrency:"+route, "GetBatchConcurrency()=%d, the last setting says %d (default 0 = sequential)", g.GetBatchConcurrency(), wantC)
	}
	if g.GetBatchErrorHandling() != wantM {
		add("errmode:"+route, "GetBatchErrorHandling()=%q, the last setting says %q (default continue)", g.GetBatchErrorHandling(), wantM)
	}
}

func routeOf(cs *CfgCase) string {
	switch {
	case cs.Split == 0:
		return "builder"
	case cs.Split == len(cs.Seq):
		return "options"
	}
	return "mixed"
}

func runCfgPlain(cs *CfgCase) (fs []finding) {
	add := func(key, f string, a ...any) { fs = append(fs, finding{key, fmt.Sprintf(f, a...)}) }
	defer func() {
		if p := recover(); p != nil {
			fs = append(fs, finding{"panic", fmt.Sprint(p)})
		}
	}()
	b, pr := buildPlain(cs)
	f := fold(cs.Seq)
	route := routeOf(cs)
	checkGetters(b, f, add, route)
	if pr.sliceChanged {
		add("option-slice-modified:"+route, "the constructor modified the option slice the caller passed (NewNode(opts...))")
	}
	if pr.twin != nil {
		checkGetters(pr.twin, fold(cs.Seq[:cs.Split]), func(key, format string, a ...any) {
			add("second-node-from-same-options:"+key, "a second node built from the same option slice: "+format, a...)
		}, route)
	}
	// probe behaviour: exec (if configured) always fails
	act, err := flyt.Run(context.Background(), b, flyt.NewSharedStore())
	wantR := 1
	if f[sRetries] >= 0 {
		wantR = retryVals[f[sRetries]]
	}
	if pr.prepTag != f[sPrep] {
		add("prep-fn:"+route, "prep function variant %d ran, the last setting installed variant %d", pr.prepTag, f[sPrep])
	}
	if pr.execTag != f[sExec] {
		add("exec-fn:"+route, "exec function variant %d ran, the last setting installed variant %d", pr.execTag, f[sExec])
	}
	if f[sExec] >= 0 {
		if pr.execCalls != wantR {
			add("attempts:"+route, "failing exec function was attempted %d times, configured budget %d", pr.execCalls, wantR)
		}
		if pr.fbTag != f[sFB] {
			add("fallback-fn:"+route, "fallback variant %d ran, the last setting installed variant %d", pr.fbTag, f[sFB])
		}
		if f[sFB] < 0 {
			if err == nil || !errors.Is(err, errProbe) {
				add("no-fallback-outcome:"+route, "exec always fails and no fallback is configured, run returned (%q, %v)", act, err)
			}
			return
		}
	} else if pr.fbTag != -1 {
		add("fallback-without-failure:"+route, "fallback ran although exec did not fail")
	}
	if err != nil {
		add("run-error:"+route, "probe run failed: %v", err)
		return
	}
	if pr.postTag != f[sPost] {
		add("post-fn:"+route, "post function variant %d ran, the last setting installed variant %d", pr.postTag, f[sPost])
	}
	if f[sPrep] == 1 && f[sPost] >= 0 && pr.postTag == f[sPost] && pr.prepSeenByPost != "flyt.Result" {
		add("prep-value-altered:"+route, "the Any-style prep function returned a value of type flyt.Result; the post function received a prep value of type %s (the payload is handed on as it is, in the option form and in the builder form)", pr.prepSeenByPost)
	}
	wantAct := "default"
	if f[sPost] >= 0 {
		wantAct = "ok"
	}
	if string(act) != wantAct {
		add("action:"+route, "probe run returned %q, want %q", act, wantAct)
	}
	if pr.twin != nil {
		// the second node built from the very same option slice behaves as configured by that slice
		ft := fold(cs.Seq[:cs.Split])
		pr.prepTag, pr.execTag, pr.postTag, pr.fbTag, pr.execCalls = -1, -1, -1, -1, 0
		_, _ = flyt.Run(context.Background(), pr.twin, flyt.NewSharedStore())
		if pr.prepTag != ft[sPrep] || pr.execTag != ft[sExec] || (ft[sExec] >= 0 && pr.fbTag != ft[sFB]) {
			add("second-node-from-same-options:behaviour", "a second node built from the same option slice ran prep variant %d / exec variant %d / fallback variant %d; the options in the slice install %d / %d / %d", pr.prepTag, pr.execTag, pr.fbTag, ft[sPrep], ft[sExec], ft[sFB])
		}
	}
	return
}

// ---- batch builder ---------------------------------------------------------------

// For batch nodes the comparable settings are retries, wait, concurrency, error mode and the exec function
// (Result / Any style) in both forms; the fallback exists as a constructor option only; batch prep/post have
// batch signatures and exist as builder methods only.
func runCfgBatch(cs *CfgCase) (fs []finding) {
	add := func(key, f string, a ...any) { fs = append(fs, finding{key, fmt.Sprintf(f, a...)}) }
	defer func() {
		if p := recover(); p != nil {
			fs = append(fs, finding{"panic-batch", fmt.Sprint(p)})
		}
	}()
	pr := &cfgProbe{prepTag: -1, execTag: -1, postTag: -1, fbTag: -1}
	executed := map[int]int{}
	var pmu sync.Mutex // the probe must survive a node that (wrongly) runs its items concurrently
	execR := func(tag int) func(context.Context, flyt.Result) (flyt.Result, error) {
		return func(_ context.Context, it flyt.Result) (flyt.Result, error) {
			pmu.Lock()
			defer pmu.Unlock()
			pr.execTag = tag
			pr.execCalls++
			i, _ := it.Value().(int)
			executed[i]++
			if i == 0 {
				return flyt.Result{}, errProbe
			}
			return flyt.NewResult(i), nil
		}
	}
	execA := func(tag int) func(context.Context, any) (any, error) {
		return func(_ context.Context, v any) (any, error) {
			pmu.Lock()
			defer pmu.Unlock()
			pr.execTag = tag
			pr.execCalls++
			i, _ := v.(int)
			executed[i]++
			if i == 0 {
				return nil, errProbe
			}
			return i, nil
		}
	}
	fb := func(tag int) func(any, error) (any, error) {
		return func(any, error) (any, error) { pmu.Lock(); pr.fbTag = tag; pmu.Unlock(); return nil, errProbe }
	}
	prepB := func(tag int) func(context.Context, *flyt.SharedStore) ([]flyt.Result, error) {
		return func(context.Context, *flyt.SharedStore) ([]flyt.Result, error) {
			pr.prepTag = tag
			return []flyt.Result{flyt.NewResult(0), flyt.NewResult(1), flyt.NewResult(2)}, nil
		}
	}
	var slots []flyt.Result
	postB := func(tag int) func(context.Context, *flyt.SharedStore, []flyt.Result, []flyt.Result) (flyt.Action, error) {
		return func(_ context.Context, _ *flyt.SharedStore, _, res []flyt.Result) (flyt.Action, error) {
			pr.postTag = tag
			slots = res
			return "ok", nil
		}
	}
	var opts []any
	seq := cs.Seq
	for si, s := range seq[:cs.Split] {
		raw := (si+len(seq))%2 == 1
		switch s.Kind {
		case sRetries:
			opts = append(opts, rawOr(flyt.WithMaxRetries(retryVals[s.Val]), raw))
		case sWait:
			opts = append(opts, rawOr(flyt.WithWait(waitVals[s.Val]), raw))
		case sConc:
			opts = append(opts, rawOr(flyt.WithBatchConcurrency(concVals[s.Val]), raw))
		case sMode:
			opts = append(opts, rawOr(flyt.WithBatchErrorHandling(modeVals[s.Val]), raw))
		case sExec:
			if s.Val == 0 {
				opts = append(opts, flyt.WithExecFunc(execR(0)))
			} else {
				opts = append(opts, flyt.WithExecFuncAny(execA(1)))
			}
		case sFB:
			opts = append(opts, flyt.WithExecFallbackFunc(fb(s.Val)))
		}
	}
	b := flyt.NewBatchNode(opts...)
	for _, s := range seq[cs.Split:] {
		switch s.Kind {
		case sRetries:
			b = b.WithMaxRetries(retryVals[s.Val])
		case sWait:
			b = b.WithWait(waitVals[s.Val])
		case sConc:
			b = b.WithBatchConcurrency(concVals[s.Val])
		case sMode:
			b = b.WithBatchErrorHandling(modeVals[s.Val])
		case sExec:
			if s.Val == 0 {
				b = b.WithExecFunc(execR(0))
			} else {
				b = b.WithExecFuncAny(execA(1))
			}
		case sPrep:
			b = b.WithPrepFunc(prepB(s.Val))
		case sPost:
			b = b.WithPostFunc(postB(s.Val))
		}
	}
	// only settings that exist in the form they were applied in take part in the fold
	var applied []Setting
	for i, s := range seq {
		isOpt := i < cs.Split
		if (isOpt && (s.Kind == sPrep || s.Kind == sPost)) || (!isOpt && s.Kind == sFB) {
			continue
		}
		applied = append(applied, s)
	}
	f := fold(applied)
	route := "batch-" + routeOf(cs)
	checkGetters(b, f, add, route)
	if f[sPrep] < 0 {
		return // no items to probe with
	}
	if f[sConc] >= 0 {
		return // behaviour probe is sequential (unsynchronised probe state); concurrency is decided by the getters here and by C08
	}
	_, err := flyt.Run(context.Background(), b, flyt.NewSharedStore())
	if err != nil {
		add("batch-run-error:"+route, "probe batch failed: %v", err)
		return
	}
	if pr.prepTag != f[sPrep] {
		add("batch-prep-fn:"+route, "batch prep variant %d ran, last installed %d", pr.prepTag, f[sPrep])
	}
	if pr.postTag != f[sPost] {
		add("batch-post-fn:"+route, "batch post variant %d ran, last installed %d", pr.postTag, f[sPost])
	}
	if pr.execTag != f[sExec] {
		add("batch-exec-fn:"+route, "exec function variant %d ran for the batch items, the last setting installed variant %d", pr.execTag, f[sExec])
		return
	}
	if f[sExec] >= 0 {
		wantR := 1
		if f[sRetries] >= 0 {
			wantR = retryVals[f[sRetries]]
		}
		if executed[0] != wantR {
			add("batch-attempts:"+route, "failing item was attempted %d times, configured budget %d", executed[0], wantR)
		}
		if pr.fbTag != f[sFB] {
			add("batch-fallback-fn:"+route, "fallback variant %d ran for the failing item, the last setting installed variant %d", pr.fbTag, f[sFB])
		}
		stop := f[sMode] >= 0 && !modeVals[f[sMode]]
		if stop && (executed[1] != 0 || executed[2] != 0) {
			add("batch-stop-ignored:"+route, "stop-on-error configured, items after the failing one were executed (%v)", executed)
		}
		if !stop && (executed[1] != 1 || executed[2] != 1) {
			add("batch-continue-ignored:"+route, "continue-on-error configured (or default), items after the failing one were executed %v times", executed)
		}
	}
	_ = slots
	return
}

func init() {
	register(&Engine{Prop: "C19", Doc: "configuration styles are equivalent", Run: runC19, Replay: replayC19})
}

func decodeSeq(idx, length int) []Setting {
	seq := make([]Setting, length)
	for i := length - 1; i >= 0; i-- {
		sym := idx % (numSettings * 2)
		idx /= numSettings * 2
		seq[i] = Setting{Kind: sym / 2, Val: sym % 2}
	}
	return seq
}

func runC19(c *Cfg) {
	runSpecial(c, "C19", "fallback-set-twice")
	runSpecial(c, "C19", "typed-nil-exec-error")
	runSpecial(c, "C19", "negative-wait-after-positive")
	if RaceEnabled {
		// the construction routes under the race detector: the option form and the builder form of every function
		// setter install equivalent, equally goroutine-safe wrappers (concurrent batches call them from c workers)
		runBatchRace(c, "C19")
		return
	}
	r := c.Rep
	// defaults
	r.Eval()
	{
		add := func(key, f string, a ...any) {
			r.Violate("C19", "C19:default-"+key, fmt.Sprintf(f, a...), CfgCase{Family: "defaults"})
		}
		var none [numSettings]int
		for i := range none {
			none[i] = -1
		}
		checkGetters(flyt.NewBaseNode(), none, add, "NewBaseNode")
		checkGetters(flyt.NewNode(), none, add, "NewNode")
		checkGetters(flyt.NewBatchNode(), none, add, "NewBatchNode")
		checkGetters(flyt.NewFlow(flyt.NewNode()), none, add, "NewFlow")
		r.Count("defaults.constructors", 4)
	}
	maxLen := c.Pick(3, 5)
	syms := numSettings * 2
	type job struct {
		length, idx int
	}
	total := 0
	for l := 0; l <= maxLen; l++ {
		total += pow(syms, l)
	}
	parallel(c, total, func(i int) {
		l, idx := 0, i
		for idx >= pow(syms, l) {
			idx -= pow(syms, l)
			l++
		}
		seq := decodeSeq(idx, l)
		for split := 0; split <= l; split++ {
			for _, batch := range []bool{false, true} {
				cs := &CfgCase{Family: "exhaustive", Batch: batch, Seq: seq, Split: split}
				runCfg(c, cs)
			}
		}
	})
	r.Exhaustive = true
	r.Note(fmt.Sprintf("all setting sequences up to length %d over 8 setting kinds x 2 values, every option/builder split, plain and batch builders: %d sequences; the length-6 space (~1.7e7 sequences x 7 splits) is sampled, not enumerated", maxLen, total))
	// a nil function given for a phase (Result-style setter / fallback setter) puts the phase back at its default —
	// in the option form, in the builder form and in every mixture
	var nilCases []*CfgCase
	for k := sPrep; k <= sFB; k++ {
		for v := 0; v < 2; v++ {
			for other := 0; other < numSettings; other++ {
				seqs := [][]Setting{
					{{Kind: k, Val: v}, {Kind: k, Val: 2}},
					{{Kind: k, Val: 2}, {Kind: k, Val: v}},
					{{Kind: k, Val: v}, {Kind: other, Val: 1}, {Kind: k, Val: 2}},
					{{Kind: sExec, Val: v}, {Kind: k, Val: 1 - v}, {Kind: k, Val: 2}, {Kind: other, Val: 0}},
				}
				for _, sq := range seqs {
					for split := 0; split <= len(sq); split++ {
						nilCases = append(nilCases, &CfgCase{Family: "nil-function-resets-phase", Seq: sq, Split: split})
					}
				}
			}
		}
	}
	parallel(c, len(nilCases), func(i int) { runCfg(c, nilCases[i]) })
	// long option lists (13..24 settings in one constructor call / one chain): the last setting of each parameter still wins
	nl := c.Pick(3000, 200000)
	parallel(c, nl, func(i int) {
		rg := c.Rng("c19long", i)
		l := 13 + rg.IntN(12)
		seq := make([]Setting, l)
		for j := range seq {
			seq[j] = Setting{Kind: rg.IntN(numSettings), Val: rg.IntN(2)}
		}
		split := []int{l, 0, rg.IntN(l + 1)}[i%3]
		runCfg(c, &CfgCase{Family: "long-lists", Batch: i%2 == 0, Seq: seq, Split: split})
	})
	// options that READ the current configuration see the documented defaults in every constructor
	readingOpt := func(b *flyt.BaseNode) { flyt.WithMaxRetries(b.GetMaxRetries() + 2)(b) }
	for name, got := range map[string]int{
		"NewBaseNode(opt)":             flyt.NewBaseNode(flyt.NodeOption(readingOpt)).GetMaxRetries(),
		"NewBaseNode(raw func)":        flyt.NewBaseNode(readingOpt).GetMaxRetries(),
		"NewNode(opt)":                 flyt.NewNode(flyt.NodeOption(readingOpt)).GetMaxRetries(),
		"NewBatchNode(opt)":            flyt.NewBatchNode(flyt.NodeOption(readingOpt)).GetMaxRetries(),
		"opt applied to NewBaseNode()": func() int { b := flyt.NewBaseNode(); readingOpt(b); return b.GetMaxRetries() }(),
	} {
		r.Eval()
		if got != 3 {
			r.Violate("C19", "C19:option-sees-defaults", fmt.Sprintf("an option that adds 2 to the current retry budget, through %s: budget %d, want 3 (the documented default of 1 is in place when options run, whatever the constructor)", name, got), map[string]any{"family": "reading-option", "route": name})
		}
		r.Nontrivial("ro:" + name)
	}
	n := c.Pick(50000, 3000000)
	parallel(c, n, func(i int) {
		rg := c.Rng("c19", i)
		l := 5 + rg.IntN(2)
		seq := make([]Setting, l)
		for j := range seq {
			seq[j] = Setting{Kind: rg.IntN(numSettings), Val: rg.IntN(2)}
		}
		cs := &CfgCase{Family: "random", Batch: i%2 == 0, Seq: seq, Split: rg.IntN(l + 1)}
		runCfg(c, cs)
	})
	// last setting wins also AFTER the node has been run: concurrency / retries re-configured between two runs of
	// the same batch node (builder method or option applied to its BaseNode), second run gated
	defer setGCOff()() // gated cases below
	reIdx := 0
	for _, c1 := range []int{4, 1, 3} {
		for _, c2 := range []int{2, 5} {
			for _, via := range []string{"builder", "option"} {
				n := 2*c2 + 2
				it := make([]ItemScript, n)
				for j := range it {
					it[j].K = 1 + (j%3)/2*3 // every third item fails all attempts
				}
				bc := &BatchCase{Family: "c19-reconfigured-after-run", N: n, C: c2, Budget: 2, Items: it, Shape: "results", Build: "builder", ExecStyle: "result", Gated: true, Policy: "random", PSeed: uint64(reIdx),
					Prelude: &Prelude{N: c1 + 1, Items: make([]ItemScript, c1+1), Budget: 3, C: c1, ReVia: via}}
				reIdx++
				o := runBatchCase(bc)
				r.Eval()
				if o.Incon != "" {
					r.Incon(o.Incon)
					continue
				}
				r.Count("reconfigured_after_run.cases", 1)
				for _, f := range judgeBatch(bc, o) {
					if f.Prop == "C08" || f.Prop == "C02" || f.Prop == "C07" {
						r.Violate("C19", "C19:after-run:"+f.Key, fmt.Sprintf("node ran with concurrency %d / budget 3, was then re-configured to concurrency %d / budget 2 via %s and run again: %s", c1, c2, via, f.Detail), bc)
					}
				}
				r.Nontrivial(fmt.Sprintf("re %d %d %s", c1, c2, via))
			}
		}
	}
	// documented defaults in action: a concurrency is configured, the error handling is not — errors do not stop the
	// batch, however large it is (well beyond what the pool's queue can hold), through every construction route
	for _, cc := range []int{1, 2, 3} {
		for _, build := range []string{"builder", "options", "compose", "option-then-builder"} {
			for _, n := range []int{4*cc + 8, 40} {
				it := make([]ItemScript, n)
				for j := range it {
					it[j].K = 1
				}
				it[0].K, it[n/2].K = 2, 2
				bc := &BatchCase{Family: "c19-default-error-handling", N: n, C: cc, Budget: 1, Items: it, Shape: map[string]string{"compose": "any"}[build], Build: build, ExecStyle: []string{"result", "any"}[(cc+n)%2], Gated: true, Policy: "holdfail"}
				if bc.Shape == "" {
					bc.Shape = "results"
				}
				o := runBatchCase(bc)
				r.Eval()
				if o.Incon != "" {
					r.Incon(o.Incon)
					continue
				}
				r.Count("default_error_handling.cases", 1)
				for _, f := range judgeBatch(bc, o) {
					if f.Prop == "C07" || f.Prop == "C09" || f.Prop == "C06" {
						r.Violate("C19", "C19:default-error-handling:"+f.Key, fmt.Sprintf("batch node with concurrency %d configured (%s) and the error handling left at its default (continue on errors), %d items of which two fail: %s", cc, build, n, f.Detail), bc)
						break
					}
				}
				r.Nontrivial(fmt.Sprintf("deh %d %s %d", cc, build, n))
			}
		}
	}
	// the same value through different routes, and settings made after the node was wired into a flow
	var rcs []*RouteCase
	for _, v := range []int{-1, -3, -64} {
		for _, rt := range []string{"builder", "option-then-builder", "builder-twice", "plain-node-builder"} {
			rcs = append(rcs, &RouteCase{Family: "route-twins", Kind: "negative-batch-concurrency", Val: v, Route: rt})
		}
	}
	for _, v := range []int{1, 2, 4} {
		for _, rt := range []string{"start-node-then-builder", "connect-then-builder", "connect-then-option", "builder-then-connect"} {
			for _, via := range []string{"run", "flow"} {
				rcs = append(rcs, &RouteCase{Family: "route-twins", Kind: "configured-after-wiring", Val: v, Route: rt, Via: via})
			}
		}
	}
	for _, v := range []int{2, 5} {
		for _, rt := range []string{"node-plain-funcs", "node-nodeoptions", "batch-plain-funcs", "batch-nodeoptions", "base-node"} {
			rcs = append(rcs, &RouteCase{Family: "route-twins", Kind: "user-option-factory", Val: v, Route: rt})
		}
		rcs = append(rcs, &RouteCase{Family: "route-twins", Kind: "panicking-exec", Val: v - 1, Route: "option-vs-builder"})
	}
	for _, v := range []int{0, -2, 1, 5} {
		rcs = append(rcs, &RouteCase{Family: "route-twins", Kind: "fallback-option-next-to-a-budget", Val: v, Route: "all"})
	}
	for _, rt := range []string{"batch-builder", "batch-option-then-builder", "batch-builder-result-style", "node-builder", "node-option-then-builder"} {
		rcs = append(rcs, &RouteCase{Family: "route-twins", Kind: "exec-set-again-after-a-run", Val: len(rt) % 3, Route: rt})
	}
	for _, via := range []string{"run", "flow"} {
		rcs = append(rcs, &RouteCase{Family: "route-twins", Kind: "post-after-cancel-in-exec", Route: "option-vs-builder", Via: via})
	}
	for _, cc := range []int{2, 4} {
		rcs = append(rcs, &RouteCase{Family: "route-twins", Kind: "exec-form-parallelism", Val: cc, Route: "option-vs-builder"})
	}
	for i, rc := range rcs {
		if !c.Mine(i) {
			continue
		}
		for _, f := range runRouteCase(rc) {
			if strings.HasPrefix(f.key, "inconclusive:") {
				r.Incon(f.detail)
				continue
			}
			r.Violate("C19", "C19:"+f.key, f.detail, rc)
		}
		r.Eval()
		r.Count("route_twins.cases", 1)
		r.Nontrivial(fmt.Sprintf("rt %s %d %s %s", rc.Kind, rc.Val, rc.Route, rc.Via))
	}
	// last setting wins also when the node configures itself from inside its own prep (the last setting before the
	// items run): concurrency and error handling set there apply to this very run
	for _, pc := range []struct{ built, c int }{{1, 4}, {4, 0}, {0, 3}, {2, 5}} {
		for _, stop := range []bool{false, true} {
			n := 2*pc.c + 4
			it := make([]ItemScript, n)
			for j := range it {
				it[j].K = 1
			}
			it[1].K = 2 // one item fails: stop vs continue shows
			bc := &BatchCase{Family: "c19-configured-inside-prep", N: n, C: pc.c, Stop: stop, SetMode: true, Budget: 1, Items: it, Shape: "results", Build: []string{"builder", "options"}[pc.c%2], ExecStyle: "result", Gated: true, Policy: "holdfail", PrepSets: &PrepSets{BuiltC: pc.built}}
			o := runBatchCase(bc)
			r.Eval()
			if o.Incon != "" {
				r.Incon(o.Incon)
				continue
			}
			r.Count("configured_inside_prep.cases", 1)
			for _, f := range judgeBatch(bc, o) {
				if f.Prop == "C08" || f.Prop == "C09" || f.Prop == "C07" {
					r.Violate("C19", "C19:set-inside-prep:"+f.Key, fmt.Sprintf("node built with concurrency %d and stop=%v; its prep sets concurrency %d and stop=%v through the builder methods (the last settings before the items run): %s", pc.built, !stop, pc.c, stop, f.Detail), bc)
					break
				}
			}
			r.Nontrivial(fmt.Sprintf("cip %d %d %v", pc.built, pc.c, stop))
		}
	}
	// the prep given last wins also when it yields nothing: an earlier (option-form) prep of a batch node stays replaced
	for _, items := range []int{0, 1, 2} {
		for _, form := range []string{"option-any", "option-result"} {
			for runs := 1; runs <= 2; runs++ {
				earlier, execs := 0, 0
				var opt any
				if form == "option-any" {
					opt = flyt.WithPrepFuncAny(func(ctx context.Context, s *flyt.SharedStore) (any, error) {
						earlier++
						return []any{"template-item", "template-item-2"}, nil
					})
				} else {
					opt = flyt.WithPrepFunc(func(ctx context.Context, s *flyt.SharedStore) (flyt.Result, error) {
						earlier++
						return flyt.NewResult([]any{"template-item"}), nil
					})
				}
				bn := flyt.NewBatchNode(opt, flyt.WithExecFuncAny(func(ctx context.Context, v any) (any, error) { execs++; return v, nil })).
					WithPrepFunc(func(ctx context.Context, s *flyt.SharedStore) ([]flyt.Result, error) {
						out := make([]flyt.Result, items)
						for i := range out {
							out[i] = flyt.NewResult(i)
						}
						return out, nil
					})
				for k := 0; k < runs; k++ {
					_, _ = flyt.Run(context.Background(), bn, flyt.NewSharedStore())
				}
				r.Eval()
				r.Count("batch_prep_last_wins.cases", 1)
				if earlier != 0 || execs != items*runs {
					r.Violate("C19", "C19:batch-prep-last-setting", fmt.Sprintf("NewBatchNode(<%s prep>, exec).WithPrepFunc(<prep yielding %d items>), run %d time(s): the earlier prep ran %d times and exec ran %d times (want 0 and %d) — the last prep setting wins, also when it yields no items", form, items, runs, earlier, execs, items*runs), map[string]any{"family": "batch-prep-last-setting", "form": form, "items": items, "runs": runs})
				}
				r.Nontrivial(fmt.Sprintf("bpl %s %d %d", form, items, runs))
			}
		}
	}
	// pool size <= 0 means one worker (gated)
	for _, w := range []int{0, -1, -7} {
		pc := &PoolCase{Family: "c19-pool-default", Workers: w, Tasks: 5, Submitters: 1, Rounds: 1, Gated: true, Policy: "first"}
		o := runPoolCase(pc)
		r.Eval()
		if o.Incon != "" {
			r.Incon(o.Incon)
			continue
		}
		r.Count("pool.default_size_cases", 1)
		if o.HighWater != 1 || len(o.OverLimit) > 0 || o.Deadlock || len(o.UnderUse) > 0 || o.PoolGs != 1 {
			r.Violate("C19", "C19:pool-size-nonpositive", fmt.Sprintf("NewWorkerPool(%d): %d tasks in flight at once, %d worker goroutines created; a size <= 0 means exactly one worker", w, o.HighWater, o.PoolGs), pc)
		}
	}
	// ... and behaves like NewWorkerPool(1) in every other respect: what a one-worker pool copes with (a task that
	// submits follow-up tasks to its own pool, submissions while the worker is busy), a pool of size <= 0 copes with
	for _, w := range []int{0, -1, -7} {
		for _, kids := range []int{1, 2} {
			for _, pre := range []int{0, 3} {
				pc := &PoolCase{Family: "c19-pool-default-like-one-worker", Workers: w, Tasks: 1, Submitters: 1, Rounds: 2, Gated: true, Policy: "first", NestedSubmit: true, NestedKids: kids, PreTasks: pre}
				if f := poolTwinFinding(pc); f != "" {
					if strings.HasPrefix(f, "inconclusive:") {
						r.Incon(f)
						continue
					}
					r.Violate("C19", "C19:pool-size-nonpositive-unlike-one-worker", f, pc)
				}
				r.Eval()
				r.Count("pool.default_size_twin_cases", 1)
			}
		}
	}
}

// poolTwinFinding runs the case with its size <= 0 and with size 1 and reports a difference in what was observed.
func poolTwinFinding(pc *PoolCase) string {
	one := *pc
	one.Workers = 1
	o1, o0 := runPoolCase(&one), runPoolCase(pc)
	if o1.Incon != "" || o0.Incon != "" {
		return "inconclusive: " + o1.Incon + o0.Incon
	}
	bad := func(o *PoolObs) bool {
		return o.Deadlock || o.Panic != "" || len(o.NotOnce) > 0 || len(o.WaitEarly) > 0 || len(o.Invisible) > 0 || len(o.Leaked) > 0
	}
	if bad(o1) {
		return "" // the one-worker pool itself does not cope with this case: nothing to compare (C12's business)
	}
	if bad(o0) || o0.TasksRun != o1.TasksRun || o0.HighWater != o1.HighWater {
		return fmt.Sprintf("NewWorkerPool(%d) does not behave like NewWorkerPool(1): with a task that submits %d follow-up task(s) to its own pool the one-worker pool ran %d tasks (deadlock=%v), the pool of size %d ran %d (deadlock=%v, not-once=%v, wait-early=%v)", pc.Workers, maxInt(1, pc.NestedKids), o1.TasksRun, o1.Deadlock, pc.Workers, o0.TasksRun, o0.Deadlock, o0.NotOnce, o0.WaitEarly)
	}
	return ""
}

// canaries: nodes created before any case configures anything; configuring OTHER nodes must never change them
var (
	canaryNode  = flyt.NewNode()
	canaryBatch = flyt.NewBatchNode()
	canaryBase  = flyt.NewBaseNode()
)

func defaultsIntact() (fs []finding) {
	add := func(key, f string, a ...any) { fs = append(fs, finding{"other-node-" + key, fmt.Sprintf(f, a...)}) }
	var none [numSettings]int
	for i := range none {
		none[i] = -1
	}
	checkGetters(canaryNode, none, add, "existing-NewNode")
	checkGetters(canaryBatch, none, add, "existing-NewBatchNode")
	checkGetters(canaryBase, none, add, "existing-NewBaseNode")
	checkGetters(flyt.NewNode(), none, add, "fresh-NewNode")
	checkGetters(flyt.NewBatchNode(), none, add, "fresh-NewBatchNode")
	checkGetters(flyt.NewBaseNode(), none, add, "fresh-NewBaseNode")
	return
}

func runCfg(c *Cfg, cs *CfgCase) {
	r := c.Rep
	defer func() {
		// configuring one node must leave every other node — created earlier or later — at its documented defaults
		for _, f := range defaultsIntact() {
			r.Violate("C19", "C19:"+f.key, "after configuring a different node: "+f.detail, cs)
		}
	}()
	var fs []finding
	if cs.Batch {
		fs = runCfgBatch(cs)
		r.Count("batch_builder.cases", 1)
	} else {
		fs = runCfgPlain(cs)
		r.Count("node_builder.cases", 1)
	}
	r.Eval()
	for _, f := range fs {
		r.Violate("C19", "C19:"+f.key, f.detail, cs)
	}
	if len(cs.Seq) >= 2 {
		b, _ := json.Marshal(cs)
		r.Nontrivial(string(b))
	}
	if len(cs.Seq) == 3 && cs.Split == 1 && cs.Seq[0].Kind == cs.Seq[2].Kind && cs.Seq[0].Val != cs.Seq[2].Val && r.SampleWanted("exhaustive") {
		r.Sample("exhaustive", map[string]any{"case": cs, "names": settingNames})
	}
}

func replayC19(c *Cfg, spec json.RawMessage) {
	var rc RouteCase
	if json.Unmarshal(spec, &rc) == nil && rc.Family == "route-twins" {
		for _, f := range runRouteCase(&rc) {
			fmt.Printf(" * finding %s: %s\n", f.key, f.detail)
			c.Rep.Violate("C19", "C19:"+f.key, f.detail, rc)
		}
		return
	}
	if isBatchCase(spec) {
		var bc BatchCase
		_ = json.Unmarshal(spec, &bc)
		o := runBatchCase(&bc)
		b, _ := json.MarshalIndent(o, "", " ")
		fmt.Println(string(b))
		for _, f := range judgeBatch(&bc, o) {
			if f.Prop == "C08" || f.Prop == "C02" || f.Prop == "C07" {
				fmt.Printf(" * finding %s: %s\n", f.Key, f.Detail)
				c.Rep.Violate("C19", "C19:after-run:"+f.Key, f.Detail, bc)
			}
		}
		return
	}
	if isPoolCase(spec) {
		var pc PoolCase
		_ = json.Unmarshal(spec, &pc)
		o := runPoolCase(&pc)
		b, _ := json.MarshalIndent(o, "", " ")
		fmt.Println(string(b))
		if pc.Family == "c19-pool-default-like-one-worker" {
			if f := poolTwinFinding(&pc); f != "" && !strings.HasPrefix(f, "inconclusive:") {
				fmt.Println(" * finding:", f)
				c.Rep.Violate("C19", "C19:pool-size-nonpositive-unlike-one-worker", f, pc)
			}
			return
		}
		if o.HighWater != 1 || o.PoolGs != 1 {
			c.Rep.Violate("C19", "C19:pool-size-nonpositive", "pool size <= 0 is not one worker", pc)
		}
		return
	}
	var cs CfgCase
	if err := json.Unmarshal(spec, &cs); err != nil {
		fmt.Println("cannot parse:", err)
		return
	}
	if cs.Family == "defaults" {
		fmt.Println("defaults are re-checked by the engine run itself")
		return
	}
	var fs []finding
	if cs.Batch {
		fs = runCfgBatch(&cs)
	} else {
		fs = runCfgPlain(&cs)
	}
	for i, s := range cs.Seq {
		form := "builder"
		if i < cs.Split {
			form = "option"
		}
		fmt.Printf("  %d. %s = value %d via %s\n", i, settingNames[s.Kind], s.Val, form)
	}
	for _, f := range fs {
		fmt.Printf(" * finding %s: %s\n", f.key, f.detail)
		c.Rep.Violate("C19", "C19:"+f.key, f.detail, cs)
	}
}
