#!/usr/bin/env python3
"""Writes section 11 of DESIGN.md (catch matrix) from seeded/*/meta.json and selftest/own_results.json."""
import json, os, glob, re, collections
ROOT = os.path.dirname(os.path.dirname(os.path.abspath(__file__)))
metas = [json.load(open(f)) for f in sorted(glob.glob(os.path.join(ROOT, "seeded", "*", "meta.json")))]
metas.sort(key=lambda m: (int(m["id"].split("-")[0][1:]), m["id"]))
own = json.load(open(os.path.join(ROOT, "selftest", "own_results.json")))
notkept = json.load(open(os.path.join(ROOT, "selftest", "not_kept.json"))) if os.path.exists(os.path.join(ROOT, "selftest", "not_kept.json")) else []
out = []
out.append("## 11. Which checks catch which changes (catch matrix)\n")
nall = sum(1 for m in metas if "--all" in m["checks_run"])
out.append(f"""Every row below was produced by `selftest/mutate.py` (through `selftest/final_matrix.sh` / `selftest/run_agents.py`): each change
applied to a scratch copy of `/repo`'s root package, the pinned suite confirmed green, the demonstration confirmed to
fail with the change and to pass without it, then the quick checks run against the copy (`VERIF_SEED=1`). A full matrix
of {len(metas)} kept changes x 20 checks does not fit the time budget, so: **all 20 checks** for the own mutants and for sub-agent
rounds 9 and 10; the checks of the target property's family (flow C01–C05, C10, C18, C19 / batch and pool C06–C09, C11,
C12, C17, C20 / store C13–C16) for the other rounds; and every change that no check of its family caught in that run
(or whose run was disturbed by a rebuild of the harness) run again on its own against all 20 checks on the final
state of the harness ({nall} changes have an all-20 record in total). Rounds 1–10 were run on the state of the checks
after round 10 (`selftest/results/`); rounds 11–18 were produced and closed while or after that run was under way and
were run on the state of the checks at the end of their own round. Nothing was removed from a check afterwards; the
quick regressions on the real tree after every round (seeds 1–3, seeds 1–5 at the end) and the thorough runs of §12
are the evidence that nothing fires there. "target" is the property the change was written against; a check other
than the target that fires is a sibling detection (the attribution rule of §10 makes checks report only findings that
contradict their own statement, so siblings fire only when the change really breaks their property too). Full
per-change records: `seeded/<id>/meta.json` (`detected_by`, `first_finding`, `needs_to_manifest`, `checks_run`).
""")
rounds = collections.OrderedDict()
for m in metas:
    rnd = m["id"].split("-")[0]
    rounds.setdefault(rnd, []).append(m)
out.append("### Sub-agent changes (given only the property text and a scratch worktree)\n")
out.append("| round | changes kept | caught by target check | caught only by a sibling check | not caught by any |\n|---|---|---|---|---|")
tot = [0, 0, 0, 0]
sib_rows, miss_rows = [], []
for rnd, ms in rounds.items():
    t = sum(1 for m in ms if m["breaks_property"] in m["detected_by"])
    s = [m for m in ms if m["breaks_property"] not in m["detected_by"] and m["detected_by"]]
    n = [m for m in ms if not m["detected_by"]]
    out.append(f"| {rnd} | {len(ms)} | {t} | {len(s)} | {len(n)} |")
    tot[0] += len(ms); tot[1] += t; tot[2] += len(s); tot[3] += len(n)
    sib_rows += s; miss_rows += n
out.append(f"| **all** | **{tot[0]}** | **{tot[1]}** | **{tot[2]}** | **{tot[3]}** |\n")
if sib_rows:
    out.append("Caught only through a sibling property's check (the target check stays silent because the observable effect\ncontradicts the sibling's statement, not the target's — or needs machinery only the sibling has, e.g. concurrency for a store change):\n")
    for m in sib_rows:
        out.append(f"* `{m['id']}` (target {m['breaks_property']}) — fired: {', '.join(m['detected_by'])}. {m['needs_to_manifest'][:260]}")
    out.append("")
if miss_rows:
    out.append("Not caught by any check in the matrix run:\n")
    for m in miss_rows:
        out.append(f"* `{m['id']}` (target {m['breaks_property']}) — {m['needs_to_manifest'][:300]}")
    out.append("")
if notkept:
    out.append("Changes produced by sub-agents that were **not kept** as seeded changes, because on inspection they do not contradict the\nproperty's statement or lie outside its quantifier (no check is loosened for them; none of them is listed as a finding):\n")
    for k in notkept:
        out.append(f"* `{k['id']}` — {k['why']}")
    out.append("")
# per property table
out.append("### Per property: checks that fired on the changes written against it\n")
out.append("| property | changes | target fired | siblings that also fired (count) |\n|---|---|---|---|")
byp = collections.OrderedDict()
for m in metas:
    byp.setdefault(m["breaks_property"], []).append(m)
for p in sorted(byp):
    ms = byp[p]
    t = sum(1 for m in ms if p in m["detected_by"])
    sib = collections.Counter(x for m in ms for x in m["detected_by"] if x != p)
    out.append(f"| {p} | {len(ms)} | {t} | {', '.join(f'{k} ({v})' for k, v in sorted(sib.items())) or '—'} |")
out.append("")
out.append("### Own replacement mutants (`selftest/own/mutants.py`)\n")
out.append("| id | target | fired | note |\n|---|---|---|---|")
for r in own:
    mark = ", ".join(r["fired"]) if r["fired"] else "**none**"
    out.append(f"| {r['id']} | {r['prop']} | {mark} | {r.get('note','')[:110]} |")
out.append("\nMutants with `fired = none` are the four controls described in §9 (`m02d`, `m05a`, `m11a`, `m13d`): they do not change observable behaviour and must stay silent.\n")
text = "\n".join(out)
p = os.path.join(ROOT, "DESIGN.md")
s = open(p).read()
b, e = "<!-- BEGIN CATCH MATRIX -->", "<!-- END CATCH MATRIX -->"
if b in s:
    s = s[:s.index(b) + len(b)] + "\n" + text + "\n" + s[s.index(e):]
else:
    s = s.rstrip("\n") + "\n\n---------------------------------------------------------------------------\n\n" + b + "\n" + text + "\n" + e + "\n"
open(p, "w").write(s)
print("section 11 written:", len(metas), "seeded changes,", len(own), "own mutants")
