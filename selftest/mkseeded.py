#!/usr/bin/env python3
"""Builds /verif/seeded/<id>/ (patch.diff, demo_test.go, NOTES.md excerpt, meta.json) from validated sub-agent mutants."""
import json, os, shutil, sys, re
ROOT = os.path.dirname(os.path.dirname(os.path.abspath(__file__)))
src, rnd, results = sys.argv[1], sys.argv[2], json.load(open(sys.argv[3]))
needs = json.load(open(sys.argv[4])) if len(sys.argv) > 4 else {}
_nk = os.path.join(ROOT, "selftest", "not_kept.json")
not_kept = {k["id"] for k in json.load(open(_nk))} if os.path.exists(_nk) else set()
for r in results:
    name = r["name"]            # C01-A
    prop, ab = name.split("-")
    if f"{rnd}-{name}" in not_kept:
        print("skip (not kept, see selftest/not_kept.json):", name)
        continue
    if not (r.get("demo_passes_without_patch") and r.get("suite_passes_with_patch") and r.get("demo_fails_with_patch")):
        print("skip (not confirmed):", name)
        continue
    d = os.path.join(ROOT, "seeded", f"{rnd}-{name}")
    os.makedirs(d, exist_ok=True)
    shutil.copy(os.path.join(src, prop, ab + ".diff"), os.path.join(d, "patch.diff"))
    shutil.copy(os.path.join(src, prop, f"demo_{ab.lower()}_test.go"), os.path.join(d, "demo_test.go"))
    notes = os.path.join(src, prop, "NOTES.md")
    if os.path.exists(notes):
        shutil.copy(notes, os.path.join(d, "NOTES.agent.md"))
    meta = dict(id=f"{rnd}-{name}", breaks_property=prop, origin=f"sub-agent, {rnd}: given only the property text and a scratch worktree of /repo",
                needs_to_manifest=needs.get(name, "see NOTES.agent.md (section for change %s)" % ab),
                confirmed=dict(pinned_suite_passes_with_patch=True, demo_fails_with_patch=True, demo_passes_without_patch=True,
                               how="selftest/mutate.py <patch> --demo <demo>: scratch copy of /repo's root package, `go test -count=1 .` with the patch, demo copied in as zz_demo_test.go and run with and without the patch"),
                checks_run=(f"./selftest/mutate.py seeded/{rnd}-{name}/patch.diff --demo seeded/{rnd}-{name}/demo_test.go " +
                            ("--all  (all 20 checks" if len(r.get("ran") or []) in (0, 20) else "--props " + ",".join(r["ran"]) + f"  (the {len(r['ran'])} checks of the target property's family") +
                            ", quick tier, VERIF_SEED=1; run for every change by selftest/final_matrix.sh)"),
                other_outcomes=r.get("other", []),
                detected_by=r.get("fired", []), first_finding=(r.get("keys") or [""])[0][:300])
    json.dump(meta, open(os.path.join(d, "meta.json"), "w"), indent=1)
    print("seeded", d)
