#!/usr/bin/env python3
"""selftest/mutate.py — run checks against a breaking change on a scratch copy of /repo.

  mutate.py <patch.diff> [--props C01,C02 | --all] [--tier quick] [--demo demo_test.go] [--seed N]

Copies the root package of /repo to a scratch directory outside /repo and /verif, applies the patch, verifies that
the result compiles and passes the pinned suite, optionally verifies that the demonstration test fails with the
patch (and passes without), then runs the selected checks with VERIF_FLYT_SRC pointing at the copy (evidence and
replays go to a scratch directory). Prints one line per check: FIRED / silent / other. The copy is removed.
"""
import argparse, json, os, shutil, subprocess, sys, tempfile

ROOT = os.path.dirname(os.path.dirname(os.path.abspath(__file__)))
ENV = dict(os.environ, GOFLAGS="-mod=mod", GOPROXY="off", GOSUMDB="off", GOTOOLCHAIN="local")
ALL = ["C%02d" % i for i in range(1, 21)]


def sh(cmd, cwd, env=ENV, timeout=1800):
    p = subprocess.run(cmd, cwd=cwd, env=env, stdout=subprocess.PIPE, stderr=subprocess.STDOUT, text=True, timeout=timeout)
    return p.returncode, p.stdout


def copy_repo(dst):
    os.makedirs(dst)
    for f in os.listdir("/repo"):
        if f.endswith(".go") or f in ("go.mod", "go.sum"):
            shutil.copy(os.path.join("/repo", f), dst)


def main():
    ap = argparse.ArgumentParser()
    ap.add_argument("patch", nargs="?", default="")
    ap.add_argument("--own", default="", help="id of a replacement mutant in selftest/own/mutants.py")
    ap.add_argument("--props", default="")
    ap.add_argument("--all", action="store_true")
    ap.add_argument("--tier", default="quick")
    ap.add_argument("--demo", default="")
    ap.add_argument("--demo-run", default="")
    ap.add_argument("--seed", default="1")
    ap.add_argument("--json", default="")
    a = ap.parse_args()
    props = ALL if a.all or not a.props else a.props.split(",")
    tmp = tempfile.mkdtemp(prefix="flyt-mut-")
    res = dict(patch=a.patch, props={})
    try:
        src = os.path.join(tmp, "flyt")
        copy_repo(src)
        if a.demo:
            clean = os.path.join(tmp, "clean", "flyt")
            copy_repo(clean)
            shutil.copy(a.demo, os.path.join(clean, "zz_demo_test.go"))
            rc, out = sh(["go", "test", "-count=1", "-run", a.demo_run or ".", "."], clean)
            res["demo_passes_without_patch"] = rc == 0
            if rc != 0:
                print("demo FAILS on the unmodified tree:\n", out[-2000:])
        if a.own:
            sys.path.insert(0, os.path.join(ROOT, "selftest", "own"))
            import mutants
            mm = [x for x in mutants.M if x["id"] == a.own][0]
            if mm["file"] == "REVERT":
                a.patch = os.path.join(ROOT, "selftest", "own", "revert-%s.diff" % mm["old"])
            else:
                fp = os.path.join(src, mm["file"])
                txt = open(fp).read()
                if txt.count(mm["old"]) != 1:
                    print("mutant %s: old text occurs %d times" % (a.own, txt.count(mm["old"])))
                    sys.exit(3)
                open(fp, "w").write(txt.replace(mm["old"], mm["new"]))
        if a.patch:
            rc, out = sh(["patch", "-p1", "-i", os.path.abspath(a.patch)], src)
            if rc != 0:
                print("patch does not apply:", out[-2000:])
                sys.exit(3)
        rc, out = sh(["gofmt", "-l", "."], src)
        rc, out = sh(["go", "test", "-count=1", "."], src)
        res["suite_passes_with_patch"] = rc == 0
        print("pinned suite with patch:", "passes" if rc == 0 else "FAILS\n" + out[-3000:])
        if a.demo:
            shutil.copy(a.demo, os.path.join(src, "zz_demo_test.go"))
            rc, out = sh(["go", "test", "-count=1", "-run", a.demo_run or ".", "."], src)
            os.remove(os.path.join(src, "zz_demo_test.go"))
            res["demo_fails_with_patch"] = rc != 0
            print("demo with patch:", "fails (as it should)" if rc != 0 else "PASSES (demo does not demonstrate)")
        ev = os.path.join(tmp, "evidence")
        rp = os.path.join(tmp, "replays")
        env = dict(os.environ, VERIF_FLYT_SRC=src, VERIF_EVIDENCE_DIR=ev, VERIF_REPLAY_DIR=rp, VERIF_SEED=a.seed)
        for p in props:
            rc, out = sh([os.path.join(ROOT, "vcheck"), p, a.tier], ROOT, env=env, timeout=7200)
            keys = [l.strip() for l in out.splitlines() if l.startswith("  C")]
            status = {0: "silent", 1: "FIRED", 2: "inconclusive", 3: "broken"}.get(rc, "rc=%d" % rc)
            res["props"][p] = dict(status=status, keys=[k[:200] for k in keys[:6]])
            print(f"{p}: {status}" + ("".join("\n      " + k[:260] for k in keys[:4]) if keys else ""))
            if rc in (2, 3):
                print("     ", "\n      ".join(out.splitlines()[-6:]))
    finally:
        shutil.rmtree(tmp, ignore_errors=True)
    if a.json:
        json.dump(res, open(a.json, "w"), indent=1)


if __name__ == "__main__":
    main()
