# Own breaking changes (DESIGN.md section 9). Each: id, property it is aimed at, file, old text (must occur exactly
# once), new text. Applied to a scratch copy only (selftest/mutate.py --own ID).
M = []


def m(id, prop, file, old, new, note=""):
    M.append(dict(id=id, prop=prop, file=file, old=old, new=new, note=note))


# ---------------------------------------------------------------- C01
m("m01a-prep-twice", "C01", "flyt.go",
  "	// Check context again\n	if err := ctx.Err(); err != nil {\n		return \"\", fmt.Errorf(\"run: context cancelled after prep: %w\", err)\n	}\n",
  "	// Check context again\n	if err := ctx.Err(); err != nil {\n		return \"\", fmt.Errorf(\"run: context cancelled after prep: %w\", err)\n	}\n	if _, ok := node.(RetryableNode); !ok {\n		prepResult, _ = node.Prep(ctx, shared)\n	}\n",
  "prep called a second time for nodes without retry settings")
m("m01b-post-gets-fallback-value-as-prep", "C01", "flyt.go",
  "			execResult, execErr = fallback.ExecFallback(prepResult, execErr)\n		}",
  "			execResult, execErr = fallback.ExecFallback(prepResult, execErr)\n			if execErr == nil {\n				prepResult = execResult\n			}\n		}",
  "after a rescuing fallback post receives the fallback's value in place of the prep value")
m("m01c-post-after-failed-fallback", "C01", "flyt.go",
  "		if execErr != nil {\n			return \"\", fmt.Errorf(\"run: exec failed after %d retries: %w\", maxRetries, execErr)\n		}\n	}\n\n	// Post phase\n",
  "		if execErr != nil {\n			if _, perr := node.Post(ctx, shared, prepResult, nil); perr != nil {\n				return \"\", perr\n			}\n			return \"\", fmt.Errorf(\"run: exec failed after %d retries: %w\", maxRetries, execErr)\n		}\n	}\n\n	// Post phase\n",
  "post is run (for cleanup) although the exec phase failed")
# ---------------------------------------------------------------- C02
m("m02a-one-extra-attempt", "C02", "flyt.go",
  "	for attempt := 0; attempt < maxRetries; attempt++ {\n		// Check context before retry",
  "	for attempt := 0; attempt <= maxRetries && (attempt < maxRetries || maxRetries > 2); attempt++ {\n		// Check context before retry",
  "one attempt too many, only for budgets > 2")
m("m02b-fallback-gets-first-error", "C02", "flyt.go",
  "		execResult, execErr = node.Exec(ctx, prepResult)\n		if execErr == nil {\n			break\n		}\n	}\n\n	// Handle exec failure\n	if execErr != nil {",
  "		var e error\n		execResult, e = node.Exec(ctx, prepResult)\n		if e == nil {\n			execErr = nil\n			break\n		}\n		if execErr == nil {\n			execErr = e\n		}\n	}\n\n	// Handle exec failure\n	if execErr != nil {",
  "the first attempt's error is kept instead of the last one's")
m("m02c-batch-extra-attempt", "C02", "batch.go",
  "	for attempt := 0; attempt < maxRetries; attempt++ {\n		if ctx.Err() != nil {\n			return nil, fmt.Errorf(\"context cancelled during retry: %w\", ctx.Err())",
  "	for attempt := 0; attempt < maxRetries+maxRetries/4; attempt++ {\n		if ctx.Err() != nil {\n			return nil, fmt.Errorf(\"context cancelled during retry: %w\", ctx.Err())",
  "batch copy of the retry loop grants 25% more attempts (budgets >= 4)")
m("m02d-fallback-after-late-success", "C02", "batch.go",
  "	if execErr != nil {\n		if fallback, ok := node.(FallbackNode); ok {\n			return fallback.ExecFallback(item, execErr)\n		}\n		return nil, execErr\n	}\n\n	return execResult, nil",
  "	if execErr != nil || (maxRetries > 1 && execResult == nil) {\n		if fallback, ok := node.(FallbackNode); ok && execErr != nil {\n			return fallback.ExecFallback(item, execErr)\n		}\n		return nil, execErr\n	}\n\n	return execResult, nil",
  "harmless-looking rewrite (equivalent) — control: must stay silent")
# ---------------------------------------------------------------- C03
m("m03a-connect-keeps-first", "C03", "flyt.go",
  "	f.transitions[from][action] = to\n	return f",
  "	if _, exists := f.transitions[from][action]; !exists {\n		f.transitions[from][action] = to\n	}\n	return f")
m("m03b-nil-target-falls-to-default", "C03", "flyt.go",
  "			if next, ok := transitions[action]; ok {\n				current = next\n			} else {",
  "			if next, ok := transitions[action]; ok {\n				if next == nil {\n					next = transitions[DefaultAction]\n				}\n				current = next\n			} else {")
m("m03c-cursor-kept-between-runs", "C03", "flyt.go",
  "	current := f.start\n	var lastAction Action\n",
  "	current := f.start\n	var lastAction Action\n	defer func() {\n		if current != nil && f.transitions[current] == nil {\n			f.start = current\n		}\n	}()\n",
  "a flow that ended at a node without outgoing connections starts there next time")
# ---------------------------------------------------------------- C04
m("m04a-post-error-not-wrapped", "C04", "flyt.go",
  "	action, err := node.Post(ctx, shared, prepResult, execResult)\n	if err != nil {\n		return \"\", fmt.Errorf(\"run: post failed: %w\", err)\n	}\n\n	if action == \"\" {\n		action = DefaultAction\n	}\n\n	return action, nil\n}\n\n// Flow represents",
  "	action, err := node.Post(ctx, shared, prepResult, execResult)\n	if err != nil {\n		return \"\", fmt.Errorf(\"run: post failed: %v\", err)\n	}\n\n	if action == \"\" {\n		action = DefaultAction\n	}\n\n	return action, nil\n}\n\n// Flow represents")
m("m04b-leaf-error-swallowed", "C04", "flyt.go",
  "		action, err := Run(ctx, current, shared)\n		if err != nil {\n			return nil, err\n		}\n",
  "		action, err := Run(ctx, current, shared)\n		if err != nil {\n			if _, inner := current.(*Flow); inner && f.transitions[current] == nil {\n				return lastAction, nil\n			}\n			return nil, err\n		}\n",
  "an error from an embedded flow that has no outgoing connection is dropped")
m("m04c-fallback-error-replaced", "C04", "flyt.go",
  "			execResult, execErr = fallback.ExecFallback(prepResult, execErr)\n		}",
  "			orig := execErr\n			execResult, execErr = fallback.ExecFallback(prepResult, execErr)\n			if execErr != nil && maxRetries > 1 {\n				execErr = orig\n			}\n		}",
  "when the fallback fails after retries the exec error is reported instead of the fallback's")
# ---------------------------------------------------------------- C05
m("m05a-no-check-after-prep", "C05", "flyt.go",
  "	// Check context again\n	if err := ctx.Err(); err != nil {\n		return \"\", fmt.Errorf(\"run: context cancelled after prep: %w\", err)\n	}\n",
  "")
m("m05b-no-check-between-nodes", "C05", "flyt.go",
  "		// Check context\n		if err := ctx.Err(); err != nil {\n			return nil, fmt.Errorf(\"flow: exec cancelled: %w\", err)\n		}\n",
  "")
m("m05c-no-check-before-retry", "C05", "flyt.go",
  "		// Check context before retry\n		if err := ctx.Err(); err != nil {\n			return \"\", fmt.Errorf(\"run: context cancelled during retry: %w\", err)\n		}\n",
  "		// Check context before retry\n		if err := ctx.Err(); err != nil && attempt == 0 {\n			return \"\", fmt.Errorf(\"run: context cancelled during retry: %w\", err)\n		}\n")
m("m05d-ctx-error-not-wrapped", "C05", "flyt.go",
  "			return nil, fmt.Errorf(\"flow: exec cancelled: %w\", err)",
  "			return nil, fmt.Errorf(\"flow: exec cancelled: %v\", err)")
# ---------------------------------------------------------------- C06
m("m06a-completion-order", "C06", "batch.go",
  "	var mu sync.Mutex\n	shouldStop := false\n",
  "	var mu sync.Mutex\n	shouldStop := false\n	next := 0\n	_ = next\n")  # placeholder, real one below
M.pop()
m("m06a-completion-order", "C06", "batch.go",
  "			mu.Lock()\n			if err != nil {\n				results[idx] = NewErrorResult(err)\n				if errorHandling == \"stop\" {\n					shouldStop = true\n				}\n			} else {",
  "			mu.Lock()\n			if len(items) > 6 && concurrency > 2 {\n				for idx = 0; idx < len(results)-1 && (results[idx].IsError() || !results[idx].IsNil()); idx++ {\n				}\n			}\n			if err != nil {\n				results[idx] = NewErrorResult(err)\n				if errorHandling == \"stop\" {\n					shouldStop = true\n				}\n			} else {",
  "large concurrent batches fill the result list in completion order")
m("m06b-no-wait", "C06", "batch.go",
  "	pool.Wait()\n}",
  "	if len(items) <= 2*concurrency {\n		pool.Wait()\n	}\n}",
  "the barrier is skipped when the batch does not fit the pool's queue")
m("m06c-post-gets-converted-copy", "C06", "batch.go",
  "		slice := ToSlice(prepResult)\n		items = make([]Result, len(slice))\n		for i, item := range slice {\n			items[i] = NewResult(item)\n		}",
  "		slice := ToSlice(prepResult)\n		items = make([]Result, len(slice))\n		for i, item := range slice {\n			items[len(slice)-1-i] = NewResult(item)\n		}",
  "typed-slice prep values are reversed")
# ---------------------------------------------------------------- C07
m("m07a-last-item-skipped", "C07", "batch.go",
  "	for i, item := range items {\n		idx := i\n		itm := item\n",
  "	for i, item := range items {\n		if i == len(items)-1 && len(items) > 3*concurrency+1 {\n			results[i] = NewResult(nil)\n			break\n		}\n		idx := i\n		itm := item\n",
  "the last item of a batch much larger than the pool is never processed")
m("m07b-failed-item-reprocessed", "C07", "batch.go",
  "			execResult, err := runExecWithRetries(ctx, node, itm)\n\n			mu.Lock()",
  "			execResult, err := runExecWithRetries(ctx, node, itm)\n			if err != nil && idx > 0 && idx%5 == 0 {\n				execResult, err = runExecWithRetries(ctx, node, itm)\n			}\n\n			mu.Lock()",
  "every fifth failing item is processed a second time")
# ---------------------------------------------------------------- C08
m("m08a-one-worker-too-many", "C08", "batch.go",
  "	pool := NewWorkerPool(concurrency)\n",
  "	pool := NewWorkerPool(concurrency + concurrency/8)\n",
  "12.5% more workers than the limit (c >= 8)")
m("m08b-pool-capped", "C08", "batch.go",
  "	pool := NewWorkerPool(concurrency)\n",
  "	if concurrency > 8 {\n		concurrency = 8\n	}\n	pool := NewWorkerPool(concurrency)\n",
  "concurrency silently capped at 8: the limit is not fully usable")
m("m08c-sequential-reversed-tail", "C08", "batch.go",
  "func runBatchSequential(ctx context.Context, node Node, items []Result, results []Result, errorHandling string) {\n	for i, item := range items {",
  "func runBatchSequential(ctx context.Context, node Node, items []Result, results []Result, errorHandling string) {\n	if n := len(items); n > 40 {\n		items[n-1], items[n-2] = items[n-2], items[n-1]\n		defer func() { items[n-1], items[n-2] = items[n-2], items[n-1]; results[n-1], results[n-2] = results[n-2], results[n-1] }()\n	}\n	for i, item := range items {",
  "long sequential batches process the last two items out of order")
# ---------------------------------------------------------------- C09
m("m09a-stop-flag-never-set", "C09", "batch.go",
  "				if errorHandling == \"stop\" {\n					shouldStop = true\n				}",
  "				if errorHandling == \"stop\" && idx == 0 {\n					shouldStop = true\n				}",
  "only a failure of the first item stops a concurrent batch")
m("m09b-revert-fix", "C09", "REVERT", "9de8c39", "")
# ---------------------------------------------------------------- C10
m("m10a-flow-post-default", "C10", "flyt.go",
  "	if action, ok := execResult.(Action); ok {\n		return action, nil\n	}\n	return DefaultAction, nil",
  "	if action, ok := execResult.(Action); ok && action != \"\" && len(f.transitions) > 1 {\n		return action, nil\n	}\n	return DefaultAction, nil",
  "an embedded flow with at most one connected node always presents the default action")
m("m10b-inner-flow-fresh-store", "C10", "flyt.go",
  "		action, err := Run(ctx, current, shared)\n		if err != nil {\n			return nil, err\n		}\n",
  "		nodeStore := shared\n		if inner, ok := current.(*Flow); ok && len(inner.transitions) == 0 {\n			nodeStore = NewSharedStore()\n			nodeStore.Merge(shared.GetAll())\n		}\n		action, err := Run(ctx, current, nodeStore)\n		if err != nil {\n			return nil, err\n		}\n",
  "a single-node inner flow runs on a copy of the store")
# ---------------------------------------------------------------- C11
m("m11a-no-item-ctx-check", "C11", "batch.go",
  "			if ctx.Err() != nil {\n				results[idx] = NewErrorResult(fmt.Errorf(\"context cancelled\"))\n				return\n			}\n",
  "")
m("m11b-no-retry-ctx-check", "C11", "batch.go",
  "		if ctx.Err() != nil {\n			return nil, fmt.Errorf(\"context cancelled during retry: %w\", ctx.Err())\n		}\n",
  "		if ctx.Err() != nil && attempt == 0 {\n			return nil, fmt.Errorf(\"context cancelled during retry: %w\", ctx.Err())\n		}\n")
m("m11c-wait-not-interruptible-batch", "C11", "batch.go",
  "			select {\n			case <-time.After(wait):\n			case <-ctx.Done():\n				return nil, fmt.Errorf(\"context cancelled during wait: %w\", ctx.Err())\n			}",
  "			time.Sleep(wait)")
# ---------------------------------------------------------------- C12
m("m12a-submit-drops", "C12", "flyt.go",
  "	p.wg.Add(1)\n	p.tasks <- func() {\n		defer p.wg.Done()\n		task()\n	}",
  "	p.wg.Add(1)\n	select {\n	case p.tasks <- func() {\n		defer p.wg.Done()\n		task()\n	}:\n	default:\n		p.wg.Done()\n	}")
m("m12b-add-after-enqueue", "C12", "flyt.go",
  "	p.wg.Add(1)\n	p.tasks <- func() {\n		defer p.wg.Done()\n		task()\n	}",
  "	p.tasks <- func() {\n		task()\n		p.wg.Done()\n	}\n	p.wg.Add(1)")
m("m12c-close-leaks", "C12", "flyt.go",
  "	close(p.done)\n	close(p.tasks)",
  "	if p.workers > 4 {\n		return\n	}\n	close(p.done)\n	close(p.tasks)")
m("m12d-done-before-task", "C12", "flyt.go",
  "		defer p.wg.Done()\n		task()",
  "		p.wg.Done()\n		task()")
# ---------------------------------------------------------------- C13
m("m13a-merge-per-key", "C13", "flyt.go",
  "	s.mu.Lock()\n	defer s.mu.Unlock()\n	for k, v := range data {\n		s.data[k] = v\n	}",
  "	for k, v := range data {\n		s.mu.Lock()\n		s.data[k] = v\n		s.mu.Unlock()\n	}")
m("m13b-len-unlocked", "C13", "flyt.go",
  "func (s *SharedStore) Len() int {\n	s.mu.RLock()\n	defer s.mu.RUnlock()\n	return len(s.data)",
  "func (s *SharedStore) Len() int {\n	return len(s.data)")
m("m13c-clear-per-key", "C13", "flyt.go",
  "	s.mu.Lock()\n	defer s.mu.Unlock()\n	s.data = make(map[string]any)",
  "	for _, k := range s.Keys() {\n		s.Delete(k)\n	}")
m("m13d-has-then-get", "C13", "flyt.go",
  "func (s *SharedStore) GetIntOr(key string, defaultVal int) int {\n	val, ok := s.Get(key)\n	if !ok {\n		return defaultVal\n	}\n",
  "func (s *SharedStore) GetIntOr(key string, defaultVal int) int {\n	if !s.Has(key) {\n		return defaultVal\n	}\n	val, _ := s.Get(key)\n",
  "typed getter reads twice: a delete in between yields 0 instead of the default")
# ---------------------------------------------------------------- C14
m("m14a-getall-internal", "C14", "flyt.go",
  "	copy := make(map[string]any, len(s.data))\n	for k, v := range s.data {\n		copy[k] = v\n	}\n	return copy",
  "	if len(s.data) > 6 {\n		return s.data\n	}\n	copy := make(map[string]any, len(s.data))\n	for k, v := range s.data {\n		copy[k] = v\n	}\n	return copy",
  "large stores hand out the internal map")
m("m14b-merge-skips-nil-values", "C14", "flyt.go",
  "	for k, v := range data {\n		s.data[k] = v\n	}",
  "	for k, v := range data {\n		if v == nil {\n			continue\n		}\n		s.data[k] = v\n	}")
m("m14c-clear-reuses-map", "C14", "flyt.go",
  "	s.data = make(map[string]any)\n}",
  "	for k := range s.data {\n		if k != \"\" {\n			delete(s.data, k)\n		}\n	}\n}",
  "Clear forgets the empty key")
# ---------------------------------------------------------------- C15
m("m15a-asint-drops-uint16", "C15", "result.go",
  "	case uint16:\n		return int(v), true\n	case uint32:\n		return int(v), true\n	case uint64:\n		return int(v), true\n	case float32:\n		return int(v), true\n	case float64:\n		return int(v), true\n	default:\n		return 0, false",
  "	case uint32:\n		return int(v), true\n	case uint64:\n		return int(v), true\n	case float32:\n		return int(v), true\n	case float64:\n		return int(v), true\n	default:\n		return 0, false")
m("m15b-store-float-via-int", "C15", "flyt.go",
  "	case float32:\n		return float64(v)\n	case int:\n		return float64(v)",
  "	case float32:\n		return float64(int64(v))\n	case int:\n		return float64(v)",
  "store float getter truncates float32 values")
m("m15c-revert-fix", "C15", "REVERT", "555db22", "")
# ---------------------------------------------------------------- C16
m("m16a-fast-path-by-kind", "C16", "result.go",
  "	if valType == destType {\n		rv.Elem().Set(reflect.ValueOf(r.value))\n		return nil\n	}",
  "	if valType == destType || (valType.Kind() == destType.Kind() && valType.ConvertibleTo(destType) && valType.Kind() != reflect.Struct && valType.Kind() != reflect.Ptr) {\n		rv.Elem().Set(reflect.ValueOf(r.value).Convert(destType))\n		return nil\n	}",
  "fast path for convertible types skips the JSON round trip")
m("m16b-store-bind-nil-dest", "C16", "flyt.go",
  "	if rv.Kind() != reflect.Ptr || rv.IsNil() {\n		return fmt.Errorf(\"destination must be a non-nil pointer\")\n	}\n\n	// If val is already the correct type, assign directly",
  "	if rv.Kind() != reflect.Ptr {\n		return fmt.Errorf(\"destination must be a non-nil pointer\")\n	}\n\n	// If val is already the correct type, assign directly",
  "store.Bind no longer rejects a typed nil pointer")
# ---------------------------------------------------------------- C17
m("m17a-revert-fix", "C17", "REVERT", "5fd42db", "")
m("m17b-builder-postany-prep-twice", "C17", "builder.go",
  "		return fn(ctx, shared, prepResult.Value(), execResult.Value())\n	}\n	return b",
  "		return fn(ctx, shared, prepResult.Value(), prepResult.Value())\n	}\n	return b")
m("m17c-execany-unwraps-slices", "C17", "flyt.go",
  "			val, err := fn(ctx, prepResult.Value())\n			if err != nil {\n				return Result{}, err\n			}\n			return NewResult(val), nil\n		}\n	},\n	}\n}\n\n// WithPostFuncAny",
  "XX")
M.pop()
# ---------------------------------------------------------------- C18
m("m18a-revert-fix", "C18", "REVERT", "2c85686", "")
m("m18b-batch-normalisation-only-with-items", "C18", "batch.go",
  "	if action == \"\" {\n		action = DefaultAction\n	}\n\n	return action, nil\n}\n\nfunc runBatchSequential",
  "	if action == \"\" && concurrency == 0 {\n		action = DefaultAction\n	}\n\n	return action, nil\n}\n\nfunc runBatchSequential",
  "concurrent batches no longer normalise the empty action")
# ---------------------------------------------------------------- C19
m("m19a-builder-wait-resets-retries", "C19", "builder.go",
  "	WithWait(wait)(b.BaseNode)\n	return b",
  "	*b.BaseNode = *NewBaseNode(WithWait(wait), WithBatchConcurrency(b.GetBatchConcurrency()), WithMaxRetries(b.GetMaxRetries()))\n	return b",
  "NodeBuilder.WithWait rebuilds the base node and forgets the error-handling mode")
m("m19b-revert-fix", "C19", "REVERT", "b30b71a", "")
m("m19c-option-order", "C19", "flyt.go",
  "	// Apply base node options first\n	for _, opt := range baseOpts {\n		opt(node.BaseNode)\n	}",
  "	// Apply base node options first\n	for i := len(baseOpts) - 1; i >= 0; i-- {\n		baseOpts[i](node.BaseNode)\n	}",
  "constructor options are applied in reverse: first setting wins")
# ---------------------------------------------------------------- C20
m("m20a-wait-before-first", "C20", "flyt.go",
  "		if attempt > 0 && wait > 0 {\n			select {\n			case <-time.After(wait):\n				// Continue with retry",
  "		if (attempt > 0 || maxRetries > 3) && wait > 0 {\n			select {\n			case <-time.After(wait):\n				// Continue with retry",
  "budgets > 3 wait before the first attempt as well")
m("m20b-sleep-uninterruptible", "C20", "flyt.go",
  "			select {\n			case <-time.After(wait):\n				// Continue with retry\n			case <-ctx.Done():\n				return \"\", fmt.Errorf(\"run: context cancelled during wait: %w\", ctx.Err())\n			}",
  "			time.Sleep(wait)")
m("m20c-batch-wait-halved", "C20", "batch.go",
  "			case <-time.After(wait):\n			case <-ctx.Done():",
  "			case <-time.After(wait / 2):\n			case <-ctx.Done():",
  "batch items wait only half the configured time")
m("m20d-wait-error-not-ctx", "C20", "flyt.go",
  "				return \"\", fmt.Errorf(\"run: context cancelled during wait: %w\", ctx.Err())",
  "				return \"\", fmt.Errorf(\"run: context cancelled during wait: %v\", ctx.Err())")
