#!/bin/bash
# Runs every seeded change (sub-agent rounds in seeded-src/ or seeded/, own mutants) against ALL checks, two streams in parallel.
# Results: /tmp/final/res_r<N>.json, /tmp/final/own.json
export GOFLAGS=-mod=mod GOPROXY=off GOSUMDB=off GOTOOLCHAIN=local
cd "$(dirname "$0")/.."
mkdir -p /tmp/final
export VERIF_JOBS=${VERIF_JOBS:-10}
( for r in 7 5 3 1; do RESULTS_OUT=/tmp/final/res_r$r.json ./selftest/run_agents.py seeded-src/r$r --all > /tmp/final/all_r$r.log 2>&1; done ) &
( for r in 6 4 2; do RESULTS_OUT=/tmp/final/res_r$r.json ./selftest/run_agents.py seeded-src/r$r --all > /tmp/final/all_r$r.log 2>&1; done; RESULTS_OUT=/tmp/final/own.json ./selftest/run_own.py --all > /tmp/final/all_own.log 2>&1 ) &
wait
echo MATRIX-DONE
