#!/bin/bash
# Runs every seeded change against the frozen checks, four streams in parallel (longest first):
#   own mutants and the two latest sub-agent rounds against ALL 20 checks,
#   the earlier rounds against the target property's family of checks (flow / batch / store; see run_agents.py --group).
# Results: /tmp/final/res_r<N>.json, /tmp/final/own.json (the copies the catch matrix of DESIGN §11 was made from are in selftest/results/;
# rounds 11-15 were run the same way, --group, at the end of their own round)
export GOFLAGS=-mod=mod GOPROXY=off GOSUMDB=off GOTOOLCHAIN=local
cd "$(dirname "$0")/.."
mkdir -p /tmp/final
export VERIF_JOBS=${VERIF_JOBS:-6}
export VERIF_WATCHDOG_S=${VERIF_WATCHDOG_S:-240}  # a child hung by a seeded change is given up after 4 minutes (quick shards take seconds)
one() {
  case "$1" in
    own) RESULTS_OUT=/tmp/final/own.json ./selftest/run_own.py --all > /tmp/final/all_own.log 2>&1 ;;
    9|10) RESULTS_OUT=/tmp/final/res_r$1.json ./selftest/run_agents.py seeded r$1- --all > /tmp/final/all_r$1.log 2>&1 ;;
    *) RESULTS_OUT=/tmp/final/res_r$1.json ./selftest/run_agents.py seeded r$1- --group > /tmp/final/all_r$1.log 2>&1 ;;
  esac
  echo "done $1 $(date +%H:%M)"
}
export -f one
printf '%s\n' own ${ROUNDS:-10 9 8 7 6 5 4 3 2 1} | xargs -P 4 -I{} bash -c 'one {}'
echo MATRIX-DONE
