#!/usr/bin/env python3
"""merge_rows.py <res_rN.json> <rerun.json>: replaces the rows of single changes that were run again (against all 20 checks)."""
import json, sys
res, fix = json.load(open(sys.argv[1])), json.load(open(sys.argv[2]))
by = {r["name"]: r for r in fix}
out = [by.pop(r["name"], r) for r in res]
out += list(by.values())
json.dump(out, open(sys.argv[1], "w"), indent=1)
print("merged", len(fix), "rows into", sys.argv[1])
