#!/usr/bin/env python3
"""Validates sub-agent mutants: demo passes clean / suite passes with patch / demo fails with patch / which checks fire."""
import json, os, subprocess, sys, glob
ROOT = os.path.dirname(os.path.dirname(os.path.abspath(__file__)))
src = sys.argv[1] if len(sys.argv) > 1 else "/tmp/agent-out"
only = sys.argv[2:]
allp = "--all" in only
grp = "--group" in only  # the target property's family of checks only (flow / batch / store)
GROUPS = [["C01", "C02", "C03", "C04", "C05", "C10", "C18", "C19"], ["C06", "C07", "C08", "C09", "C11", "C12", "C17", "C20"], ["C13", "C14", "C15", "C16"]]
only = [o for o in only if not o.startswith("--")]
rows = []
# two layouts: the sub-agents' output (<src>/Cxx/{A,B}.diff, demo_{a,b}_test.go) and the kept set (seeded/<rN>-Cxx-{A,B}/patch.diff, demo_test.go;
# there the filters are prefixes of the full id, e.g. "r3-" or "r3-C11-B")
todo = []
if os.path.basename(os.path.normpath(src)) == "seeded":
    for d in sorted(glob.glob(os.path.join(src, "r*-C*-[AB]"))):
        rid = os.path.basename(d)
        if only and not any(rid.startswith(o) for o in only):
            continue
        todo.append((rid.split("-", 1)[1], rid.split("-")[1], os.path.join(d, "patch.diff"), os.path.join(d, "demo_test.go")))
else:
    for d in sorted(glob.glob(os.path.join(src, "C*"))):
        for ab in ("A", "B"):
            name = f"{os.path.basename(d)}-{ab}"
            if only and not any(name.startswith(o) for o in only):
                continue
            todo.append((name, os.path.basename(d)[:3], os.path.join(d, ab + ".diff"), os.path.join(d, f"demo_{ab.lower()}_test.go")))
for name, prop, patch, demo in todo:
    if True:
        if not os.path.exists(patch):
            continue
        out = f"/tmp/agent-{os.getpid()}-{name}.json"
        cmd = [os.path.join(ROOT, "selftest", "mutate.py"), patch, "--demo", demo, "--json", out]
        cmd += ["--all"] if allp else ["--props", ",".join([prop] + [q for g in GROUPS if prop in g for q in g if q != prop]) if grp else prop]
        p = subprocess.run(cmd, stdout=subprocess.PIPE, stderr=subprocess.STDOUT, text=True)
        try:
            r = json.load(open(out)); os.remove(out)
        except Exception:
            print(name, "ERROR", p.stdout[-2000:], flush=True)
            continue
        fired = [k for k, v in r["props"].items() if v["status"] == "FIRED"]
        other = [k + ":" + v["status"] for k, v in r["props"].items() if v["status"] not in ("FIRED", "silent")]
        tgt = r["props"].get(prop, {})
        print(f"{name:8s} clean-demo={'ok' if r.get('demo_passes_without_patch') else 'FAIL'} suite={'ok' if r.get('suite_passes_with_patch') else 'FAIL'} demo-with-patch={'fails' if r.get('demo_fails_with_patch') else 'PASSES'}  target {prop}={tgt.get('status')} fired={fired} {other} {(tgt.get('keys') or [''])[0][:140]}", flush=True)
        rows.append(dict(name=name, prop=prop, **{k: r.get(k) for k in ("demo_passes_without_patch", "suite_passes_with_patch", "demo_fails_with_patch")}, fired=fired, other=other, keys=tgt.get("keys"), ran=sorted(r["props"])))
json.dump(rows, open(os.environ.get("RESULTS_OUT") or ("/tmp/agent_results.json" if only else os.path.join(ROOT, "selftest", "agent_results.json")), "w"), indent=1)
