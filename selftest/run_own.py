#!/usr/bin/env python3
"""Runs every own mutant against the check of the property it is aimed at (or --all checks) and prints a table."""
import json, os, subprocess, sys
ROOT = os.path.dirname(os.path.dirname(os.path.abspath(__file__)))
sys.path.insert(0, os.path.join(ROOT, "selftest", "own"))
import mutants
only = [a for a in sys.argv[1:] if not a.startswith("--")]
allp = "--all" in sys.argv
rows = []
for m in mutants.M:
    if only and not any(m["id"].startswith(o) or m["prop"] == o for o in only):
        continue
    out = "/tmp/own-%s.json" % m["id"]
    cmd = [os.path.join(ROOT, "selftest", "mutate.py"), "--own", m["id"], "--json", out]
    cmd += ["--all"] if allp else ["--props", m["prop"]]
    p = subprocess.run(cmd, stdout=subprocess.PIPE, stderr=subprocess.STDOUT, text=True)
    try:
        r = json.load(open(out))
        os.remove(out)
    except Exception:
        print(m["id"], "ERROR", p.stdout[-1500:])
        continue
    fired = [k for k, v in r["props"].items() if v["status"] == "FIRED"]
    other = [k + ":" + v["status"] for k, v in r["props"].items() if v["status"] not in ("FIRED", "silent")]
    tgt = r["props"].get(m["prop"], {})
    print(f"{m['id']:42s} suite={'ok ' if r.get('suite_passes_with_patch') else 'FAIL'} target {m['prop']}={tgt.get('status')}  fired={fired} {other}  {(tgt.get('keys') or [''])[0][:110]}", flush=True)
    rows.append(dict(id=m["id"], prop=m["prop"], suite=r.get("suite_passes_with_patch"), fired=fired, other=other, note=m.get("note", "")))
json.dump(rows, open(os.environ.get("RESULTS_OUT") or (os.path.join(ROOT, "selftest", "own_results.json") if not only else "/tmp/own_partial.json"), "w"), indent=1)
